#!/usr/bin/env python3
"""Regenerate /verif/MANIFEST.json from the table below (kept valid at all times)."""
import json, os
ROOT = os.path.dirname(os.path.dirname(os.path.abspath(__file__)))
props = [json.loads(l)["id"] for l in open(os.path.join(ROOT, "properties.jsonl"))]

CLAIMED = {
 "C05": dict(
   text="spec/Mailbox.tla (one action per critical section of strax.Mailbox, explicit condition-variable waiter sets) is "
        "model-checked by TLC over all schedules of every configuration of the tier (InOrder, Complete, CapInv, NoError, "
        "NoDeadlock, Termination); every edge of the dumped state graph is replayed lock-step on the real strax.Mailbox "
        "under a deterministic scheduler (projected state, thread pcs and enabled sets compared), and seeded random real "
        "schedules are validated by TLC against the spec (MailboxTrace.tla). Bisimulation on the bounded instances lifts "
        "TLC's all-schedules verdict to the code. strax.divide_outputs feeding 2-3 mailboxes (eager / lazy / flow_freely) is run "
        "under random schedules and judged by TLC at the P-level (MailboxObs.tla).",
   note="Trusted: TLC, dsched (harness/dsched.py) faithfully serialising threading primitives, timeouts never fire, "
        "shared mailbox state is only touched under Mailbox._lock. Bounded: <=3 subscribers, <=5 messages, capacity<=4.",
   technique="TLA+ model checking (TLC) + lock-step replay of the TLC state graph into the real Mailbox + TLC trace validation",
   design="4/C05"),
 "C07": dict(
   text="spec/Chunks.tla gives set-theoretic definitions of split / early split / concatenate / merge / sub-run bookkeeping and "
        "transcriptions of split_array's scan and the annotation code; TLC checks the laws of chunking and "
        "'transcription conforms to definition' on every chunk of the scope and prints the expected results, which are compared "
        "with the real strax functions (enumerated-case replay). Real Rechunker runs over every chunking of the scope are "
        "recorded and validated by TLC against the nondeterministic P-level of rechunking (RechunkTrace.tla); an exception on "
        "valid input is a violation.",
   note="Trusted: TLC, the JSON case transport, numpy structured arrays with (time, endtime). Bounded scope: <=4 rows on a grid "
        "of <=9 time units, <=3 chunks per stream, target sizes 1..4 rows.",
   technique="TLA+ definitional oracle enumerated by TLC + replay of every case into the real code; TLC trace validation for the rechunker",
   design="4/C07"),
 "C08": dict(
   text="spec/PluginIter.tla transcribes Plugin.iter (first fetch and pacemaker choice, fetch-until-end, early split, <=10 retrim "
        "passes, exhaustion and leftover checks) and picks every dependency's chunking nondeterministically from all law-abiding "
        "chunkings; TLC checks the C08 predicates (PluginIterP.tla: aligned, adjacent, same-kind row alignment, rows inside, "
        "prefix / exactly-once, no silent drop, no spurious failure) on all reachable states. Every terminal behaviour is "
        "replayed through the real Plugin.iter with a recording plugin; TLC then judges each recorded real run against the "
        "P-level (PluginIterTrace.tla); the I-level comparison is reported as drift.",
   note="Trusted: TLC, the recording plugin and hand-built dependency plugins driving Plugin.iter directly. Bounded: <=4 "
        "dependencies, <=3 kinds, <=4 rows per kind on grid 0..8, <=4 chunks per dependency.",
   technique="TLA+ model checking of an implementation-shaped spec + replay of all TLC behaviours into Plugin.iter + TLC trace validation at P-level",
   design="4/C08"),
 "C04": dict(
   text="spec/Storage.tla models the saver protocol at file-system-operation granularity (removal of old data step by step, temp "
        "directory, chunk temp file / write / rename, metadata truncate / write, final rename), both processors' failure routing, "
        "worker-thread writes, process death and retries; TLC checks VisibleImpliesCorrect / ReportedFailure / RetryHeals over "
        "all fault points and interleavings (and that the protocol as found violates them). Binding: every file-system "
        "operation of a real Context.make is a fault point (OSError, death before, death after; plugin exceptions; second "
        "faults during the retry incl. every step of removing old data), for the thread pool also under the schedule in which "
        "every worker finishes right after the saver found its future unfinished; a fresh Context observes, a retry follows. TLC "
        "validates each recorded saver operation sequence against Storage.tla (StorageTrace.tla) and each observation against "
        "the P-level (StorageObs.tla).",
   note="Trusted: TLC, the interposer (module attributes os/shutil/open of strax.storage.files and strax.io replaced in a forked "
        "child), os._exit as process death. A write() is atomic in the model. Savers inlined into worker processes (ParallelSourcePlugin) are covered by the fault "
        "enumeration and the P-level only; their per-chunk metadata protocol is not in Storage.tla.",
   technique="TLA+ model checking of the storage protocol + exhaustive fault injection on the real code with TLC trace validation (I-level) and TLC-evaluated P-level on observations",
   design="4/C04"),
 "C17": dict(
   text="spec/Intervals.tla defines containment, split-by-containment, touching windows, overlap indices, gaps, break finding, "
        "time-to-neighbour and stable sorting by quantification over index sets, and transcribes the sweep-line loops of "
        "_fc_in and _touching_windows; TLC checks transcription = definition on every input of the scope and prints the "
        "expected results, which are compared with the real numba functions in both endtime encodings (unsorted inputs must "
        "be rejected). A seeded random extension covers larger arrays.",
   note="Trusted: TLC, JSON transport. Containment uses half-open semantics for zero-length things. Bounded: <=4 things, <=3 "
        "containers, grid 0..6, windows -2..3.",
   technique="TLA+ definitional oracle enumerated by TLC + replay of every case into the real functions",
   design="4/C17"),
 "C09": dict(
   text="spec/OverlapWindow.tla transcribes OverlapWindowPlugin (prepend cached input, compute, drop what was sent, withhold "
        "results beyond end-2*right-1 with early split, multi-output cache_beyond alignment, input caching, final flush) over "
        "every law-abiding input chunking; TLC checks the C09 predicates (OverlapWindowP.tla: concatenated output = window-local "
        "computation of the whole run, contiguous, mutually aligned, nothing duplicated) on all states. Every terminal "
        "behaviour is replayed through a real OverlapWindowPlugin subclass computing the same window-local functions; TLC "
        "judges each recorded real run at P-level (OverlapWindowTrace.tla); I-level differences are drift.",
   note="Trusted: TLC, harness plugins LocalA/LocalB (same integer functions as the spec), plugin driven through Plugin.iter. "
        "Bounded: <=6 rows on grid 0..12, <=4 chunks, windows 0..3 x 0..3.",
   technique="TLA+ model checking of an implementation-shaped spec + replay of all TLC behaviours into the real plugin + TLC trace validation at P-level",
   design="4/C09"),
 "C12": dict(
   text="spec/Contracts.tla enumerates every (plugin kind, violation kind, position, processor) tuple with the applicability "
        "table and models the chain of checks applied on each path (_fix_output, _check_dtype, Chunk.__init__, "
        "DownChunkingPlugin._fix_output, continuity_check); TLC checks that every violating output is rejected before it is "
        "delivered (and that the chain as found was not). The harness executes every tuple on the real code with a "
        "misbehaving harness plugin of that kind and observes exception vs normal return of get_array and is_stored from a "
        "fresh context.",
   note="Trusted: TLC, harness plugins injecting the violation into an otherwise correct plugin of each kind. Chunks of <=500 rows.",
   technique="TLA+ model of the check chains (TLC) + execution of every enumerated tuple on the real code",
   design="4/C12"),
 "C06": dict(
   text="spec/Pipeline.tla models the exception relay of the threaded processor for chains of stages with savers (who kills which "
        "mailbox with which reason, MailboxKilled travelling downstream, forced kills stopping senders, the main thread killing all "
        "mailboxes, joining, re-raising, saver got_exception) over atomic mailbox operations; TLC checks NoDeadlock, EveryoneStops, "
        "CallerOutcome (the original exception, never 'returned'), EagerCap and termination for every failure position, lazy and "
        "eager, all schedules (and that dropping the main thread's kill-all breaks them). The condition-variable layer underneath "
        "is Mailbox.tla, bisimulated with the real Mailbox (C05); here it is extended by a killer thread (kill(upstream=True) at an "
        "arbitrary moment): TLC checks that every sender / reader finds its way out (NoDeadlock, Termination, InOrder) and every edge of "
        "the state graph is replayed lock-step on the real mailbox. Code level: every (topology, stage, chunk) failure, saver close "
        "failure, consumer failure / abandonment and the failure-free case run on both real processors - the threaded one under "
        "the deterministic scheduler for seeded random and priority-based schedules - and TLC judges every observation against "
        "PipelineObs.tla (original exception reaches the caller, no hang, no live threads, no silent truncation). The last clause "
        "(termination provided the capacity exceeds the chunk lag) has its own model, spec/LagNet.tla: a diamond whose one branch holds "
        "back Lag chunks, mailboxes of capacity Cap with the batch-grabbing readers of Mailbox._read; for every (Cap, Lag) of a grid TLC "
        "decides whether every schedule terminates, every schedule deadlocks or the outcome depends on the schedule, and checks that "
        "Lag < Cap never gets stuck; the same network runs on the real threaded processor under the deterministic scheduler and the "
        "outcomes are compared cell by cell (on the unchanged tree the tables agree exactly, including the schedule-dependent cell).",
   note="Binding of Pipeline.tla: every real chain run (source -> plugin -> plugin with savers, or with a loader) records, per scheduler "
        "step, the acting thread and the projection of the real mailboxes (messages pushed, END pushed, killed, force_killed, class of "
        "killed_because, _subscribers_have_read, _subscriber_waiting_for, finished threads, the caller's outcome); TLC accepts a trace iff "
        "it is a behaviour of Pipeline.tla (PipelineTrace.tla; pcs and local buffers inferred) and evaluates the invariants along it (a rejection is drift in the evidence, an invariant failing along a trace is a violation). "
        "Other topologies (diamond, multi-output) are judged at the P-level only. Schedules of the real pipeline are sampled; timeouts "
        "never fire; capacity 2/4 above every plugin lag.",
   technique="TLA+ model checking of the exception relay (Pipeline.tla) + TLC trace validation of real pipeline runs under a deterministic scheduler (PipelineTrace.tla) + P-level judgement by TLC (PipelineObs.tla)",
   design="4/C06"),
 "C13": dict(
   text="Mailbox level: spec/Mailbox.tla is model-checked over all schedules of every configuration for CapInv (eager: never more "
        "than the capacity buffered) and the action property LazyDemand (lazy: the source is advanced only while a driving "
        "reader waits for an unproduced message); the model is bound to strax.Mailbox by the lock-step replay of C05, and a TLC "
        "counterexample is replayed on the real mailbox where the same predicate is evaluated when the source is advanced. "
        "Pipeline model: spec/Pipeline.tla with a consumer that stops pulling after k chunks is model-checked over all schedules, eager "
        "and lazy, with and without savers, for run lengths N and 2N: EagerCap, LazyDemand (a stage passes its gate only on demand), "
        "PauseBound (production after the pause bounded by the graph and the capacity, not the run length), quiescence without "
        "deadlock; without backpressure the bounds must fail. Real chain runs with a pausing consumer are validated step by step "
        "against that model (PipelineTrace.tla). Pipeline level: real pipelines (4 topologies x lazy/eager x capacities x pause points) run under the deterministic "
        "scheduler with a consumer that stops pulling; at quiescence source computations for N vs 2N chunks, len(_mailbox) "
        "after every step and the demand predicate at every source advance are recorded and judged by TLC (BackpressureObs.tla). For a graph that is not a chain, spec/LagNet.tla (the diamond with a branch that holds back Lag chunks, batch-grabbing "
        "readers as in Mailbox._read) is run with a consumer that stops: TLC collects the largest number of source chunks over all "
        "schedules, checks that it is the same for N and 2 N chunks, and no real run of that diamond under the deterministic scheduler may "
        "compute more source chunks than that.",
   note="Pipeline schedules are sampled (seeded); quiescence = no enabled thread under the scheduler; timeouts never fire.",
   technique="TLA+ model checking (Mailbox.tla: CapInv, LazyDemand; Pipeline.tla: EagerCap, LazyDemand, PauseBound) with counterexample replay + TLC trace validation of real pausing chain runs + scheduler-driven pipeline runs judged by TLC",
   design="4/C13"),
 "C11": dict(
   text="spec/Components.tla defines ToRun / ToLoad / ToSave / MustError by set comprehension over the dependency graph, the stored "
        "subset, per-output save policies and the request, and transcribes the check_cache recursion of get_components; TLC checks "
        "transcription = definition (and PartialSavesNothing, Minimal, OneOrigin) on every request of the scope and prints the "
        "expected sets; the harness compares them with the real get_components result and with a real run (compute-call counters "
        "per plugin, storage directory before / after, one saver per writable frontend). A second family of cases covers two "
        "storage frontends with read-only / take_only / exclude filters and independent contents: the spec defines which frontend a "
        "loaded type comes from and which frontends a saved type goes to (P-level) and transcribes the loops of "
        "_get_partial_loader_for / _add_saver; the harness compares loader origins, savers per frontend and each directory's "
        "contents after a real run. spec/Inline.tla transcribes ParallelSourcePlugin.inline_plugins (what multiprocessing does to the "
        "components: which plugins are merged into the worker-side plugin, which outputs it sends, which savers move into it) with "
        "the P-level that every needed type still has exactly one origin, no plugin runs twice, every saver is fed and the merged "
        "plugin's inputs are served; the expected rewriting is compared with the real inline_plugins on requests x parallel "
        "attributes x rechunk_on_save, and real multiprocess runs (worker processes) are compared with single-thread runs. The "
        "PostOffice logs of all single-thread runs are judged by TLC against the P-level of PostOffice.tla (PostOfficeObs.tla).",
   note="Trusted: TLC; stored subsets prepared by copying data made under an all-ALWAYS policy. Scope: chain, multi-output (one / both outputs consumed, one through an "
        "ExhaustPlugin) and diamond graphs of <=5 types, 12 policy assignments, all stored subsets x targets x save= x 6 modifiers x forbid settings "
        "(quick tier executes a seeded sample of the enumerated requests, thorough all).",
   technique="TLA+ definitional oracle + transcription checked by TLC, replay of enumerated requests into the real Context",
   design="4/C11"),
 "C10": dict(
   text="spec/Selection.tla defines the answer of every request as the full data filtered by the request's predicate (fully_contained / "
        "touching range, row selection) and transcribes loader pruning, apply_time_range, per-chunk apply_selection and the "
        "alignment of several same-kind streams; TLC checks transcription = definition for every on-disk layout (all chunkings) "
        "and every range of the scope, and the alignment invariant for pairs of layouts (violated by the code as found), and "
        "prints the expected answers. The harness stores every layout with the real saver and asks the real get_array for every "
        "enumerated request (both processors, row selections, column projection), also checking that nothing is saved.",
   note="Trusted: TLC, harness source plugins writing the layouts. Scope: runs of <=4 rows on grid 0..8, <=4 chunks, ranges a<b with "
        "endpoints 0..9, pairs of layouts for two same-kind types; quick tier executes a seeded sample of layouts.",
   technique="TLA+ definitional oracle + transcription checked by TLC, replay of enumerated requests into the real Context on real storage",
   design="4/C10"),
 "C02": dict(
   text="spec/Lineage.tla models registry, config, the per-context plugin cache exactly as the code keys it (context hash = config + "
        "registered versions), lineage keys and shared storage for four data types (src <- mid <- top, mid <- kid) with per-plugin tracked "
        "options, an untracked option, an option shared by three plugins, an option tracked by one plugin and untracked by another, and a "
        "child plugin whose child option replaces its parent's option; TLC explores all histories up to a bound over {set_config, register "
        "(class variants), new_context, set fuzzy_for / fuzzy_for_options, get, key_for} and checks NoStaleRead (a get returns what a "
        "brand-new context would compute), FuzzyAccepts (under fuzzy matching stored data is accepted exactly when its lineage differs "
        "only in the fuzzy parts, exact match preferred), NothingWrittenUnderFuzzy, "
        "KeyIsLineage and the static key laws (tracked option / version / class move exactly the type and its descendants, "
        "untracked options move nothing); the protocol as found violates NoStaleRead. Histories (all get-change-get shapes + seeded "
        "random ones) run on real Contexts sharing a DataDirectory with provenance-encoding plugins; TLC validates every recorded "
        "history against the spec (LineageTrace.tla: returned provenance, one-to-one correspondence real key <-> lineage value, "
        "invariants after every event). Key stability across hash seeds and insertion orders is tested in child processes on every "
        "lineage reached and on container-valued options.",
   note="Trusted: TLC; harness plugins whose output encodes (class name+version, effective tracked option, input provenance). "
        "strax refuses two registered plugins with different defaults for one option, so the shared / inherited options have one default. Hash-seed independence is decided by the conformance step, not TLC.",
   technique="TLA+ model checking over histories + TLC trace validation of histories executed on real Contexts",
   design="4/C02"),
 "C03": dict(
   text="spec/StreamCases.tla enumerates contiguous chunk streams (every chunking of every small row set); each is written through the "
        "real FileSytemBackend saver (Saver.save_from, real Rechunker with target sizes from one row upward or no rechunking, serial "
        "or thread-pool writes) for three structured dtypes and all four compressors and read back through the real loader; TLC "
        "judges every recorded round trip against spec/StorageRT.tla: identical rows in order, contiguity, same overall range, "
        "boundaries equal (no rechunk) or written boundaries / row-free gaps (rechunk), and metadata consistency (per-chunk n, "
        "nbytes, start/end, first/last times, run id, file present iff n>0, overall start/end, completion marker). An exception on "
        "a valid stream is a violation.",
   note="Bit-identity of rows (random payload bytes) is decided by the harness, everything else by TLC. Scope: <=3 rows, <=3 chunks, "
        "grid 0..8; quick tier samples the stream x setting matrix (seeded) and runs the full matrix on a subset.",
   technique="TLA+-enumerated inputs + TLC trace validation of recorded save/load round trips against a nondeterministic P-level",
   design="4/C03"),
 "C16": dict(
   text="spec/StoreOps.tla is a state machine over histories of storage operations on one data type in two data directories (make, "
        "copy_to_frontend, stand-alone rechunker in place / to a new location, load with or without rechunk-on-load); the abstract "
        "state is the chunk edges and compressor per location, operations choose any admissible regrouping; TLC checks "
        "AllCopiesComplete and SourceIntact over all histories of the bound. Seeded random applicable histories are executed on real "
        "storage; after every operation both directories are read back with the real backend (edges, row ids per chunk, chunk "
        "metadata, compressor) and TLC validates the history against the spec (StoreOpsTrace.tla: every event is the corresponding "
        "action and the real state is exactly the image of the abstract one). In addition the single-operation matrix - "
        "copy_to_frontend (compressors x rechunk targets), the rechunker (compressors x target sizes x serial / thread / process x "
        "new location / replace), rechunk-on-load (source sizes x processors x workers) and per-chunk make + merge_per_chunk_storage "
        "for every grouping of dependency chunks - is executed and TLC judges each observation against spec/StorageRT.tla "
        "(identical rows in order, contiguous valid chunks, same range, cuts only at written boundaries or row-free gaps, metadata "
        "consistent with the new files, source intact unless replacement was requested); exceptions are violations.",
   note="Histories are sampled (seeded), 3-5 operations on a 2-chunk / 6-row data type; per-chunk building + merging is covered by the "
        "operation matrix only, not by StoreOps.tla. Bit-identity of the matrix cases is decided by the harness on the loaded arrays.",
   technique="TLA+ state machine of storage operations model-checked by TLC + TLC trace validation of real operation histories (StoreOpsTrace.tla) + TLC-evaluated P-level (StorageRT.tla) on the operation matrix",
   design="4/C16"),
 "C14": dict(
   text="spec/Superrun.tla is a state machine over histories of superrun definition and use in one data directory (define_run under both "
        "name spellings, get, is_stored, new_context; stored copies keyed by the definition they were made from); TLC checks "
        "ExactConcatenation, RedefinedGone and OrderedByStart over all histories of the bound, and seeded random histories executed on real "
        "contexts are validated by TLC against it (SuperrunTrace.tla: rows delivered and subruns recorded in the chunk annotations). "
        "Superruns of 1..4 subruns (definition order != start order, differing chunk layouts incl. empty and zero-duration chunks) are "
        "requested on real run metadata with the superrun-capable level at two depths of a 3-plugin chain, combined on the fly or "
        "written (with and without rechunking across subrun borders) and re-read, on both processors; yielded chunks, stored chunks "
        "and stored chunk metadata with their subruns annotations, and is_stored after redefinition are recorded and judged by TLC "
        "against spec/SuperrunObs.tla (ordered concatenation of the subruns' rows; each chunk's annotation names known subruns in "
        "order with spans that contain its rows; the spans of every subrun tile that subrun's own range; redefinition makes stored "
        "data unavailable). The annotation algebra under split / concatenate is model-checked in spec/Chunks.tla (C07).",
   note="Chunk-level content is judged by the P-level module SuperrunObs.tla, definition histories by Superrun.tla; subruns do not overlap in time; run start times come "
        "from run metadata written by the harness.",
   technique="TLA+ state machine of superrun definition histories model-checked by TLC + TLC trace validation of real histories (SuperrunTrace.tla) + scenario matrix on real contexts judged by TLC at the P-level (SuperrunObs.tla)",
   design="4/C14"),
 "C15": dict(
   text="spec/MultiRun.tla models multi_run (at most 2*max_workers outstanding, any completion order, run-id-ordered result, "
        "ignore_errors) and the shared plugin registry with CPython dict semantics at dict-operation granularity (iterators fail when "
        "the size changed, missing keys raise); TLC explores all interleavings and checks NoCrash, RegistryRestored, ResultOK, "
        "FailureHandling, Outstanding and termination - the protocol as found reaches a crashed worker, the repaired one does not. "
        "Binding: the real get_array(list of runs, max_workers=k) runs under the deterministic scheduler with the registry and the "
        "plugin cache replaced by dicts whose operations are yield points and multi_run's executor / wait replaced by "
        "scheduler-aware ones, for seeded preemptive schedules; TLC judges each observation (MultiRunObs.tla: equal to sequential "
        "loading in run-id order, failing run raises or is omitted, never another exception, no hang). OS-scheduled stress runs with "
        "a microsecond switch interval are reported alongside.",
   note="Trusted: CPython executes single dict operations atomically; preemption only between dict operations, submissions and future "
        "waits. Schedules are sampled (seeded). The dict-operation traces are not yet validated against MultiRun.tla (observations are).",
   technique="TLA+ model checking of the shared-registry protocol + scheduler-driven exploration of the real code judged by TLC",
   design="4/C15"),
 "C01": dict(
   text="spec/DataflowP.tla defines the whole-run result of every data type of a graph built from all eight plugin kinds (row-wise, "
        "filter, same-kind merge, multi-output, loop, overlap-window, down-chunking, exhaust) and the tiling law; spec/Dataflow.tla "
        "checks the definitions and materialises the configuration space (independent chunkings of two sources, alternative "
        "chunking for pre-stored intermediate data, stored subsets, targets). For sampled configurations the real get_iter runs "
        "under sampled settings (both processors, max_workers, lazy/eager, capacities, rechunk on save, tiny target sizes; "
        "threaded runs under OS threads and under the deterministic scheduler with seeded schedules); TLC judges every yielded "
        "stream and every data type the request stored (re-read by a fresh context) against the P-level (DataflowTrace.tla): "
        "contiguous tiling of the run, rows inside their tiles, concatenated rows = whole-run result. The per-plugin alignment "
        "machinery is verified at I-level in C08 / C09 / C07, the mailboxes in C05. The single-thread processor's bus has its own "
        "specification, spec/PostOffice.tla (a transcription of _read / _fetch_new / the acknowledgements, producers wired the way "
        "SingleThreadProcessor wires plugins, loaders and savers; external readers pulling in every order; a producer failing at every "
        "position; invariants: every reader gets its topic's messages in order exactly once, every spy too and is closed exactly once, "
        "retained mail = what some reader has not received, termination): every state and edge of TLC's state graph is replayed "
        "lock-step on the real PostOffice and the office's state compared.",
   note="The configuration product is sampled (seeded), not enumerated; multiprocessing is not exercised; max_messages 4 / 10; one "
        "fixed pair of source row sets.",
   technique="TLA+ whole-run oracle (TLC) + execution of sampled configurations on the real code + TLC trace validation at P-level; "
             "PostOffice.tla model-checked and replayed lock-step (every node and edge of the TLC state graph) on the real PostOffice",
   design="4/C01"),
 "C18": dict(
   text="spec/Hits.tla defines hits (maximal runs of in-record samples at or above the per-channel threshold, with time, length, area, "
        "height, first-maximum time, record index), record links, the samples kept by cut_outside_hits (hit window inside the valid "
        "samples plus its continuation into the adjacent fragment of the same pulse, metadata untouched) and baseline / integration "
        "with exact rational arithmetic; TLC enumerates every waveform of the scope, checks the internal laws (hits disjoint, cover "
        "exactly the samples above threshold) and prints the expected results, which are compared with the real numba functions.",
   note="Records of 4 samples over amplitude alphabets of 2-4 values; float32 fields compared with tolerance 1e-4, baseline_rms through "
        "its square; quick tier samples the larger enumerations.",
   technique="TLA+ definitional oracle enumerated by TLC + replay of every case into the real functions",
   design="4/C18"),
 "C19": dict(
   text="spec/Peaks.tla defines gap-threshold clustering of hits into peaks (extensions, maximum duration, area and channel cuts), "
        "merging (one group, and several groups in one call with 3-sample buffers so that merged peaks are down-sampled), replacing merged "
        "peaks, the symmetric moving average, the area-fraction index, widths and area deciles (exact rationals), "
        "highest-density regions (smallest top level set reaching the fraction, as index runs, with its amplitude), "
        "the summed waveform of a peak over two channels with per-channel gains and its down-sampling into a fixed buffer, and a "
        "transcription of local-minimum splitting; TLC enumerates every input of the scope, checks the conservation laws (area and hit "
        "count conserved, peaks ordered and disjoint, replacing keeps the other peaks untouched and ordered, summed waveform = area = "
        "sum of per-channel areas, the cuts of a split tile the parent) and prints the expected results, which are compared with "
        "the real numba functions (find_peaks, merge_peaks, replace_merged, symmetric_moving_average, index_of_fraction, compute_widths, highest_density_region, "
        "sum_waveform / store_downsampled_waveform, LocalMinimumSplitter via PeakSplitter._split_peaks). Natural-breaks splits (float "
        "goodness-of-split) are executed on every waveform of the scope and TLC judges the recorded children at the P-level (TilesParent).",
   note="Trusted: TLC, JSON transport, float comparison with tolerance. Known finding: down-sampling drops the trailing length mod factor "
        "samples while the area keeps them. Not covered: the value of natural_breaks_gof, highest_density_region with only_upper_part=True. Bounded: <=3 hits, "
        "<=4 peaks, waveforms of <=7 samples over {0..3}, records of <=5 samples over {0..2}.",
   technique="TLA+ definitional oracle + transcription enumerated by TLC, replay of every case into the real functions; TLC-evaluated P-level on observed splits",
   design="4/C19"),
}
NOT_BUILT = "decision procedure (TLA+ module + binding) not built yet in this session; see DESIGN.md section 4 for the plan"

checks = []
for p in props:
    if p in CLAIMED:
        c = CLAIMED[p]
        checks.append(dict(property_id=p, quick_cmd=f"bin/check {p} --tier quick", thorough_cmd=f"bin/check {p} --tier thorough",
                           evidence_file=f"/verif/evidence/{p}.json", replay_cmd_template=f"bin/check {p} --replay {{path}}",
                           engine="tlc+harness",
                           level_claimed=dict(category="model_checking", text=c["text"], design_ref=c["design"]),
                           level_note=c["note"], technique=c["technique"]))
man = dict(version=1,
           setup_cmd="bin/setup",
           hooks=dict(guard="STRAX_VERIF", enable="environment variable STRAX_VERIF=1 (no rebuild needed; pure Python); "
                      "no hook is currently required: the harness interposes by replacing module attributes in its own process",
                      baseline_off_cmd="cd /repo && /venv/bin/python -m pytest -ra -q -p no:cacheprovider --timeout=900 --continue-on-collection-errors",
                      source_commits=[], add_only=True),
           engines=[dict(name="tlc+harness", path="/verif/bin/check", serves_properties=sorted(CLAIMED),
                         kind_free_text="TLA+ specifications under /verif/spec checked with TLC; bound to /repo by lock-step replay, "
                                        "trace validation and enumerated-case replay drivers under /verif/harness")],
           checks=checks,
           notes="All checks import strax from /repo's working tree. Exit 0 = held, 1 = VIOLATION line, 2 = machinery failure.",
           not_applicable=[dict(property_id=p, reason=NOT_BUILT) for p in props if p not in CLAIMED])
json.dump(man, open(os.path.join(ROOT, "MANIFEST.json"), "w"), indent=1)
print("claimed:", sorted(CLAIMED))
