#!/bin/sh
# usage: tools/recheck_flaky.sh <worktree (patch applied)> <verify.json>
# Re-runs, alone, each stable test that did not pass in the full-suite run of verify_seed.sh (load flakes) and updates the json.
WT=$1; J=$2
cd "$WT" || exit 2
/venv/bin/python - "$WT" "$J" <<'P'
import json, subprocess, sys
wt, j = sys.argv[1], sys.argv[2]
v = json.load(open(j))
still = []
notes = []
for t in v["stable_tests_not_passing_with_change"]:
    mod, _, name = t.partition("::")
    parts = mod.split(".")
    # tests.test_x.Class::name or tests.test_x::name
    if parts[-1][0].isupper():
        path = "/".join(parts[:-1]) + ".py::" + parts[-1] + "::" + name
    else:
        path = "/".join(parts) + ".py::" + name
    ok = False
    for k in range(2):
        p = subprocess.run(["/venv/bin/python", "-m", "pytest", "-q", "-p", "no:cacheprovider", path], cwd=wt, env=dict(__import__("os").environ, PYTHONPATH=wt),
                           capture_output=True, text=True, timeout=1800)
        if p.returncode == 0:
            ok = True
            break
    if ok:
        notes.append(f"{t} did not pass in the full run under heavy machine load and passed when re-run alone on the patched tree")
    else:
        still.append(t)
v["stable_tests_not_passing_with_change"] = still
if notes:
    v["note"] = "; ".join(notes)
json.dump(v, open(j, "w"), indent=1)
print(json.dumps(v))
P
