#!/usr/bin/env python3
"""usage: tools/keep_seed.py <name> <worktree> <verify.json> <check log> [<check id> ...]
Stores a confirmed seeded change as /verif/seeded/<name>/{patch.diff, demo.py, meta.json}."""
import json, os, re, shutil, sys
name, wt, verify, log = sys.argv[1:5]
checks = sys.argv[5:]
d = f"/verif/seeded/{name}"
os.makedirs(d, exist_ok=True)
shutil.copy(f"{wt}/seed_out/patch.diff", f"{d}/patch.diff")
shutil.copy(f"{wt}/seed_out/demo.py", f"{d}/demo.py")
am = json.load(open(f"{wt}/seed_out/meta.json"))
v = json.load(open(verify))
out = open(log).read()
summ = [l for l in out.splitlines() if l.startswith("[C")]
sigs = [l.strip()[len("signature: "):] for l in out.splitlines() if l.strip().startswith("signature:")]
meta = dict(
    property=am.get("property", name[:3]),
    summary=am.get("summary"),
    needs_to_manifest=am.get("needs"),
    files=am.get("files"),
    confirmed=dict(
        how="tools/verify_seed.sh in a scratch worktree of /repo: patch applies to the clean tree; demo.py run without and with the patch; "
            "the repository suite (baseline command) run with the patch and compared with BASELINE stable_pass",
        demo_exit_without_change=v["demo_exit_without_change"], demo_exit_with_change=v["demo_exit_with_change"],
        stable_pass_tests=v["stable_pass"], stable_tests_not_passing_with_change=v["stable_tests_not_passing_with_change"]),
    detection=dict(
        ran=[f"VERIF_REPO=<worktree with the patch> bin/check {c} --tier quick" for c in checks],
        detected=bool(re.search(r"^VIOLATION property=", out, re.M)),
        summary_lines=summ, first_signatures=sigs[:3]),
)
json.dump(meta, open(f"{d}/meta.json", "w"), indent=1)
print(json.dumps(meta["detection"], indent=1)[:1500])
