#!/bin/sh
# Run the repository's baseline suite (guard off) and report stable_pass tests that did not pass.
OUT=${1:-/tmp/verif_baseline.xml}
cd /repo && env -u STRAX_VERIF /venv/bin/python -m pytest -ra -q -p no:cacheprovider --timeout=900 --continue-on-collection-errors --junitxml=$OUT > ${OUT%.xml}.log 2>&1
/venv/bin/python - "$OUT" <<'P'
import sys, json, xml.etree.ElementTree as ET
b = json.load(open('/root/.vp/BASELINE.json'))
root = ET.parse(sys.argv[1]).getroot()
passed = set()
for tc in root.iter('testcase'):
    name = tc.get('classname') + '::' + tc.get('name')
    if not any(ch.tag in ('failure', 'error', 'skipped') for ch in tc):
        passed.add(name)
missing = [t for t in b['stable_pass'] if t not in passed]
print('stable_pass:', len(b['stable_pass']), 'passed now:', len(passed), 'stable tests not passing:', len(missing))
for m in missing: print('  NOT PASSING', m)
P
