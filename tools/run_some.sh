#!/bin/sh
# usage: tools/run_some.sh <tier> <ID>...   (like run_all.sh for a subset)
TIER=$1; shift
cd "$(dirname "$0")/.." || exit 2
for id in "$@"; do
  t0=$(date +%s)
  out=$(bin/check $id --tier $TIER 2>&1); rc=$?
  t1=$(date +%s)
  echo "$id rc=$rc $((t1-t0))s $(echo "$out" | grep -c '^VIOLATION') violations $(echo "$out" | grep -c '^KNOWN-FINDING') known :: $(echo "$out" | grep "^\[$id\]" | tail -1)"
  echo "$out" | grep '^VIOLATION\|^MACHINERY\|signature' | head -10
done
