#!/bin/sh
# usage: tools/verify_seed.sh <worktree> <patch.diff> <demo.py> <out.json>
# Confirms a seeded change in a scratch worktree of /repo: the patch applies to a clean tree, the demonstration
# fails with it and passes without it, and every stable_pass test of the baseline still passes with it.
WT=$1; PATCH=$2; DEMO=$3; OUT=$4
cd "$WT" || exit 2
git checkout -q -- . 2>/dev/null
git apply --check "$PATCH" || { echo "patch does not apply"; exit 2; }
PYTHONPATH=$WT PYTHONHASHSEED=0 timeout 900 /venv/bin/python -W ignore "$DEMO" > /tmp/seed_demo_without.log 2>&1; WITHOUT=$?
git apply "$PATCH"
PYTHONPATH=$WT PYTHONHASHSEED=0 timeout 900 /venv/bin/python -W ignore "$DEMO" > /tmp/seed_demo_with.log 2>&1; WITH=$?
X=/tmp/seed_suite_$$.xml
env -u STRAX_VERIF PYTHONPATH=$WT /venv/bin/python -m pytest -ra -q -p no:cacheprovider --timeout=900 --continue-on-collection-errors --junitxml=$X > ${X%.xml}.log 2>&1
/venv/bin/python - "$X" "$WITHOUT" "$WITH" "$OUT" <<'P'
import sys, json, xml.etree.ElementTree as ET
b = json.load(open('/root/.vp/BASELINE.json'))
root = ET.parse(sys.argv[1]).getroot()
passed = set()
for tc in root.iter('testcase'):
    name = tc.get('classname') + '::' + tc.get('name')
    if not any(ch.tag in ('failure', 'error', 'skipped') for ch in tc):
        passed.add(name)
missing = [t for t in b['stable_pass'] if t not in passed]
r = dict(demo_exit_without_change=int(sys.argv[2]), demo_exit_with_change=int(sys.argv[3]), stable_pass=len(b['stable_pass']),
         stable_tests_not_passing_with_change=missing)
json.dump(r, open(sys.argv[4], 'w'), indent=1)
print(json.dumps(r))
P
rm -f $X
