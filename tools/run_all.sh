#!/bin/sh
# run every check of a tier sequentially, print one line per check
TIER=${1:-quick}
cd "$(dirname "$0")/.."
for id in C01 C02 C03 C04 C05 C06 C07 C08 C09 C10 C11 C12 C13 C14 C15 C16 C17 C18 C19; do
  s=$(date +%s)
  bin/check $id --tier $TIER > /tmp/verif_run_$id.log 2>&1
  rc=$?
  e=$(date +%s)
  echo "$id rc=$rc $((e-s))s $(grep -c '^VIOLATION' /tmp/verif_run_$id.log) violations $(grep -c '^KNOWN-FINDING' /tmp/verif_run_$id.log) known :: $(tail -1 /tmp/verif_run_$id.log | cut -c1-150)"
done
