-------------------------------- MODULE Hits --------------------------------
(* Hit finding, record linking, data reduction, baselining and integration (property C18):
   strax/processing/pulse_processing.py (find_hits, record_links, baseline, integrate) and
   strax/processing/data_reduction.py (cut_outside_hits).  Set-theoretic definitions over small
   integer waveforms; TLC enumerates every input of the scope, checks the internal laws and prints
   {input, expected} for the conformance harness (which calls the real numba functions).

   A record is [ch, t, len, ri, data]: channel, start time, number of valid samples, fragment index
   within its pulse, S samples.  dt = 1.  Indices are 0-based as in the code; "none" is -1.        *)
EXTENDS Integers, Sequences, FiniteSets, TLC, Json

CONSTANTS S,        \* samples per record
          Alphabet, \* sample amplitudes
          Kind

Max(T) == CHOOSE x \in T : \A y \in T : x >= y
Min(T) == CHOOSE x \in T : \A y \in T : x <= y
RECURSIVE SumSeq(_)
SumSeq(s) == IF s = <<>> THEN 0 ELSE Head(s) + SumSeq(Tail(s))
Waves == [1..S -> Alphabet]

(* ------------------------------- hit finding ------------------------------- *)
\* maximal runs of consecutive in-record samples at or above the threshold (sample positions are 0-based)
Above(r, thr) == {k \in 0..(r.len - 1) : r.data[k + 1] >= thr}
IsHit(r, thr, a, b) == /\ a < b /\ \A k \in a..(b - 1) : k \in Above(r, thr)
                       /\ (a - 1) \notin Above(r, thr) /\ b \notin Above(r, thr)
HitsOf(r, i, thr) ==
  LET H == {<<a, b>> \in (0..r.len) \X (0..r.len) : IsHit(r, thr, a, b)}
      RECURSIVE ord(_)
      ord(T) == IF T = {} THEN <<>> ELSE LET m == CHOOSE x \in T : \A y \in T : x[1] <= y[1] IN <<m>> \o ord(T \ {m})
      mk(h) == LET a == h[1] b == h[2]
                   vals == [k \in 1..(b - a) |-> r.data[a + k]]
                   hgt == Max({vals[k] : k \in 1..(b - a)})
               IN [left |-> a, right |-> b, time |-> r.t + a, length |-> b - a, area |-> SumSeq(vals), height |-> hgt,
                   maxt |-> r.t + a + Min({k \in 1..(b - a) : vals[k] = hgt}) - 1, ch |-> r.ch, ri |-> i - 1, thr |-> thr]
  IN [k \in 1..Len(ord(H)) |-> mk(ord(H)[k])]
\* thr(ch, rms): max(min_amplitude[ch], rms * min_height_over_noise[ch])
AllHits(recs, thr) == LET RECURSIVE F(_)
                          F(i) == IF i > Len(recs) THEN <<>> ELSE HitsOf(recs[i], i, thr) \o F(i + 1)
                      IN F(1)
\* laws: hits are disjoint, inside the record, cover exactly the samples above threshold
HitLaws(r, thr) == LET hs == HitsOf(r, 1, thr) IN
  /\ \A k \in 1..Len(hs) : 0 <= hs[k].left /\ hs[k].right <= r.len /\ hs[k].length > 0 /\ hs[k].area >= hs[k].length * thr
  /\ \A k \in 1..(Len(hs) - 1) : hs[k].right < hs[k + 1].left
  /\ UNION {hs[k].left..(hs[k].right - 1) : k \in 1..Len(hs)} = Above(r, thr)

(* ------------------------------- record links ------------------------------- *)
\* previous fragment of the same pulse: the latest earlier record of the same channel, provided this is not a
\* first fragment and it starts exactly where that record ends
PrevDef(recs, i) == LET E == {j \in 1..(i - 1) : recs[j].ch = recs[i].ch} IN
                    IF E = {} \/ recs[i].ri = 0 THEN -1
                    ELSE LET j == Max(E) IN IF recs[i].t = recs[j].t + S THEN j - 1 ELSE -1
NextDef(recs, j) == LET F == {i \in (j + 1)..Len(recs) : PrevDef(recs, i) = j - 1} IN IF F = {} THEN -1 ELSE Max(F) - 1

(* ------------------------------- cut outside hits ------------------------------- *)
\* sample k of record i is kept iff it lies within [left - L, right + R) of a hit of record i (inside the valid samples),
\* or within the part of such a window that continues into the adjacent fragment of the same pulse
Kept(recs, hits, L, R, i, k) ==
  \/ \E h \in 1..Len(hits) : hits[h].ri = i - 1 /\ k < recs[i].len /\ hits[h].left - L <= k /\ k < hits[h].right + R
  \/ \E h \in 1..Len(hits) : LET j == hits[h].ri + 1 IN
        /\ PrevDef(recs, j) = i - 1 /\ hits[h].left - L < 0 /\ k >= S + (hits[h].left - L)
  \/ \E h \in 1..Len(hits) : LET j == hits[h].ri + 1 IN
        /\ NextDef(recs, j) = i - 1 /\ hits[h].right + R > S /\ k < hits[h].right + R - S
CutDef(recs, hits, L, R) == [i \in 1..Len(recs) |-> [k \in 1..S |-> IF Kept(recs, hits, L, R, i, k - 1) THEN recs[i].data[k] ELSE 0]]

(* ------------------------------- baseline and integration ------------------------------- *)
\* baseline = mean of the first NB samples of the pulse's first fragment (exact rational num / NB);
\* the stored waveform is int(baseline) - raw (flipped) on the valid samples;
\* area = sum of the stored waveform + round(frac(baseline) * length), round half to even
NB == 2
BaselineNum(w) == w[1] + w[2]
BaselineInt(w) == BaselineNum(w) \div NB
Flipped(r, bi) == [k \in 1..S |-> IF k <= r.len THEN bi - r.data[k] ELSE r.data[k]]
RoundHalfEven(p, q) == LET fl == p \div q rem == p % q IN      \* p / q >= 0
                       IF 2 * rem < q THEN fl ELSE IF 2 * rem > q THEN fl + 1 ELSE IF fl % 2 = 0 THEN fl ELSE fl + 1

(* ------------------------------- case enumeration ------------------------------- *)
Rec(ch, t, len, ri, w) == [ch |-> ch, t |-> t, len |-> len, ri |-> ri, data |-> w]
VARIABLE c
Init ==
  \/ Kind = "hits1" /\ c \in {<<Rec(0, 5, len, 0, w)>> : len \in {S, S - 1}, w \in Waves}
  \/ Kind = "hits2" /\ c \in {<<Rec(0, 0, S, 0, w1), Rec(1, 2, S, 0, w2)>> : w1 \in Waves, w2 \in Waves}
  \/ Kind = "links" /\ c \in {<<Rec(c1, 0, S, 0, [k \in 1..S |-> 1]), Rec(c2, t2, S, r2, [k \in 1..S |-> 1]), Rec(c3, t3, S, r3, [k \in 1..S |-> 1])>> :
                                c1 \in 0..1, c2 \in 0..1, c3 \in 0..1, t2 \in {0, S, S + 1}, t3 \in {S, 2 * S, 2 * S + 1}, r2 \in 0..1, r3 \in 0..2}
  \/ Kind = "cut2" /\ c \in {<<Rec(0, 0, S, 0, w1), Rec(0, S, len, 1, w2)>> : w1 \in Waves, w2 \in Waves, len \in {S, S - 1}}
  \/ Kind = "cut3" /\ c \in {<<Rec(0, 0, S, 0, w1), Rec(1, 1, S, 0, w2), Rec(0, S, S, 1, w3)>> : w1 \in Waves, w2 \in Waves, w3 \in Waves}
  \/ Kind = "baseline" /\ c \in {<<Rec(0, 0, S, 0, w1), Rec(0, S, len, 1, w2)>> : w1 \in Waves, w2 \in Waves, len \in {S, S - 2}}
Spec == Init /\ [][UNCHANGED c]_c

Laws == CASE Kind = "hits1" -> \A t \in 1..3 : HitLaws(c[1], t)
          [] OTHER -> TRUE
ExtSeq == << <<0, 0>>, <<1, 0>>, <<0, 1>>, <<1, 2>>, <<2, 1>>, <<S, S>>, <<0, S>>, <<S, 0>>, <<3, 3>> >>
Out ==
  CASE Kind = "hits1" -> [recs |-> c, hits |-> [t \in 1..3 |-> HitsOf(c[1], 1, t)]]
    [] Kind = "hits2" -> [recs |-> c,
                           \* per-channel thresholds (2, 1); noise-scaled: rms 1 for both records, height over noise (1, 3)
                           perch |-> HitsOf(c[1], 1, 2) \o HitsOf(c[2], 2, 1),
                           noise |-> HitsOf(c[1], 1, 1) \o HitsOf(c[2], 2, 3)]
    [] Kind = "links" -> [recs |-> c, prev |-> [i \in 1..3 |-> PrevDef(c, i)], next |-> [i \in 1..3 |-> NextDef(c, i)]]
    [] Kind \in {"cut2", "cut3"} ->
          LET hits == AllHits(c, 2) IN
          [recs |-> c, hits |-> hits, cut |-> [n \in 1..Len(ExtSeq) |-> CutDef(c, hits, ExtSeq[n][1], ExtSeq[n][2])], exts |-> ExtSeq]
    [] Kind = "baseline" ->
          \* both fragments use the baseline of the pulse's first fragment; samples beyond `len` are left alone by baseline()
          LET w == c[1].data bi == BaselineInt(w)
              f1 == Flipped(c[1], bi) f2 == Flipped(c[2], bi)
              z2 == [k \in 1..S |-> IF k <= c[2].len THEN f2[k] ELSE 0]      \* after zero_out_of_bounds
          IN [recs |-> c, num |-> BaselineNum(w), den |-> NB, bint |-> bi, data |-> <<f1, f2>>,
              area |-> << SumSeq(f1) + RoundHalfEven((BaselineNum(w) % NB) * c[1].len, NB),
                          SumSeq(z2) + RoundHalfEven((BaselineNum(w) % NB) * c[2].len, NB) >>]
Emit == PrintT(ToJson(Out))
=============================================================================
