------------------------------ MODULE MultiRun ------------------------------
(* Loading many runs in parallel (property C15): strax.utils.multi_run - 2*max_workers tasks submitted at the start;
   then, repeatedly: wait for the first completion, take the batch of futures that are done, look at each of them
   (a failed one raises, or is skipped when errors are ignored), and submit as many new tasks as the batch was large;
   stop when nothing is in flight - results put in run-id order - and the use of
   ONE context - its plugin class registry, a plain dict - by all worker threads.

   With several same-kind targets every get_iter call registers a temporary MergeOnly plugin under
   a name derived from the targets (the same name in every worker) and removes it afterwards
   (strax/context.py get_iter).  The registry is modelled with CPython's semantics: each dict
   operation is atomic; an iterator raises RuntimeError at its next step if the dict changed size
   since it was created; looking up or deleting a missing key raises KeyError.
   I-level: one action per dict operation, in the order the code performs them.

   Repaired = TRUE: the temporary plugin lives in a private copy of the context (the "fix:" commit);
   FALSE: as found, all workers mutate the shared registry.                                        *)
EXTENDS Naturals, Sequences, FiniteSets, TLC

CONSTANTS Runs,        \* sequence of run ids (numbers) in the order the caller gave them
          MaxWorkers,
          Multi,       \* several same-kind targets (temporary plugin needed)
          Fails,       \* set of runs whose processing raises
          IgnoreErrors,
          Repaired,
          RefillOnSuccessOnly   \* FALSE: as the code does (one new task per finished future, failed or not).  TRUE: a variant that
                                \* refills only for successful futures - after 2*max_workers ignored failures nothing is in flight and
                                \* the remaining runs are dropped; kept to show that ResultOK notices.

Sorted == LET S == {Runs[i] : i \in 1..Len(Runs)}
              RECURSIVE ord(_)
              ord(T) == IF T = {} THEN <<>> ELSE LET m == CHOOSE x \in T : \A y \in T : x <= y IN <<m>> \o ord(T \ {m})
          IN ord(S)
N == Len(Sorted)

VARIABLES size, hasTemp,            \* the shared registry: number of keys, temporary key present
          next, running, doneOrder, \* multi_run: next task index, runs in flight, completion order of successful runs
          batch, nrefill,           \* the futures_done batch being processed; tasks to submit after it
          wpc, iterSize, sawTemp, outcome,   \* per run: program counter, size when the open iterator was created, snapshot, result
          raised, returned
vars == <<size, hasTemp, next, running, doneOrder, batch, nrefill, wpc, iterSize, sawTemp, outcome, raised, returned>>

RunSet == {Sorted[i] : i \in 1..N}
StartPc(r) == IF r \in Fails THEN "fail" ELSE IF Multi /\ ~Repaired THEN "it1" ELSE "compute"
Min2(a, b) == IF a < b THEN a ELSE b
NFirst == Min2(2 * MaxWorkers, N)
Init == /\ size = 3 /\ hasTemp = FALSE /\ next = NFirst + 1 /\ running = {Sorted[i] : i \in 1..NFirst} /\ doneOrder = <<>>
        /\ batch = {} /\ nrefill = 0
        /\ wpc = [r \in RunSet |-> IF r \in {Sorted[i] : i \in 1..NFirst} THEN StartPc(r) ELSE "idle"]
        /\ iterSize = [r \in RunSet |-> 0] /\ sawTemp = [r \in RunSet |-> FALSE]
        /\ outcome = [r \in RunSet |-> "none"] /\ raised = FALSE /\ returned = FALSE

(* ------------------------------- multi_run ------------------------------- *)
Finished(r) == outcome[r] \in {"ok", "crash", "failed"}
\* futures_done, _ = wait(futures, return_when=FIRST_COMPLETED): everything that is done by now
Wait == /\ ~raised /\ ~returned /\ batch = {} /\ nrefill = 0 /\ \E r \in running : Finished(r)
        /\ batch' = {r \in running : Finished(r)}
        /\ UNCHANGED <<size, hasTemp, next, running, doneOrder, nrefill, wpc, iterSize, sawTemp, outcome, raised, returned>>
\* for f in futures_done: pop it, look at its exception / result
Collect(r) == /\ r \in batch /\ ~raised /\ ~returned
              /\ running' = running \ {r} /\ batch' = batch \ {r}
              /\ IF outcome[r] = "ok" THEN doneOrder' = Append(doneOrder, r) /\ raised' = raised
                 ELSE IF IgnoreErrors THEN UNCHANGED <<doneOrder, raised>>
                 ELSE raised' = TRUE /\ UNCHANGED doneOrder
              /\ nrefill' = IF RefillOnSuccessOnly /\ outcome[r] # "ok" THEN nrefill ELSE nrefill + 1
              /\ UNCHANGED <<size, hasTemp, next, wpc, iterSize, sawTemp, outcome, returned>>
\* for r in islice(run_ids, task_index, task_index + len(futures_done)): submit
Submit == /\ ~raised /\ ~returned /\ batch = {} /\ nrefill > 0
          /\ IF next <= N THEN LET r == Sorted[next] IN
                /\ running' = running \cup {r} /\ next' = next + 1 /\ nrefill' = nrefill - 1
                /\ wpc' = [wpc EXCEPT ![r] = StartPc(r)]
             ELSE nrefill' = 0 /\ UNCHANGED <<running, next, wpc>>
          /\ UNCHANGED <<size, hasTemp, doneOrder, batch, iterSize, sawTemp, outcome, raised, returned>>
\* while futures: ... ends when nothing is in flight
Return == /\ ~raised /\ ~returned /\ batch = {} /\ nrefill = 0 /\ running = {} /\ returned' = TRUE
          /\ UNCHANGED <<size, hasTemp, next, running, doneOrder, batch, nrefill, wpc, iterSize, sawTemp, outcome, raised>>
\* what the caller gets: the successful runs in run-id order
Result == LET ok == {doneOrder[i] : i \in 1..Len(doneOrder)} IN SelectSeq(Sorted, LAMBDA r : r \in ok)

(* ------------------------------- one worker: dict operations of get_iter ------------------------------- *)
Crash(r) == wpc' = [wpc EXCEPT ![r] = "end"] /\ outcome' = [outcome EXCEPT ![r] = "crash"]
Goto(r, pc) == wpc' = [wpc EXCEPT ![r] = pc] /\ outcome' = outcome
IterStart(r, from, to) == /\ wpc[r] = from /\ iterSize' = [iterSize EXCEPT ![r] = size] /\ Goto(r, to)
                          /\ UNCHANGED <<size, hasTemp, sawTemp>>
IterNext(r, from, to) == /\ wpc[r] = from /\ (IF iterSize[r] # size THEN Crash(r) ELSE Goto(r, to))
                         /\ UNCHANGED <<size, hasTemp, iterSize, sawTemp>>
Worker(r) ==
  /\ r \in running
  /\ \/ IterStart(r, "it1", "it1n") \/ IterNext(r, "it1n", "it1m") \/ IterNext(r, "it1m", "set")      \* _get_plugins: all_opts over registry.values()
     \/ /\ wpc[r] = "set"                                                                                   \* register(temp): registry[temp] = cls
        /\ size' = (IF hasTemp THEN size ELSE size + 1) /\ hasTemp' = TRUE /\ Goto(r, "it2")
        /\ UNCHANGED <<iterSize, sawTemp>>
     \/ IterStart(r, "it2", "it2n") \/ IterNext(r, "it2n", "it2m") \/ IterNext(r, "it2m", "look")        \* register: loop over registry.values()
     \/ /\ wpc[r] = "look"                                                                                  \* __get_plugin: registry[temp]()
        /\ (IF hasTemp THEN Goto(r, "it3") ELSE Crash(r)) /\ UNCHANGED <<size, hasTemp, iterSize, sawTemp>>
     \/ IterStart(r, "it3", "it3n") \/ IterNext(r, "it3n", "it3m") \/ IterNext(r, "it3m", "keys")         \* _context_hash: registry.items()
     \/ /\ wpc[r] = "keys" /\ sawTemp' = [sawTemp EXCEPT ![r] = hasTemp] /\ Goto(r, "del")                 \* list(registry.keys())
        /\ UNCHANGED <<size, hasTemp, iterSize>>
     \/ /\ wpc[r] = "del"                                                                                   \* del registry[temp]
        /\ IF ~sawTemp[r] THEN Goto(r, "compute") /\ UNCHANGED <<size, hasTemp>>
           ELSE IF hasTemp THEN size' = size - 1 /\ hasTemp' = FALSE /\ Goto(r, "compute")
           ELSE Crash(r) /\ UNCHANGED <<size, hasTemp>>
        /\ UNCHANGED <<iterSize, sawTemp>>
     \/ /\ wpc[r] = "compute" /\ wpc' = [wpc EXCEPT ![r] = "end"] /\ outcome' = [outcome EXCEPT ![r] = "ok"]
        /\ UNCHANGED <<size, hasTemp, iterSize, sawTemp>>
     \/ /\ wpc[r] = "fail" /\ wpc' = [wpc EXCEPT ![r] = "end"] /\ outcome' = [outcome EXCEPT ![r] = "failed"]
        /\ UNCHANGED <<size, hasTemp, iterSize, sawTemp>>
  /\ UNCHANGED <<next, running, doneOrder, batch, nrefill, raised, returned>>

Next == Wait \/ Submit \/ Return \/ (\E r \in RunSet : Collect(r) \/ Worker(r))
Spec == Init /\ [][Next]_vars /\ WF_vars(Next)

(* ---------------------------------- P-level (C15) ---------------------------------- *)
NoCrash == \A r \in RunSet : outcome[r] # "crash"
RegistryRestored == returned => (~hasTemp /\ size = 3)
\* equal to loading the runs one by one: all non-failing runs, in run-id order
ResultOK == returned => Result = SelectSeq(Sorted, LAMBDA r : r \notin Fails)
FailureHandling == /\ (Fails # {} /\ ~IgnoreErrors) => ~returned
                   /\ raised => (Fails # {} /\ ~IgnoreErrors) \/ ~NoCrash
Outstanding == Cardinality(running) <= 2 * MaxWorkers
Finishes == <>(returned \/ raised)
=============================================================================
