---------------------------- MODULE PluginIterP ----------------------------
(* P-level of property C08, as predicates over a history of compute calls `cs` (one record
   [d |-> chunk handed for dependency d] per call) and an outcome, so that they judge both the
   I-level model (PluginIter.tla) and recorded real runs (PluginIterTrace.tla).              *)
EXTENDS Chunks

CONSTANTS ND,         \* dependencies are 1..ND, in depends_on order
          KindOf,     \* KindOf[d]: data kind of dependency d (same-kind deps are row-aligned)
          RowsOfKind, \* RowsOfKind[k]: rows <<t, e>> (t < e) of kind k, sorted by t
          RunEnd,     \* RunEnd[d]: where the data of dependency d ends
          Strict      \* plugin is saved by default (save_when > EXPLICIT)

Deps == 1..ND
RowsOf(d) == RowsOfKind[KindOf[d]]

\* the predicates are written over a call history `cs` so that they can also judge recorded real runs
AlignedP(cs) == \A i \in 1..Len(cs) : \A d1, d2 \in Deps : cs[i][d1].s = cs[i][d2].s /\ cs[i][d1].e = cs[i][d2].e
AdjacentP(cs) == \A i \in 1..(Len(cs) - 1) : \A d \in Deps : cs[i][d].e = cs[i + 1][d].s
SameKindAlignedP(cs) == \A i \in 1..Len(cs) : \A d1, d2 \in Deps : KindOf[d1] = KindOf[d2] => cs[i][d1].rows = cs[i][d2].rows
RowsInsideP(cs) == \A i \in 1..Len(cs) : \A d \in Deps : RowsInside(cs[i][d])
Handed(cs, d) == FlatSeq([i \in 1..Len(cs) |-> cs[i][d].rows])
PrefixP(cs) == \A d \in Deps : LET f == Handed(cs, d) IN Len(f) <= Len(RowsOf(d)) /\ f = SubSeq(RowsOf(d), 1, Len(f))
AllHandedP(cs) == \A d \in Deps : Handed(cs, d) = RowsOf(d)
SameEnds == \A d1, d2 \in Deps : RunEnd[d1] = RunEnd[d2]
\* outcome in {"running", "done", "error"}
OutcomeP(cs, outcome) ==
  /\ (SameEnds /\ outcome # "running") => (outcome = "done" /\ AllHandedP(cs))   \* nothing to complain about: no error, all rows
  /\ (Strict /\ outcome = "done") => AllHandedP(cs)                                \* never a silent drop
PLevel(cs, outcome) == AlignedP(cs) /\ AdjacentP(cs) /\ SameKindAlignedP(cs) /\ RowsInsideP(cs) /\ PrefixP(cs)
                       /\ OutcomeP(cs, outcome)

=============================================================================
