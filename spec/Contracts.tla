------------------------------ MODULE Contracts ------------------------------
(* Which checks stand between a plugin's output and the user / the storage (property C12).

   A tuple (plugin kind, violation kind) is pushed through the chain of checks that the code
   applies on that path (strax/plugins/plugin.py:_fix_output, _check_dtype, Plugin.chunk ->
   strax/chunk.py:Chunk.__init__, plugins/down_chunking_plugin.py:_fix_output,
   context.py: continuity_check on the target).  I-level: one action per check.
   P-level: a violating output reaches "rejected", never "delivered" (handed to the user as a
   normal result / left in storage as valid data).

   Repaired = TRUE is the code after the "fix:" commits (Chunk.__init__ compares the dtype of the
   data it is given; DownChunkingPlugin checks the data_type label); Repaired = FALSE as found. *)
EXTENDS Naturals, Sequences, FiniteSets, TLC, Json

CONSTANT Repaired

Kinds == {"source", "ordinary", "multi", "down", "loop", "cut", "overlap"}
\* rows_late: the last row ends after the chunk; rows_late_inner: an earlier row does (rows are sorted by start, not by end:
\* Chunk.__init__ looks at the ends of the last 500 rows)
\* sibling_label: a multi-output plugin returns, for one output, a chunk labelled as its other output
\* wrong_types_bare: a bare array with the declared field names and the declared item size, but another type in a field (float64 where
\* int64 was declared): a different dtype all the same
Viols == {"wrong_dtype_bare", "wrong_types_bare", "wrong_dtype_chunk", "rows_early", "rows_late", "rows_late_inner", "wrong_label", "sibling_label", "overlap", "gap", "non_dict"}
Outside == {"rows_early", "rows_late", "rows_late_inner"}
Positions == {"first", "middle", "last"}
Procs == {"single_thread", "threaded_mailbox"}

\* violation kinds applicable to the plugin kind
Applicable(k, v) ==
  CASE v \in {"non_dict", "sibling_label"} -> k = "multi"
    [] v \in {"overlap", "gap"} -> k \in {"source", "down"}       \* only these choose their own chunk boundaries
    [] v \in {"wrong_dtype_bare", "wrong_types_bare"} -> k # "down"                        \* a down-chunking plugin can only yield chunks
    [] OTHER -> TRUE

\* how the violating output travels: as a bare array (wrapped by _fix_output) or wrapped in a Chunk by the plugin
Wrapped(k, v) == v \in {"wrong_dtype_chunk", "wrong_label", "sibling_label"} \/ k \in {"source", "down"}

VARIABLES kind, viol, pos, proc, pc, by
vars == <<kind, viol, pos, proc, pc, by>>

(* ---------------- enumeration of the tuples for the conformance harness ---------------- *)
Init == /\ kind \in Kinds /\ viol \in Viols /\ Applicable(kind, viol)
        /\ pos \in Positions /\ proc \in Procs /\ pc = "produced" /\ by = ""
Spec == Init /\ [][UNCHANGED vars]_vars
Emit == PrintT(ToJson([kind |-> kind, viol |-> viol, pos |-> pos, proc |-> proc]))

(* ---------------- the chain of checks ---------------- *)
Reject(check) == pc' = "rejected" /\ by' = check
Pass(next) == pc' = next /\ by' = by

\* the plugin constructs a Chunk itself (sources, down-chunking plugins, plugins returning chunks):
\* Chunk.__init__ runs in the plugin's compute
UserChunkInit ==
  /\ pc = "produced" /\ Wrapped(kind, viol)
  /\ IF viol \in Outside THEN Reject("Chunk.__init__: data outside chunk")
     ELSE IF viol = "wrong_dtype_chunk" /\ Repaired THEN Reject("Chunk.__init__: dtype")
     ELSE IF viol \in {"wrong_dtype_bare", "wrong_types_bare"} THEN Pass("fixout")      \* a source returning a bare array
     ELSE Pass("fixout")
BareToFixOutput == pc = "produced" /\ ~Wrapped(kind, viol) /\ Pass("fixout")

FixOutput ==
  /\ pc = "fixout"
  /\ IF kind = "down" THEN      \* DownChunkingPlugin._fix_output: only "is it a Chunk"
        IF viol = "wrong_label" /\ Repaired THEN Reject("DownChunkingPlugin._fix_output: data_type") ELSE Pass("continuity")
     ELSE IF viol = "non_dict" THEN Reject("_fix_output: multi-output must give a dict")
     ELSE IF kind = "source" /\ viol \in {"wrong_dtype_bare", "wrong_types_bare"} THEN Reject("_fix_output: plugins without dependencies must return chunks")
     ELSE IF ~Wrapped(kind, viol) THEN     \* bare array: _check_dtype, then Plugin.chunk -> Chunk.__init__
        IF viol \in {"wrong_dtype_bare", "wrong_types_bare"} THEN Reject("_check_dtype")
        ELSE IF viol \in Outside THEN Reject("Chunk.__init__: data outside chunk")
        ELSE Pass("continuity")
     ELSE IF viol \in {"wrong_label", "sibling_label"} THEN Reject("_fix_output: data_type")
     ELSE Pass("continuity")

Continuity ==   \* continuity_check on the requested target
  /\ pc = "continuity"
  /\ IF viol \in {"overlap", "gap"} THEN Reject("continuity_check") ELSE Pass("delivered")

ChainNext == (UserChunkInit \/ BareToFixOutput \/ FixOutput \/ Continuity) /\ UNCHANGED <<kind, viol, pos, proc>>
ChainSpec == Init /\ [][ChainNext]_vars

TypeOK == pc \in {"produced", "fixout", "continuity", "rejected", "delivered"}
RejectedBeforeUse == pc # "delivered"
=============================================================================
