---------------------------- MODULE RechunkTrace ----------------------------
(* P-level of rechunking (C07 / C03): the rechunker may cut wherever it likes, so its observed
   output is an input to validation.  A recorded run [inp, out] is accepted iff
     - out is a contiguous stream over the same overall range,
     - the rows of out, concatenated, are exactly the rows of inp (same order),
     - every output chunk is valid: each row lies wholly inside its chunk, i.e. cuts fall only
       where no row is straddled.                                                            *)
EXTENDS Chunks, Json, IOUtils

Traces == JsonDeserialize(IOEnv.TRACE_FILE)
VARIABLE tid
Init == tid \in 1..Len(Traces)
Next == UNCHANGED tid
Spec == Init /\ [][Next]_tid

Rows(cs) == FlatSeq([i \in 1..Len(cs) |-> cs[i].rows])
Contiguous(cs) == \A i \in 1..(Len(cs) - 1) : cs[i].e = cs[i + 1].s
RechunkOK(inp, out) ==
  /\ Contiguous(out)
  /\ \A i \in 1..Len(out) : ValidChunk(out[i])
  /\ Rows(out) = Rows(inp)
  /\ inp # <<>> => (out # <<>> /\ out[1].s = inp[1].s /\ out[Len(out)].e = inp[Len(inp)].e)
Accepted == RechunkOK(Traces[tid].inp, Traces[tid].out)
=============================================================================
