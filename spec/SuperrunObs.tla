----------------------------- MODULE SuperrunObs -----------------------------
(* P-level of property C14 over observations of real superrun requests.
     subs   the subruns in order of run start: [run, chunks] (what each subrun's data type looks like on its own)
     out    the chunks yielded (or stored and re-read) for the superrun: [s, e, rows, runs] with
            runs = the chunk's subruns annotation as a sequence of [run, s, e] in time order
     redefined_gone  after redefining the superrun with other subruns the stored superrun data is unavailable
   A superrun is exactly the ordered concatenation of its subruns, and every chunk records exactly the
   subruns - with their time spans - that it was built from.                                        *)
EXTENDS Chunks, Json, IOUtils

Obs == JsonDeserialize(IOEnv.TRACE_FILE)
VARIABLE tid
Init == tid \in 1..Len(Obs)
Next == UNCHANGED tid
Spec == Init /\ [][Next]_tid

Rows(cs) == FlatSeq([i \in 1..Len(cs) |-> cs[i].rows])
AllSubRows(subs) == FlatSeq([i \in 1..Len(subs) |-> Rows(subs[i].chunks)])
RunOrder(subs) == [i \in 1..Len(subs) |-> subs[i].run]
Pos(subs, r) == CHOOSE i \in 1..Len(subs) : subs[i].run = r

OrderedConcatenation(o) == Rows(o.out) = AllSubRows(o.subs)
\* annotation of one chunk: known runs, in superrun order, non-overlapping spans, rows inside the spans
AnnotationOK(o, c) ==
  /\ c.runs # <<>> \/ (c.s = c.e /\ c.rows = <<>>)      \* an empty zero-duration chunk is built from nothing
  /\ \A k \in 1..Len(c.runs) : \E i \in 1..Len(o.subs) : o.subs[i].run = c.runs[k].run
  /\ \A k \in 1..(Len(c.runs) - 1) : Pos(o.subs, c.runs[k].run) < Pos(o.subs, c.runs[k + 1].run) /\ c.runs[k].e <= c.runs[k + 1].s
  /\ \A j \in 1..Len(c.rows) : \E k \in 1..Len(c.runs) : c.runs[k].s <= c.rows[j][1] /\ c.rows[j][2] <= c.runs[k].e
\* the spans recorded for one subrun over all chunks tile that subrun's own range exactly
SpansOf(o, r) == SelectSeq(FlatSeq([i \in 1..Len(o.out) |-> o.out[i].runs]), LAMBDA x : x.run = r)
Tiles(o, i) == LET sp == SpansOf(o, o.subs[i].run) cs == o.subs[i].chunks IN
               /\ sp # <<>>
               /\ sp[1].s = cs[1].s /\ sp[Len(sp)].e = cs[Len(cs)].e
               /\ \A k \in 1..(Len(sp) - 1) : sp[k].e = sp[k + 1].s
Accepted == LET o == Obs[tid] IN
            /\ OrderedConcatenation(o)
            /\ \A i \in 1..Len(o.out) : AnnotationOK(o, o.out[i]) /\ RowsInside(o.out[i])
            /\ \A i \in 1..Len(o.subs) : Tiles(o, i)
            /\ o.redefined_gone
=============================================================================
