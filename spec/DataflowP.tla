------------------------------ MODULE DataflowP ------------------------------
(* P-level of property C01: the whole-run semantics of every data type of the harness plugin graph
   (see Dataflow.tla for the graph) and the tiling law for output streams.                        *)
EXTENDS Chunks

CONSTANTS Rows,       \* src rows <<t, e, v>>
          Events,     \* ev rows <<t, e, v>>
          RunEnd, WL, WR

Types == {"src", "ev", "pa", "pb", "pm", "pf", "mx", "my", "pl", "po", "pd", "pe", "pz"}
Storable == {"src", "pa", "pb", "po", "mx"}      \* intermediate types that may already be stored
Targets == {"pm", "pf", "mx", "my", "pl", "po", "pd", "pe", "pz", "pa"}

Map(rows, f(_)) == [i \in 1..Len(rows) |-> <<rows[i][1], rows[i][2], f(rows[i][3])>>]
Odd(rows) == SelectSeq(rows, LAMBDA r : r[3] % 2 = 1)
Contained(ev) == Cardinality({i \in 1..Len(Rows) : ev[1] <= Rows[i][1] /\ Rows[i][2] <= ev[2]})
PA == Map(Rows, LAMBDA v : 3 * v + 1)
WindowCount(rows) == [i \in 1..Len(rows) |->
   <<rows[i][1], rows[i][2], Cardinality({j \in 1..Len(rows) : rows[j][1] >= rows[i][1] - WL /\ rows[j][2] <= rows[i][2] + WR})>>]
WholeRun(d) ==
  CASE d = "src" -> Rows
    [] d = "ev" -> Events
    [] d = "pa" -> PA
    [] d = "pb" -> Map(Rows, LAMBDA v : 2 * v)
    [] d = "pm" -> Map(Rows, LAMBDA v : (3 * v + 1) + 2 * v)
    [] d = "pf" -> Map(Odd(Rows), LAMBDA v : v + 10)
    [] d = "mx" -> Map(Rows, LAMBDA v : 2 * v)
    [] d = "my" -> Map(Odd(Rows), LAMBDA v : v + 10)
    [] d = "pl" -> [i \in 1..Len(Events) |-> <<Events[i][1], Events[i][2], Contained(Events[i])>>]
    [] d = "po" -> WindowCount(PA)
    [] d = "pd" -> PA
    [] d = "pe" -> Map(PA, LAMBDA v : Len(Rows))
    [] d = "pz" -> Map(WindowCount(PA), LAMBDA v : 3 * v + 1)

\* the tiling law over an output stream (sequence of [s, e, rows])
TilingLaw(out, d) == /\ \A i \in 1..(Len(out) - 1) : out[i].e = out[i + 1].s
                     /\ \A i \in 1..Len(out) : out[i].s <= out[i].e /\ RowsInside(out[i])
                     /\ FlatSeq([i \in 1..Len(out) |-> out[i].rows]) = WholeRun(d)

=============================================================================
