----------------------------- MODULE PipelineObs -----------------------------
(* P-level of property C06 over observations of real pipeline executions (both processors; the
   threaded one under the deterministic scheduler, one observation per explored schedule):
     inject   "none" | "stage" (a plugin / loader / saver raises at some chunk) | "consumer_raise" | "consumer_close"
     outcome  "returned" | "raised";  orig = the caller received exactly the injected exception
     hang     some pipeline thread can never run again although not finished (deadlock under the scheduler)
     live     number of pipeline threads still alive after the call returned
     complete the returned rows are the whole-run result; prefix: they are a prefix of it       *)
EXTENDS Naturals, Sequences, TLC, Json, IOUtils

Obs == JsonDeserialize(IOEnv.TRACE_FILE)
VARIABLE tid
Init == tid \in 1..Len(Obs)
Next == UNCHANGED tid
Spec == Init /\ [][Next]_tid

NoHang(o) == ~o.hang /\ o.live = 0
FailureReachesCaller(o) == o.inject \in {"stage", "consumer_raise"} => (o.outcome = "raised" /\ o.orig)
NoFailureTerminates(o) == o.inject = "none" => (o.outcome = "returned" /\ o.complete)
\* abandoning the iterator: all pipeline threads stop (NoHang); what close() itself raises is not constrained
AbandonStops(o) == o.inject = "consumer_close" => NoHang(o)
NeverTruncatedSilently(o) == (o.outcome = "returned" /\ o.inject # "consumer_close") => o.complete
Accepted == LET o == Obs[tid] IN NoHang(o) /\ FailureReachesCaller(o) /\ NoFailureTerminates(o) /\ AbandonStops(o)
                                  /\ NeverTruncatedSilently(o)
=============================================================================
