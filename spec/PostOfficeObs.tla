--------------------------- MODULE PostOfficeObs ---------------------------
(* The P-level of PostOffice.tla restated over a log recorded from a real single-thread run (harness/postoffice.py, Tracer):
   events in program order,
     p(t, n)      message number n produced on topic t          a(t, r, n)   reader r received message n of t
     s(t, i, n)   spy i of t received its n-th message           x(t)         topic t exhausted
     c(t, i)      spy i of t closed
   with the registered readers and spies, and whether the run completed (the consumer read to the end, nothing raised).
   One initial state per log; TLC evaluates Accepted on each.                                                           *)
EXTENDS Naturals, Sequences, FiniteSets, TLC, Json, IOUtils

Obs == JsonDeserialize(IOEnv.TRACE_FILE)
VARIABLE tid
Init == tid \in 1..Len(Obs)
Spec == Init /\ [][UNCHANGED tid]_tid

Accepted ==
  LET o == Obs[tid]
      ev == o.ev
      n == Len(ev)
      NProd(t) == Cardinality({j \in 1..n : ev[j].k = "p" /\ ev[j].t = t})
      LastP(t, i) == LET S == {j \in 1..(i - 1) : ev[j].k = "p" /\ ev[j].t = t} IN IF S = {} THEN 0 ELSE CHOOSE j \in S : \A l \in S : l <= j
  IN
  /\ \A i \in 1..n : LET e == ev[i] IN
       \* messages are numbered 0, 1, 2, .. and none is produced after the topic is exhausted
       /\ e.k = "p" => /\ e.n = Cardinality({j \in 1..(i - 1) : ev[j].k = "p" /\ ev[j].t = e.t})
                       /\ ~\E j \in 1..(i - 1) : ev[j].k = "x" /\ ev[j].t = e.t
       \* a reader receives 0, 1, 2, .. - each once, in order, only after it was produced
       /\ e.k = "a" => /\ e.n = Cardinality({j \in 1..(i - 1) : ev[j].k = "a" /\ ev[j].t = e.t /\ ev[j].r = e.r})
                       /\ \E j \in 1..(i - 1) : ev[j].k = "p" /\ ev[j].t = e.t /\ ev[j].n = e.n
                       /\ <<e.t, e.r>> \in {<<x[1], x[2]>> : x \in {o.readers[q] : q \in 1..Len(o.readers)}}
       \* a spy receives every message when it is produced: its n-th message is message n, before the next is produced
       /\ e.k = "s" => /\ e.n = Cardinality({j \in 1..(i - 1) : ev[j].k = "s" /\ ev[j].t = e.t /\ ev[j].r = e.r})
                       /\ LastP(e.t, i) # 0 /\ ev[LastP(e.t, i)].n = e.n
       \* exhausted once
       /\ e.k = "x" => ~\E j \in 1..(i - 1) : ev[j].k = "x" /\ ev[j].t = e.t
       \* closed after the last message, at exhaustion (a completed run closes every spy exactly once)
       /\ e.k = "c" => /\ o.completed => ~\E j \in 1..(i - 1) : ev[j].k = "c" /\ ev[j].t = e.t /\ ev[j].r = e.r
                       /\ o.completed => \E j \in 1..(i - 1) : ev[j].k = "x" /\ ev[j].t = e.t
                       /\ ~\E j \in (i + 1)..n : ev[j].k = "s" /\ ev[j].t = e.t /\ ev[j].r = e.r
  /\ o.completed =>
       \* every registered reader read its whole topic, every spy saw all of it and was closed
       /\ \A q \in 1..Len(o.readers) : LET t == o.readers[q][1] r == o.readers[q][2] IN
            /\ Cardinality({j \in 1..n : ev[j].k = "a" /\ ev[j].t = t /\ ev[j].r = r}) = NProd(t)
            /\ \E j \in 1..n : ev[j].k = "x" /\ ev[j].t = t
       /\ \A q \in 1..Len(o.spies) : LET t == o.spies[q][1] s == o.spies[q][2] IN
            /\ Cardinality({j \in 1..n : ev[j].k = "s" /\ ev[j].t = t /\ ev[j].r = s}) = NProd(t)
            /\ Cardinality({j \in 1..n : ev[j].k = "c" /\ ev[j].t = t /\ ev[j].r = s}) = 1
=============================================================================
