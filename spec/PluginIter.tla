----------------------------- MODULE PluginIter -----------------------------
(* Plugin.iter (strax/plugins/plugin.py:410-584): how a plugin with several dependencies, each
   arriving in its own chunking, assembles time-aligned inputs for compute.

   I-level: one action per loop body: Start (first fetch of every dependency + pacemaker
   choice), Loop (fetch pacemaker, fetch the others until they reach its end, split with early
   split, up to 10 retrim passes, record the compute call), IterDone (exhaustion / leftover
   checks).  The chunking of every dependency is chosen nondeterministically in Init from ALL
   law-abiding chunkings (<= MaxChunks chunks, including empty and zero-duration chunks).

   P-level (C08): Aligned, Adjacent, RowsInsideCall, PrefixOK, ExactlyOnce, NoSilentDrop.      *)
EXTENDS PluginIterP, Json

CONSTANTS MaxChunks

NullC == [s |-> 0, e |-> 0, rows |-> <<>>, null |-> TRUE]
MkC(s, e, rows) == [s |-> s, e |-> e, rows |-> rows, null |-> FALSE]
WithNull(cs) == [i \in 1..Len(cs) |-> MkC(cs[i].s, cs[i].e, cs[i].rows)]

\* Chunk.split(t, allow_early_split=True) and Chunk.concatenate on these records
Split(c, t) == LET u == SplitTimeDef(c, t, TRUE) IN
               << MkC(c.s, u, LeftOf(c.rows, u)), MkC(u, c.e, RightOf(c.rows, u)) >>
Concat(a, b) == IF a.null THEN b ELSE IF b.null THEN a ELSE MkC(a.s, b.e, a.rows \o b.rows)

VARIABLES src,     \* src[d]: chunks of d not yet fetched
          buf,     \* input_buffer
          pm,      \* pacemaker
          pc, first, err,
          calls,   \* history: the inputs handed to compute, one record [d |-> chunk] per call
          src0     \* the chunking chosen in Init (for the conformance harness)
vars == <<src, buf, pm, pc, first, err, calls, src0>>

ChunkingsOf(d) == {WithNull(MkChunks(RowsOf(d), bs, 0)) : bs \in Chunkings(RowsOf(d), RunEnd[d], 0, MaxChunks, TRUE)}
Init == /\ src \in [Deps -> UNION {ChunkingsOf(d) : d \in Deps}]
        /\ \A d \in Deps : src[d] \in ChunkingsOf(d)
        /\ buf = [d \in Deps |-> NullC] /\ pm = 0 /\ pc = "start" /\ first = TRUE /\ err = ""
        /\ calls = <<>> /\ src0 = src

\* _fetch_chunk: <<ok, buf', src'>>
Fetch(d, b, s) == IF s[d] = <<>> THEN <<FALSE, b, s>>
                  ELSE <<TRUE, [b EXCEPT ![d] = Concat(b[d], Head(s[d]))], [s EXCEPT ![d] = Tail(s[d])]>>

Start ==
  /\ pc = "start"
  /\ LET RECURSIVE F(_, _, _)
         F(d, b, s) == IF d > ND THEN <<b, s>> ELSE LET r == Fetch(d, b, s) IN F(d + 1, r[2], r[3])
         r == F(1, buf, src)
         b == r[1]
     IN IF \E d \in Deps : b[d].null
        THEN /\ pc' = "error" /\ err' = "empty input buffer" /\ UNCHANGED <<src, buf, pm>>
        ELSE /\ buf' = b /\ src' = r[2]
             /\ pm' = Min({d \in Deps : b[d].e = Min({b[x].e : x \in Deps})})  \* first dependency with the smallest end
             /\ pc' = "loop" /\ err' = err
  /\ UNCHANGED <<first, calls, src0>>

\* fetch d until its buffer reaches tEnd; <<buf, src, endedPrematurely>>
RECURSIVE FetchUntil(_, _, _, _)
FetchUntil(d, b, s, tEnd) ==
  IF ~b[d].null /\ b[d].e >= tEnd THEN <<b, s, FALSE>>
  ELSE LET r == Fetch(d, b, s) IN
       IF r[1] THEN FetchUntil(d, r[2], r[3], tEnd)
       ELSE IF b[d].e < tEnd THEN <<b, s, TRUE>> ELSE <<b, s, FALSE>>

\* the retrim loop: <<inputs, buf, failedAfterTenPasses>>
RECURSIVE Retrim(_, _, _, _)
Retrim(inp, b, tEnd, passes) ==
  LET ends == {inp[d].e : d \in Deps}
      te == Min(ends \cup {tEnd})
  IN IF Cardinality(ends) <= 1 THEN <<inp, b, FALSE>>
     ELSE IF passes = 0 THEN <<inp, b, TRUE>>
     ELSE LET sp == [d \in Deps |-> Split(inp[d], te)] IN
          Retrim([d \in Deps |-> sp[d][1]], [d \in Deps |-> Concat(sp[d][2], b[d])], te, passes - 1)

Loop ==
  /\ pc = "loop"
  /\ LET r0 == IF first THEN <<TRUE, buf, src>> ELSE Fetch(pm, buf, src) IN
     IF ~r0[1] THEN pc' = "iterdone" /\ UNCHANGED <<src, buf, calls, err, first>>
     ELSE
       LET tEnd == r0[2][pm].e
           RECURSIVE Others(_, _, _)
           Others(d, b, s) == IF d > ND THEN <<b, s, FALSE>>
                              ELSE IF d = pm THEN Others(d + 1, b, s)
                              ELSE LET r == FetchUntil(d, b, s, tEnd) IN
                                   IF r[3] THEN <<r[1], r[2], TRUE>> ELSE Others(d + 1, r[1], r[2])
           ro == Others(1, r0[2], r0[3])
       IN IF ro[3] THEN /\ err' = "ended prematurely" /\ pc' = "error" /\ UNCHANGED <<src, buf, calls, first>>
          ELSE
            LET sp == [d \in Deps |-> Split(ro[1][d], tEnd)]
                rt == Retrim([d \in Deps |-> sp[d][1]], [d \in Deps |-> sp[d][2]], tEnd, 10)
            IN IF rt[3] THEN /\ err' = "ten passes" /\ pc' = "error" /\ UNCHANGED <<src, buf, calls, first>>
               ELSE /\ calls' = Append(calls, rt[1]) /\ buf' = rt[2] /\ src' = ro[2] /\ first' = FALSE
                    /\ UNCHANGED <<pc, err>>
  /\ UNCHANGED <<pm, src0>>

\* after the pacemaker is exhausted every source must be exhausted too; trailing zero-duration chunks
\* (which do not extend the data) are drained, anything else is an error
RECURSIVE Drain(_, _)
Drain(b, rest) == IF rest = <<>> THEN <<b, TRUE>>
                  ELSE LET nb == Concat(b, Head(rest)) IN
                       IF b.null \/ nb.e > b.e THEN <<nb, FALSE>> ELSE Drain(nb, Tail(rest))
IterDone ==
  /\ pc = "iterdone"
  /\ LET dr == [d \in Deps |-> Drain(buf[d], src[d])] IN
     IF \E d \in Deps : ~dr[d][2] THEN err' = "terminated without fetching last" /\ pc' = "error" /\ UNCHANGED <<src, buf>>
     ELSE /\ buf' = [d \in Deps |-> dr[d][1]] /\ src' = [d \in Deps |-> <<>>]
          /\ IF Strict /\ \E d \in Deps : ~dr[d][1].null /\ dr[d][1].rows # <<>> THEN err' = "leftover" /\ pc' = "error"
             ELSE pc' = "done" /\ err' = err
  /\ UNCHANGED <<calls, first, pm, src0>>

Next == Start \/ Loop \/ IterDone
Spec == Init /\ [][Next]_vars

(* ---------------------------------- P-level (C08): see PluginIterP.tla ---------------------------------- *)
Outcome == IF pc = "done" THEN "done" ELSE IF pc = "error" THEN "error" ELSE "running"
Aligned == AlignedP(calls)
Adjacent == AdjacentP(calls)
SameKindAligned == SameKindAlignedP(calls)
RowsInsideCall == RowsInsideP(calls)
PrefixOK == PrefixP(calls)
OutcomeOK == OutcomeP(calls, Outcome)
Terminal == pc \in {"done", "error"}
\* the P-level verdict of TLC on this behaviour is printed with it (OutcomeOK as an invariant under
\* -continue would print one error trace per violating behaviour, which is very slow)
Emit == Terminal => PrintT(ToJson([src0 |-> src0, calls |-> calls, err |-> err, plevel |-> PLevel(calls, Outcome)]))
=============================================================================
