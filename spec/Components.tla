----------------------------- MODULE Components -----------------------------
(* What a request computes, loads and saves (property C11): Context.get_components
   (strax/context.py:1117-1432), _target_should_be_saved, _add_saver, and the rule of both
   processors that a multi-output plugin does not feed a topic that a loader already feeds.

   P-level: set-theoretic definitions ToRun / ToLoad / ToSave / MustError from the dependency
   graph, the stored subset, the save policies and the request.
   I-level: a transcription of the check_cache recursion (with its `seen` set, in call order).
   TLC checks I = P on every configuration and prints the expected sets.                        *)
EXTENDS Naturals, Sequences, FiniteSets, TLC, Json

CONSTANTS Types,      \* set of data types (strings)
          PluginOf,   \* PluginOf[d]: the plugin (a string) providing d
          DepsOf,     \* DepsOf[p]: sequence of data types plugin p depends on (depends_on order)
          SaveWhen,   \* SaveWhen[d] \in {"NEVER", "EXPLICIT", "TARGET", "ALWAYS"}
          Writable,   \* number of writable storage frontends that accept every type (1 or 2)
          FEConfigs   \* frontend configurations for the second family of cases: set of sequences of
                      \* [ro |-> BOOLEAN, only |-> set of types ({} = no take_only filter), excl |-> set of types]

Plugins == {PluginOf[d] : d \in Types}
Provides(p) == {d \in Types : PluginOf[d] = p}
MultiOutput(p) == Cardinality(Provides(p)) > 1
Rank(w) == CASE w = "NEVER" -> 0 [] w = "EXPLICIT" -> 1 [] w = "TARGET" -> 2 [] w = "ALWAYS" -> 3
Modifiers == {"none", "time_range", "selection", "columns", "fuzzy", "incomplete"}

VARIABLE c     \* the request: [stored, target, save, mod, forbid]
vars == <<c>>

\* save= never lists a data type whose plugin forbids saving (strax answers that with a ValueError, which the
\* property does not talk about; the transcription keeps the branch)
Init == c \in [stored : SUBSET Types, target : Types, save : SUBSET {d \in Types : SaveWhen[d] # "NEVER"}, mod : Modifiers,
               forbid : {"none", "all"} \cup Types]
Spec == Init /\ [][UNCHANGED c]_vars

(* ------------------------------- P-level ------------------------------- *)
\* the data types the request needs: the target, and the dependencies of every needed type that is not stored
RECURSIVE NeededFrom(_, _)
NeededFrom(S, r) == LET new == UNION {{DepsOf[PluginOf[d]][i] : i \in 1..Len(DepsOf[PluginOf[d]])} : d \in {x \in S : x \notin r.stored}} \ S
                    IN IF new = {} THEN S ELSE NeededFrom(S \cup new, r)
Needed(r) == NeededFrom({r.target}, r)
ToLoad(r) == {d \in Needed(r) : d \in r.stored}
ToCompute(r) == {d \in Needed(r) : d \notin r.stored}          \* keys of components.plugins
ToRun(r) == {PluginOf[d] : d \in ToCompute(r)}

ShouldSave(d, r) == CASE SaveWhen[d] = "NEVER" -> FALSE
                      [] SaveWhen[d] = "TARGET" -> d = r.target
                      [] SaveWhen[d] = "EXPLICIT" -> d \in r.save
                      [] OTHER -> TRUE
Partial(r) == r.mod # "none"
\* what is saved: for every plugin that runs, each of its outputs that is not stored and whose policy says so
\* (for a multi-output plugin also outputs that nobody asked for) - and nothing at all for a partial request
ToSave(r) == IF Partial(r) THEN {}
             ELSE {d \in UNION {Provides(p) : p \in ToRun(r)} : d \notin r.stored /\ ShouldSave(d, r)}
\* explicit errors
ForbiddenHit(r) == \E d \in ToCompute(r) : r.forbid = "all" \/ r.forbid = d
TimeRangeHit(r) == r.mod = "time_range" /\ \E d \in ToCompute(r) : Rank(SaveWhen[d]) > 1
NeverHit(r) == \E d \in ToCompute(r) : SaveWhen[d] = "NEVER" /\ d \in r.save
MustError(r) == ForbiddenHit(r) \/ TimeRangeHit(r) \/ NeverHit(r)
\* every needed type has exactly one origin
OneOrigin(r) == ToLoad(r) \cap ToCompute(r) = {} /\ ToLoad(r) \cup ToCompute(r) = Needed(r)

(* ------------------------------- I-level: check_cache ------------------------------- *)
\* state threaded through the recursion: [seen, loaders, compute, savers, err]
RECURSIVE CheckCache(_, _, _)
RECURSIVE CheckDeps(_, _, _)
CheckDeps(deps, st, r) == IF deps = <<>> \/ st.err # "" THEN st ELSE CheckDeps(Tail(deps), CheckCache(Head(deps), st, r), r)
SaveBranch(d, st, r) ==      \* the part of check_cache after the dependency recursion
  LET p == PluginOf[d]
      shouldD == ShouldSave(d, r)
  IN IF SaveWhen[d] = "NEVER" /\ d \in r.save THEN [st EXCEPT !.err = "ValueError"]
     ELSE IF ~shouldD /\ ~MultiOutput(p) THEN st
     ELSE IF Partial(r) THEN st
     ELSE LET cand == (IF shouldD THEN {d} ELSE {}) \cup Provides(p)
              add == {x \in cand : x \notin r.stored /\ ShouldSave(x, r) /\ x \notin st.savers}
              \* _target_should_be_saved raises for a NEVER output listed in save=
              bad == \E x \in cand : x \notin r.stored /\ SaveWhen[x] = "NEVER" /\ x \in r.save
          IN IF bad THEN [st EXCEPT !.err = "ValueError"] ELSE [st EXCEPT !.savers = st.savers \cup add]
CheckCache(d, st, r) ==
  IF d \in st.seen \/ st.err # "" THEN st
  ELSE LET s1 == [st EXCEPT !.seen = st.seen \cup {d}] IN
       IF d \in r.stored THEN [s1 EXCEPT !.loaders = s1.loaders \cup {d}]
       ELSE IF r.mod = "time_range" /\ Rank(SaveWhen[d]) > 1 THEN [s1 EXCEPT !.err = "DataNotAvailable"]
       ELSE IF r.forbid = "all" \/ r.forbid = d THEN [s1 EXCEPT !.err = "DataNotAvailable"]
       ELSE LET s2 == CheckDeps(DepsOf[PluginOf[d]], [s1 EXCEPT !.compute = s1.compute \cup {d}], r)
            IN IF s2.err # "" THEN s2 ELSE SaveBranch(d, s2, r)
Result(r) == CheckCache(r.target, [seen |-> {}, loaders |-> {}, compute |-> {}, savers |-> {}, err |-> ""], r)

(* ------------------------------- I = P ------------------------------- *)
Conforms == LET res == Result(c) IN
            IF MustError(c) THEN res.err # ""
            ELSE /\ res.err = ""
                 /\ res.loaders = ToLoad(c) /\ res.compute = ToCompute(c) /\ res.savers = ToSave(c)
                 /\ OneOrigin(c)
\* a request that is partial / fuzzy / tolerant of incomplete data saves nothing
PartialSavesNothing == Partial(c) => ToSave(c) = {}
\* nothing that is stored is computed, nothing beyond the nearest stored types is touched
Minimal == /\ ToCompute(c) \cap c.stored = {}
           /\ \A d \in Needed(c) \ {c.target} : \E e \in ToCompute(c) : \E i \in 1..Len(DepsOf[PluginOf[e]]) : DepsOf[PluginOf[e]][i] = d

(* ------------------------------- several storage frontends -------------------------------
   StorageFrontend._we_take / find / saver, Context._get_partial_loader_for (first frontend, in storage order, that
   takes the type and has it), Context._add_saver (every frontend that is not read-only and takes the type).
   A case of this family: c = [fe, has, target, save, mod, forbid] with has[f] = the types physically present in f.  *)
NF(q) == Len(q.fe)
TakesFE(q, f, d) == ~(d \in q.fe[f].excl \/ (q.fe[f].only # {} /\ d \notin q.fe[f].only))
StoredFE(q) == {d \in Types : \E f \in 1..NF(q) : TakesFE(q, f, d) /\ d \in q.has[f]}
Req(q) == [stored |-> StoredFE(q), target |-> q.target, save |-> q.save, mod |-> q.mod, forbid |-> q.forbid]
\* P-level: where a loaded type comes from, where a saved type goes
LoadFromP(q, d) == CHOOSE f \in 1..NF(q) : TakesFE(q, f, d) /\ d \in q.has[f] /\ \A g \in 1..(f - 1) : ~(TakesFE(q, g, d) /\ d \in q.has[g])
SaveIntoP(q, d) == {f \in 1..NF(q) : ~q.fe[f].ro /\ TakesFE(q, f, d)}
\* I-level: the loops as written
RECURSIVE FindLoader(_, _, _)
FindLoader(q, d, f) == IF f > NF(q) THEN 0 ELSE IF TakesFE(q, f, d) /\ d \in q.has[f] THEN f ELSE FindLoader(q, d, f + 1)
RECURSIVE AddSaver(_, _, _, _)
AddSaver(q, d, f, acc) == IF f > NF(q) THEN acc
                          ELSE IF q.fe[f].ro THEN AddSaver(q, d, f + 1, acc)
                          ELSE IF TakesFE(q, f, d) THEN AddSaver(q, d, f + 1, acc \cup {f}) ELSE AddSaver(q, d, f + 1, acc)
InitFE == c \in [fe : FEConfigs, has : [1..2 -> SUBSET Types], target : Types, save : SUBSET {d \in Types : SaveWhen[d] = "EXPLICIT"},
                 mod : {"none"}, forbid : {"none"}]
SpecFE == InitFE /\ [][UNCHANGED c]_vars
ConformsFE == LET r == Req(c) res == Result(r) IN
              /\ MustError(r) = (res.err # "")
              /\ ~MustError(r) => /\ res.loaders = ToLoad(r) /\ res.compute = ToCompute(r) /\ res.savers = ToSave(r) /\ OneOrigin(r)
                                  /\ \A d \in ToLoad(r) : FindLoader(c, d, 1) = LoadFromP(c, d)
                                  /\ \A d \in ToSave(r) : AddSaver(c, d, 1, {}) = SaveIntoP(c, d)
\* never written: a read-only frontend, a type a frontend does not take; a type stored only where it is not taken counts as missing
NoWriteToReadonly == \A d \in Types : \A f \in SaveIntoP(c, d) : ~c.fe[f].ro /\ TakesFE(c, f, d)

SetToSeq(S) == LET RECURSIVE f(_)
                   f(T) == IF T = {} THEN <<>> ELSE LET x == CHOOSE y \in T : TRUE IN <<x>> \o f(T \ {x})
               IN f(S)
Emit == PrintT(ToJson([stored |-> SetToSeq(c.stored), target |-> c.target, save |-> SetToSeq(c.save), mod |-> c.mod,
                       forbid |-> c.forbid, error |-> MustError(c),
                       errkind |-> IF NeverHit(c) /\ ~(ForbiddenHit(c) \/ TimeRangeHit(c)) THEN "ValueError"
                                   ELSE IF MustError(c) THEN "any" ELSE "",
                       load |-> SetToSeq(ToLoad(c)), compute |-> SetToSeq(ToCompute(c)), run |-> SetToSeq(ToRun(c)),
                       saves |-> SetToSeq(ToSave(c))]))
EmitFE == LET r == Req(c) IN
          PrintT(ToJson([fe |-> c.fe, has |-> [f \in 1..2 |-> SetToSeq(c.has[f])], target |-> c.target, save |-> SetToSeq(c.save),
                         error |-> MustError(r), load |-> SetToSeq(ToLoad(r)), compute |-> SetToSeq(ToCompute(r)), run |-> SetToSeq(ToRun(r)),
                         origin |-> [d \in ToLoad(r) |-> IF MustError(r) THEN 0 ELSE LoadFromP(c, d)],
                         saves |-> [f \in 1..2 |-> IF MustError(r) THEN <<>> ELSE SetToSeq({d \in ToSave(r) : f \in SaveIntoP(c, d)})]]))
=============================================================================
