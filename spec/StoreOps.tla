------------------------------ MODULE StoreOps ------------------------------
(* Histories of storage operations on one stored data type (property C16):
     Make(l)                         Context.make into the data directory l
     Copy(a, b, c, rc)               Context.copy_to_frontend from a to b, compressor c (or the source's), rechunk rc
     CopyAll(a, c, rc)               Context.copy_to_frontend without a target: into every other location that lacks the data
     Rewrite(a, d, c, rc)            the stand-alone strax.rechunker: d = a rewrites in place (replace), d # a writes a new copy
     Load(l, rol)                    get_array / get_iter from l, optionally rechunking on load
   (strax/context.py copy_to_frontend, strax/storage/file_rechunker.py, strax/storage/common.py loader / saver).

   Abstract state: per location either nothing or a layout = the sequence of chunk edges (times) and the compressor.
   The rows are constants (Rows[r] = [s, e], sorted by time); which rows a chunk holds follows from its edges - a
   layout is valid iff no row straddles an edge.  The operations choose the new edges nondeterministically among the
   admissible ones: without rechunking exactly the source's edges; with rechunking any subset of {source edges} \cup
   {Half before the start of a row that follows a row-free gap} - the P-level of rechunking.  The real layouts read
   back after every operation of a real history must be reachable by the corresponding action (StoreOpsTrace.tla). *)
EXTENDS Naturals, Sequences, FiniteSets, TLC

CONSTANTS Rows,       \* <<[s |-> , e |-> ], ...>> the rows of the data type, in order
          Edges0,     \* the chunk edges of the data as made by the plugin
          Half,       \* the rechunker splits at (start of a row) - Half
          Comps,      \* compressor names; Edges0 is written with DefaultComp
          DefaultComp,
          Locs,
          MaxOps

NR == Len(Rows)
RunStart == Edges0[1]
RunEnd == Edges0[Len(Edges0)]
Absent == [present |-> FALSE, E |-> <<>>, comp |-> "none"]

VARIABLES store, nops, lastLoad
vars == <<store, nops, lastLoad>>

SeqToSet(s) == {s[i] : i \in 1..Len(s)}
Straddles(r, t) == Rows[r].s < t /\ t < Rows[r].e
ValidEdges(E) == /\ Len(E) >= 2 /\ E[1] = RunStart /\ E[Len(E)] = RunEnd
                 /\ \A j \in 1..(Len(E) - 1) : E[j] < E[j + 1]
                 /\ \A j \in 1..Len(E) : \A r \in 1..NR : ~Straddles(r, E[j])
\* rows of chunk j of a layout with edges E (a row belongs to the chunk that contains it entirely)
RowsOfChunk(E, j) == {r \in 1..NR : E[j] <= Rows[r].s /\ Rows[r].e <= E[j + 1]}
Partition(E) == /\ \A r \in 1..NR : Cardinality({j \in 1..(Len(E) - 1) : r \in RowsOfChunk(E, j)}) = 1
\* admissible cut times when rechunking a layout with edges E
GapCuts == {Rows[r].s - Half : r \in {q \in 2..NR : Rows[q].s - Half > Rows[q - 1].e /\ \A p \in 1..NR : ~Straddles(p, Rows[q].s - Half)}}
Admissible(E) == (SeqToSet(E) \cup GapCuts) \ {RunStart, RunEnd}
RECURSIVE SortSet(_)
SortSet(S) == IF S = {} THEN <<>> ELSE LET m == CHOOSE x \in S : \A y \in S : x <= y IN <<m>> \o SortSet(S \ {m})
\* with rechunking every new edge is an old edge or lies where no row is cut (ValidEdges), and every row stays in one chunk
IsRegroup(E, F, rc) == IF rc THEN ValidEdges(F) /\ Partition(F) ELSE F = E
Regroupings(E, rc) == IF rc THEN {SortSet(C \cup {RunStart, RunEnd}) : C \in SUBSET Admissible(E)} ELSE {E}

Init == store = [l \in Locs |-> Absent] /\ nops = 0 /\ lastLoad = "none"

Make(l) == /\ \A k \in Locs : ~store[k].present
           /\ store' = [store EXCEPT ![l] = [present |-> TRUE, E |-> Edges0, comp |-> DefaultComp]]
           /\ nops' = nops + 1 /\ lastLoad' = "none"
CopyTo(a, b, c, rc, F) == /\ a # b /\ store[a].present /\ ~store[b].present /\ IsRegroup(store[a].E, F, rc)
                          /\ store' = [store EXCEPT ![b] = [present |-> TRUE, E |-> F, comp |-> IF c = "same" THEN store[a].comp ELSE c]]
                          /\ nops' = nops + 1 /\ lastLoad' = "none"
Copy(a, b, c, rc) == \E F \in Regroupings(store[a].E, rc) : CopyTo(a, b, c, rc, F)
\* one call, several destinations: each gets a complete copy (Fs[l] = the edges written at destination l)
CopyAllTo(a, c, rc, Fs) == LET D == {l \in Locs \ {a} : ~store[l].present} IN
                           /\ store[a].present /\ D # {} /\ DOMAIN Fs = D /\ \A l \in D : IsRegroup(store[a].E, Fs[l], rc)
                           /\ store' = [l \in Locs |-> IF l \in D THEN [present |-> TRUE, E |-> Fs[l], comp |-> IF c = "same" THEN store[a].comp ELSE c]
                                                       ELSE store[l]]
                           /\ nops' = nops + 1 /\ lastLoad' = "none"
CopyAll(a, c, rc) == \E Fs \in [{l \in Locs \ {a} : ~store[l].present} -> Regroupings(store[a].E, rc)] : CopyAllTo(a, c, rc, Fs)
RewriteTo(a, d, c, rc, F) == /\ store[a].present /\ (d # a => ~store[d].present) /\ IsRegroup(store[a].E, F, rc)
                             /\ store' = [store EXCEPT ![d] = [present |-> TRUE, E |-> F, comp |-> IF c = "same" THEN store[a].comp ELSE c]]
                             /\ nops' = nops + 1 /\ lastLoad' = "none"
Rewrite(a, d, c, rc) == \E F \in Regroupings(store[a].E, rc) : RewriteTo(a, d, c, rc, F)
Load(l) == /\ store[l].present /\ lastLoad' = l /\ nops' = nops + 1 /\ UNCHANGED store

Next == /\ nops < MaxOps
        /\ \/ \E l \in Locs : Make(l) \/ Load(l)
           \/ \E a \in Locs, b \in Locs, c \in Comps \cup {"same"}, rc \in BOOLEAN : Copy(a, b, c, rc) \/ Rewrite(a, b, c, rc)
           \/ \E a \in Locs, c \in Comps \cup {"same"}, rc \in BOOLEAN : CopyAll(a, c, rc)
Spec == Init /\ [][Next]_vars

(* ---------------------------------- P-level (C16) ---------------------------------- *)
\* every stored copy holds all rows, each in exactly one chunk, over the run's range, whatever the history
AllCopiesComplete == \A l \in Locs : store[l].present => ValidEdges(store[l].E) /\ Partition(store[l].E)
\* an operation never changes a location other than its destination
SourceIntact == [][\A l \in Locs : (store[l].present /\ store'[l] # store[l]) => (\E c \in Comps \cup {"same"}, rc \in BOOLEAN : Rewrite(l, l, c, rc))]_vars
=============================================================================
