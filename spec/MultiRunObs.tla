----------------------------- MODULE MultiRunObs -----------------------------
(* P-level of property C15 over observations of real multi-run requests, one per explored schedule:
     fail / ignore  a run was made to fail / errors are ignored
     outcome        "returned" | "raised";  injected: the exception is the failing run's own exception
     rows_ok        the result equals the per-run results in run-id order with the run id attached
                    (failing run omitted when errors are ignored)
     hang           the scheduler found no runnable thread although the call had not finished        *)
EXTENDS Naturals, Sequences, TLC, Json, IOUtils

Obs == JsonDeserialize(IOEnv.TRACE_FILE)
VARIABLE tid
Init == tid \in 1..Len(Obs)
Next == UNCHANGED tid
Spec == Init /\ [][Next]_tid

Accepted == LET o == Obs[tid] IN
  /\ ~o.hang
  /\ (~o.fail \/ o.ignore) => (o.outcome = "returned" /\ o.rows_ok)     \* equals loading the runs one by one
  /\ (o.fail /\ ~o.ignore) => (o.outcome = "raised" /\ o.injected)      \* a failing run raises - its own exception
  /\ o.outcome = "raised" => o.injected                                 \* concurrent use never crashes on registry / caches
=============================================================================
