------------------------------ MODULE Chunks ------------------------------
(* The algebra of strax chunks (strax/chunk.py): split, concatenate, merge, sub/super-run
   bookkeeping, and the laws of chunking.  Pure operators, no variables: this module is
   EXTENDed by the case-enumerating modules (ChunksCases, PluginIter, OverlapWindow, ...).

   A row is <<t, e>> (time, exclusive endtime) or <<t, e, v>> with a payload; a chunk is
   [s, e, rows] (+ optional annotations).  Rows are sorted by t.

   P-level: *Def operators (set-theoretic definitions of what the property demands).
   I-level: *I operators (transcriptions of the loops in the code).                          *)
EXTENDS Integers, Sequences, FiniteSets, TLC

Max(S) == CHOOSE x \in S : \A y \in S : x >= y
Min(S) == CHOOSE x \in S : \A y \in S : x <= y

SeqFilter(seq, P(_)) == SelectSeq(seq, P)
RECURSIVE FlatSeq(_)
FlatSeq(ss) == IF ss = <<>> THEN <<>> ELSE Head(ss) \o FlatSeq(Tail(ss))

SortedByTime(rows) == \A i \in 1..(Len(rows) - 1) : rows[i][1] <= rows[i + 1][1]
RowsInside(c) == \A i \in 1..Len(c.rows) : c.rows[i][1] >= c.s /\ c.rows[i][2] <= c.e
ValidChunk(c) == c.s >= 0 /\ c.s <= c.e /\ SortedByTime(c.rows) /\ RowsInside(c)
Chunk(s, e, rows) == [s |-> s, e |-> e, rows |-> rows]

(* ----------------------------- laws of chunking: where may one cut ----------------------------- *)
\* no row strictly contains t
Admissible(rows, t) == \A i \in 1..Len(rows) : rows[i][1] < t => rows[i][2] <= t
LeftOf(rows, t) == SeqFilter(rows, LAMBDA r : r[1] < t)
RightOf(rows, t) == SeqFilter(rows, LAMBDA r : r[1] >= t)
Clamp(t, c) == Max({Min({t, c.e}), c.s})

(* ----------------------------- P-level: Chunk.split ----------------------------- *)
\* the time at which the split happens, or -1 when the split must be refused
SplitTimeDef(c, t, early) ==
  LET tt == Clamp(t, c) IN
  IF Admissible(c.rows, tt) THEN tt
  ELSE IF early THEN Max({u \in c.s..tt : Admissible(c.rows, u)})
  ELSE -1
\* Rows starting before the cut go left, rows ending after it (or starting after it) go right.
\* A zero-length row sitting exactly on the cut satisfies the law on either side, so the number
\* of rows on the left is only constrained to a range [nmin, nmax].
NMin(c, u) == Len(LeftOf(c.rows, u))
RECURSIVE ZeroRun(_, _, _)
ZeroRun(rows, i, u) == IF i <= Len(rows) /\ rows[i][1] = u /\ rows[i][2] = u THEN 1 + ZeroRun(rows, i + 1, u) ELSE 0
NMax(c, u) == NMin(c, u) + ZeroRun(c.rows, NMin(c, u) + 1, u)
SplitDef(c, t, early) ==
  LET u == SplitTimeDef(c, t, early) IN
  IF u = -1 THEN [ok |-> FALSE, t |-> -1, nmin |-> 0, nmax |-> 0]
  ELSE [ok |-> TRUE, t |-> u, nmin |-> NMin(c, u), nmax |-> NMax(c, u)]
Conforms(d, i) == d.ok = i.ok /\ d.t = i.t /\ (d.ok => d.nmin <= i.n /\ i.n <= d.nmax)
SplitLeftN(c, u, n) == Chunk(c.s, u, SubSeq(c.rows, 1, n))
SplitRightN(c, u, n) == Chunk(u, c.e, SubSeq(c.rows, n + 1, Len(c.rows)))
\* with rows of non-zero length nmin = nmax; these are then *the* result
SplitLeft(c, t, early) == LET u == SplitTimeDef(c, t, early) IN SplitLeftN(c, u, NMin(c, u))
SplitRight(c, t, early) == LET u == SplitTimeDef(c, t, early) IN SplitRightN(c, u, NMin(c, u))

(* ----------------------------- I-level: split_array's scan (chunk.py:416-463) ----------------------------- *)
RECURSIVE Scan(_, _, _, _, _)
\* <<splittable_i, i_first_beyond, latest_end_seen, broke>> with 0-based indices, -1 = unset
Scan(rows, t, i, les, spl) ==
  IF i > Len(rows) THEN <<spl, -1, les, FALSE>>
  ELSE LET d == rows[i]
           spl2 == IF d[1] >= les THEN i - 1 ELSE spl
       IN IF d[1] >= t THEN <<spl2, i - 1, les, TRUE>>
          ELSE LET les2 == Max({les, d[2]}) IN
               IF les2 > t THEN <<spl2, -1, les2, TRUE>>
               ELSE Scan(rows, t, i + 1, les2, spl2)

SplitArrayI(rows, t, early) ==
  IF rows = <<>> THEN [ok |-> TRUE, t |-> t, n |-> 0]
  ELSE IF rows[1][1] >= t THEN [ok |-> TRUE, t |-> t, n |-> 0]
  ELSE LET r == Scan(rows, t, 1, -1, 0) IN
       IF ~r[4] /\ r[3] <= t THEN [ok |-> TRUE, t |-> t, n |-> Len(rows)]
       ELSE IF r[1] # r[2] \/ r[3] > t THEN
              IF ~early THEN [ok |-> FALSE, t |-> -1, n |-> 0]
              ELSE [ok |-> TRUE, t |-> Min({rows[r[1] + 1][1], t}), n |-> r[1]]
       ELSE [ok |-> TRUE, t |-> t, n |-> r[1]]

SplitI(c, t, early) ==     \* Chunk.split (chunk.py:208-266)
  LET tt == Clamp(t, c) IN
  IF tt = c.e THEN [ok |-> TRUE, t |-> tt, n |-> Len(c.rows)]
  ELSE IF tt = c.s THEN [ok |-> TRUE, t |-> tt, n |-> 0]
  ELSE SplitArrayI(c.rows, tt, early)

(* ----------------------------- concatenate / merge ----------------------------- *)
\* P-level: concatenation accepts exactly time-ordered, non-overlapping chunks (gaps allowed)
ConcatOK(cs) == \A i \in 1..(Len(cs) - 1) : cs[i + 1].s >= cs[i].e
ConcatDef(cs) == Chunk(cs[1].s, cs[Len(cs)].e, FlatSeq([i \in 1..Len(cs) |-> cs[i].rows]))
\* I-level: the prev_end loop of Chunk.concatenate (starts from 0)
RECURSIVE ConcatLoopI(_, _, _)
ConcatLoopI(cs, i, prevEnd) == IF i > Len(cs) THEN TRUE
                               ELSE IF cs[i].s < prevEnd THEN FALSE ELSE ConcatLoopI(cs, i + 1, cs[i].e)
ConcatOKI(cs) == ConcatLoopI(cs, 1, 0)

\* same-kind merge: equal time range and equal number of rows
MergeOK(cs) == \A i, j \in 1..Len(cs) : cs[i].s = cs[j].s /\ cs[i].e = cs[j].e /\ Len(cs[i].rows) = Len(cs[j].rows)

(* ----------------------------- sub-run annotations ----------------------------- *)
\* runs: sequence of [run, s, e] sorted by s (chunk.subruns / chunk.superrun), <<>> = None
RunsValid(runs) == \A i \in 1..(Len(runs) - 1) : runs[i].e <= runs[i + 1].s
\* P-level: the part of every run before / after t, empty parts dropped
RunsLeftDef(runs, t) == SeqFilter([i \in 1..Len(runs) |-> [run |-> runs[i].run, s |-> runs[i].s, e |-> Min({runs[i].e, t})]],
                                  LAMBDA r : r.s < r.e)
RunsRightDef(runs, t) == SeqFilter([i \in 1..Len(runs) |-> [run |-> runs[i].run, s |-> Max({runs[i].s, t}), e |-> runs[i].e]],
                                   LAMBDA r : r.s < r.e)
\* I-level: _split_runs_in_chunk + _pop_out_empty_run_id (chunk.py:537-573)
RunsSplitI(runs, t) ==
  LET first == SeqFilter([i \in 1..Len(runs) |->
                   IF t <= runs[i].s THEN [run |-> runs[i].run, s |-> 0, e |-> 0]
                   ELSE IF runs[i].s < t /\ t < runs[i].e THEN [run |-> runs[i].run, s |-> runs[i].s, e |-> t]
                   ELSE runs[i]], LAMBDA r : r.s # r.e)
      second == SeqFilter([i \in 1..Len(runs) |->
                   IF t <= runs[i].s THEN runs[i]
                   ELSE IF runs[i].s < t /\ t < runs[i].e THEN [run |-> runs[i].run, s |-> t, e |-> runs[i].e]
                   ELSE [run |-> runs[i].run, s |-> 0, e |-> 0]], LAMBDA r : r.s # r.e)
  IN <<first, second>>
\* concatenating the annotations of adjacent pieces: pieces of one run must be contiguous
RECURSIVE RunsConcat(_, _)
RunsConcat(a, b) ==
  IF a = <<>> THEN b ELSE IF b = <<>> THEN a
  ELSE LET la == a[Len(a)] fb == b[1] IN
       IF la.run = fb.run /\ la.e = fb.s
       THEN SubSeq(a, 1, Len(a) - 1) \o <<[run |-> la.run, s |-> la.s, e |-> fb.e]>> \o Tail(b)
       ELSE a \o b

(* ----------------------------- chunkings of a run ----------------------------- *)
\* all ways of cutting [0, runEnd) holding `rows` into at most n contiguous chunks (given as end times);
\* zero-duration chunks allowed when zeroOK
RECURSIVE Chunkings(_, _, _, _, _)
Chunkings(rows, runEnd, from, n, zeroOK) ==
  IF n = 0 THEN {}
  ELSE {<<runEnd>>} \cup
       UNION {{<<b>> \o c : c \in Chunkings(rows, runEnd, b, n - 1, zeroOK)} :
              b \in {x \in from..runEnd : Admissible(rows, x) /\ (x > from \/ zeroOK) /\ (x < runEnd \/ zeroOK)}}
\* rows must have non-zero length (t < e), so that every row lies in exactly one chunk
MkChunks(rows, bs, start) ==
  [i \in 1..Len(bs) |->
     LET s == IF i = 1 THEN start ELSE bs[i - 1] e == bs[i] IN
     Chunk(s, e, SeqFilter(rows, LAMBDA r : r[1] >= s /\ r[2] <= e))]
=============================================================================
