------------------------------- MODULE LagNet -------------------------------
(* "Without failures, processing always terminates provided the mailbox capacity exceeds the largest chunk lag introduced by
   any plugin" (C06), and what happens when it does not.

   The smallest network in which a chunk lag matters, in eager mode (strax/processors/threaded_mailbox.py with allow_lazy off,
   strax/mailbox.py: a sender blocks while the mailbox holds max_messages messages; a message leaves the mailbox when every
   subscriber has come back for the next one):

        src --a--> P1 (one chunk in, one chunk out) --b-->\
              \--> P2 (holds back Lag chunks)       --c--> J (needs b[k] and c[k]) --t--> consumer

   Every stage is a thread that alternates "take the next input" and "send the result" (blocking when the mailbox is full); P2
   emits output k only after it has taken input k + Lag, and flushes what it holds when its input ends.  As in Mailbox._read, a
   subscriber that finds messages waiting grabs *all* of them at once into a list of its own and the mailbox forgets them
   (took), then works through the list one by one (used) - so every edge buffers up to Cap messages in the mailbox plus up to
   Cap in the reader, and how many are grabbed at a time depends on the schedule.

   TLC decides for each (Cap, Lag, N) whether every schedule terminates (T), every schedule ends in a deadlock (D) or both
   happen (M: the batching makes the outcome schedule-dependent near the threshold).  The harness runs the same network on the
   real threaded processor under the deterministic scheduler and compares outcomes.                                        *)
EXTENDS Naturals, FiniteSets, TLC

CONSTANTS Cap,    \* max_messages of every mailbox
          Lag,    \* chunks P2 holds back
          N,      \* chunks of the run
          PauseAt \* the consumer stops pulling after this many chunks (N + 1: it never stops) - property C13

Boxes == {"a", "b", "c", "t"}
Subs == [a |-> {"P1", "P2"}, b |-> {"J"}, c |-> {"J"}, t |-> {"C"}]

VARIABLES sent,     \* sent[m]: messages sent to mailbox m
          closed,   \* closed[m]
          took,     \* took[<<m, s>>]: messages subscriber s has grabbed from m (the mailbox has forgotten them)
          acked,    \* acked[<<m, s>>]: messages of m subscriber s has used (handed to its stage one by one)
          pc,       \* pc[x] for x in {"S", "P1", "P2", "J", "C"}: "take" | "send" | "take2" | "done"
          out       \* out[x]: results x has sent so far
vars == <<sent, closed, took, acked, pc, out>>
Stages == {"S", "P1", "P2", "J", "C"}
Pairs == {<<"a", "P1">>, <<"a", "P2">>, <<"b", "J">>, <<"c", "J">>, <<"t", "C">>}

Init == /\ sent = [m \in Boxes |-> 0] /\ closed = [m \in Boxes |-> FALSE]
        /\ took = [x \in Pairs |-> 0] /\ acked = [x \in Pairs |-> 0]
        /\ pc = [x \in Stages |-> IF x = "S" THEN "make" ELSE "take"] /\ out = [x \in Stages |-> 0]

Min(S) == CHOOSE x \in S : \A y \in S : x <= y
Held(m) == sent[m] - Min({took[<<m, s>>] : s \in Subs[m]})           \* len(mailbox)
CanWrite(m) == Held(m) < Cap
\* subscriber s gets its next message of m: from its own list if that is not used up, else it grabs everything that waits in m
CanTake(m, s) == acked[<<m, s>>] < took[<<m, s>>] \/ sent[m] > took[<<m, s>>]
Over(m, s) == closed[m] /\ sent[m] = took[<<m, s>>] /\ acked[<<m, s>>] = took[<<m, s>>]
Take(m, s) == /\ took' = [took EXCEPT ![<<m, s>>] = IF acked[<<m, s>>] < @ THEN @ ELSE sent[m]]
              /\ acked' = [acked EXCEPT ![<<m, s>>] = @ + 1]
Finish(m, s) == UNCHANGED <<took, acked>>
Send(m, x) == CanWrite(m) /\ sent' = [sent EXCEPT ![m] = @ + 1] /\ out' = [out EXCEPT ![x] = @ + 1]

\* the source: computes the next chunk, then sends it (holding it while the mailbox is full); out["S"] counts the chunks computed
SMake == /\ pc["S"] = "make" /\ out["S"] < N /\ out' = [out EXCEPT !["S"] = @ + 1] /\ pc' = [pc EXCEPT !["S"] = "send"]
         /\ UNCHANGED <<sent, closed, took, acked>>
SSend == /\ pc["S"] = "send" /\ CanWrite("a") /\ sent' = [sent EXCEPT !["a"] = @ + 1] /\ pc' = [pc EXCEPT !["S"] = "make"]
         /\ UNCHANGED <<closed, took, acked, out>>
SClose == /\ pc["S"] = "make" /\ out["S"] = N /\ closed' = [closed EXCEPT !["a"] = TRUE] /\ pc' = [pc EXCEPT !["S"] = "done"]
          /\ UNCHANGED <<sent, took, acked, out>>
\* P1: one in, one out
P1Take == /\ pc["P1"] = "take" /\ CanTake("a", "P1") /\ Take("a", "P1") /\ pc' = [pc EXCEPT !["P1"] = "send"] /\ UNCHANGED <<sent, closed, out>>
P1Send == /\ pc["P1"] = "send" /\ Send("b", "P1") /\ pc' = [pc EXCEPT !["P1"] = "take"] /\ UNCHANGED <<closed, took, acked>>
P1End == /\ pc["P1"] = "take" /\ Over("a", "P1") /\ Finish("a", "P1") /\ closed' = [closed EXCEPT !["b"] = TRUE]
         /\ pc' = [pc EXCEPT !["P1"] = "done"] /\ UNCHANGED <<sent, out>>
\* P2: output k after input k + Lag; flush at the end
P2Take == /\ pc["P2"] = "take" /\ CanTake("a", "P2") /\ Take("a", "P2")
          /\ pc' = [pc EXCEPT !["P2"] = IF acked[<<"a", "P2">>] + 1 > Lag THEN "send" ELSE "take"] /\ UNCHANGED <<sent, closed, out>>
P2Send == /\ pc["P2"] = "send" /\ Send("c", "P2") /\ pc' = [pc EXCEPT !["P2"] = "take"] /\ UNCHANGED <<closed, took, acked>>
P2EndIn == /\ pc["P2"] = "take" /\ Over("a", "P2") /\ Finish("a", "P2") /\ pc' = [pc EXCEPT !["P2"] = "flush"] /\ UNCHANGED <<sent, closed, out>>
P2Flush == /\ pc["P2"] = "flush" /\ out["P2"] < N /\ Send("c", "P2") /\ UNCHANGED <<closed, took, acked, pc>>
P2Close == /\ pc["P2"] = "flush" /\ out["P2"] = N /\ closed' = [closed EXCEPT !["c"] = TRUE] /\ pc' = [pc EXCEPT !["P2"] = "done"]
           /\ UNCHANGED <<sent, took, acked, out>>
\* J: b[k], then c[k], then send
JTakeB == /\ pc["J"] = "take" /\ CanTake("b", "J") /\ Take("b", "J") /\ pc' = [pc EXCEPT !["J"] = "take2"] /\ UNCHANGED <<sent, closed, out>>
JTakeC == /\ pc["J"] = "take2" /\ CanTake("c", "J") /\ Take("c", "J") /\ pc' = [pc EXCEPT !["J"] = "send"] /\ UNCHANGED <<sent, closed, out>>
JSend == /\ pc["J"] = "send" /\ Send("t", "J") /\ pc' = [pc EXCEPT !["J"] = "take"] /\ UNCHANGED <<closed, took, acked>>
JEndB == /\ pc["J"] = "take" /\ Over("b", "J") /\ Finish("b", "J") /\ pc' = [pc EXCEPT !["J"] = "end2"] /\ UNCHANGED <<sent, closed, out>>
JEndC == /\ pc["J"] = "end2" /\ Over("c", "J") /\ Finish("c", "J") /\ closed' = [closed EXCEPT !["t"] = TRUE]
         /\ pc' = [pc EXCEPT !["J"] = "done"] /\ UNCHANGED <<sent, out>>
\* the consumer never stops pulling
CTake == /\ pc["C"] = "take" /\ acked[<<"t", "C">>] < PauseAt /\ CanTake("t", "C") /\ Take("t", "C") /\ UNCHANGED <<sent, closed, pc, out>>
CEnd == /\ pc["C"] = "take" /\ Over("t", "C") /\ Finish("t", "C") /\ pc' = [pc EXCEPT !["C"] = "done"] /\ UNCHANGED <<sent, closed, out>>

Next == SMake \/ SSend \/ SClose \/ P1Take \/ P1Send \/ P1End \/ P2Take \/ P2Send \/ P2EndIn \/ P2Flush \/ P2Close
        \/ JTakeB \/ JTakeC \/ JSend \/ JEndB \/ JEndC \/ CTake \/ CEnd
Spec == Init /\ [][Next]_vars /\ WF_vars(Next)

AllDone == \A x \in Stages : pc[x] = "done"
Stuck == ~AllDone /\ ~ENABLED Next
Terminates == <>AllDone
AlwaysStuck == <>Stuck
NeverStuck == ~Stuck
\* eager mode never buffers more than the capacity; everything sent arrives in order
CapInv == \A m \in Boxes : Held(m) <= Cap
Delivered == AllDone => acked[<<"t", "C">>] = N
\* C13: once the consumer has stopped, the source advances by a number of chunks that depends on Cap and Lag only - the largest
\* out["S"] over all schedules is collected in a TLC register (INVARIANT Collect, one worker) and printed at the end; the harness
\* checks that it is the same for N and 2 N and that no real run exceeds it
Collect == IF out["S"] > TLCGet(1) THEN TLCSet(1, out["S"]) ELSE TRUE
Report == PrintT(<<"MAXSRC", TLCGet(1)>>)
ASSUME TLCSet(1, 0)
\* the property's proviso is sufficient
ProvisoSufficient == (Lag < Cap /\ PauseAt > N) => ~Stuck
=============================================================================
