---------------------------- MODULE StreamCases ----------------------------
(* Enumerates contiguous chunk streams: every row set of the scope x every law-abiding chunking
   into at most MaxChunks chunks (including empty and zero-duration chunks).  Used as the input
   generator of the rechunker (C07), storage round trips (C03) and others.                      *)
EXTENDS Chunks, Json

CONSTANTS G, MaxRows, MaxChunks, Kind

Pairs == {<<t, e>> \in (0..G) \X (0..G) : t < e}
RECURSIVE RowSeqs(_)
RowSeqs(n) == IF n = 0 THEN {<<>>}
              ELSE LET prev == RowSeqs(n - 1) IN
                   prev \cup {Append(rs, p) : rs \in {x \in prev : Len(x) = n - 1}, p \in Pairs}
\* sorted by time; to keep the scope small, rows of equal time are ordered by endtime
SortedRowSeqs == {rs \in RowSeqs(MaxRows) : \A i \in 1..(Len(rs) - 1) :
                     rs[i][1] < rs[i + 1][1] \/ (rs[i][1] = rs[i + 1][1] /\ rs[i][2] <= rs[i + 1][2])}

VARIABLE c
Streams == UNION {{[rows |-> rs, chunks |-> MkChunks(rs, bs, 0)] : bs \in Chunkings(rs, G, 0, MaxChunks, TRUE)} : rs \in SortedRowSeqs}
Init == c \in Streams
Next == UNCHANGED c
Spec == Init /\ [][Next]_c

StreamOK == /\ \A i \in 1..Len(c.chunks) : ValidChunk(c.chunks[i])
            /\ \A i \in 1..(Len(c.chunks) - 1) : c.chunks[i].e = c.chunks[i + 1].s
            /\ FlatSeq([i \in 1..Len(c.chunks) |-> c.chunks[i].rows]) = c.rows
Emit == StreamOK /\ PrintT(ToJson(c))
=============================================================================
