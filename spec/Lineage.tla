------------------------------ MODULE Lineage ------------------------------
(* Lineage-keyed reuse of stored data (property C02): Context.register / set_config / new_context,
   plugin resolution through the per-context plugin cache (_fixed_plugin_cache, _context_hash,
   __get_plugin, _plugins_to_cache: strax/context.py:723-921), lineage construction
   (__add_lineage_to_plugin), key_for, and load-or-compute-and-save.

   A chain of three data types 1 <- 2 <- 3 (source, mid, top).  Every type has one tracked option
   (option k belongs to type k); type 2 also has an untracked option (option 4).  Several plugin
   classes exist per type: same name with another default, another version, another class name.

   I-level: the cache is modelled as the code keeps it ([h, p]: the context hash it was built for and
   type |-> resolved plugin record); CtxHash contains the config and the registered *versions* only.
   P-level: what a brand-new context with the same registry and config and empty storage would
   compute (Expected), the key as a function of the true lineage.

   Fuzzy matching (context options fuzzy_for / fuzzy_for_options; StorageFrontend._matches / _filter_lineage,
   DataDirectory._find, Context._find_options, the "Not saving ... while fuzzy matching" rule): fz is the set of
   data types, fzo the set of (tracked) option names ignored when a stored lineage is compared with the wanted one;
   an exact match is preferred, otherwise any stored entry whose filtered lineage equals the filtered wanted lineage
   is accepted (the directory scan order decides which: nondeterministic here), otherwise the type is computed from
   its (possibly fuzzily found) input; nothing is written while fz or fzo is non-empty.

   Repaired = TRUE: register() drops the plugin cache (the "fix:" commit); FALSE: as found.       *)
EXTENDS Naturals, Sequences, FiniteSets, TLC

CONSTANTS Classes,    \* set of [t, name, ver, def, uid, nv]: class uid provides type t; nv identifies (name, version):
                      \* classes with the same name and version are the same code by strax's contract, their output
                      \* carries nv, the effective tracked option value and the input it was computed from
          Repaired,
          FzChoices, FzoChoices,   \* the values fuzzy_for / fuzzy_for_options may be set to (sets of types / of option numbers 1..3)
          MaxLen      \* bound on the history length (model checking only)

T == 1..3
Opts == 1..4                  \* 1..3 tracked (type k), 4 untracked (type 2)
Vals == 0..2                  \* 0 = not set in the context config
ClassesOf(t) == {c \in Classes : c.t = t}

VARIABLES registry, config, cache, store,
          fz, fzo,  \* context options fuzzy_for (data types) and fuzzy_for_options (option numbers)
          last,     \* observation of the last Get / KeyFor: [a, t, code, key]
          len
vars == <<registry, config, cache, store, fz, fzo, last, len>>
FuzzyOn == fz # {} \/ fzo # {}
\* _filter_lineage: entries of fuzzy types dropped, fuzzy options dropped from every entry (option k belongs to type k)
Filter(lin) == [k \in DOMAIN lin |-> IF k \in fz THEN <<"*">> ELSE IF k \in fzo THEN <<lin[k][1], lin[k][2]>> ELSE lin[k]]

Eff(cls, cfg) == IF cfg[cls.t] # 0 THEN cfg[cls.t] ELSE cls.def
Lin1(cls, cfg) == <<cls.name, cls.ver, Eff(cls, cfg)>>
TrueLineage(i) == [k \in 1..i |-> Lin1(registry[k], config)]
RECURSIVE Expected(_)
Expected(i) == IF i = 0 THEN 0 ELSE Expected(i - 1) * 100 + registry[i].nv * 10 + Eff(registry[i], config)

\* _context_hash: the config and (version, ...) of every registered type - not the class, not the defaults
CtxHash == <<config, [k \in T |-> registry[k].ver]>>
NoCache == [h |-> <<>>, p |-> <<>>]
Has(ch, i) == ch.h = CtxHash /\ i \in DOMAIN ch.p

\* __get_plugin: <<record, cache'>>; record = [cls, val, lin]
RECURSIVE Resolve(_, _)
Resolve(i, ch) ==
  IF Has(ch, i) THEN <<ch.p[i], ch>>
  ELSE LET dep == IF i = 1 THEN <<[lin |-> <<>>], ch>> ELSE Resolve(i - 1, ch)
           ch1 == dep[2]
           rec == [cls |-> registry[i], val |-> Eff(registry[i], config),
                   lin |-> dep[1].lin \o <<Lin1(registry[i], config)>>]
           ch2 == IF ch1.h = CtxHash THEN [h |-> ch1.h, p |-> (i :> rec) @@ ch1.p]
                  ELSE [h |-> CtxHash, p |-> (i :> rec)]
       IN <<rec, ch2>>

\* load if stored under the resolved key; with fuzzy matching any stored entry that matches after filtering; otherwise compute
\* from the dependency's data and (unless fuzzy matching is on) save.  The set of possible <<code, store'>> outcomes.
RECURSIVE DataOf(_, _, _)
DataOf(i, ch, st) ==
  LET rec == Resolve(i, ch)[1]
      hit == {s \in st : s.t = i /\ s.key = rec.lin}
      fhit == IF FuzzyOn THEN {s \in st : s.t = i /\ Filter(s.key) = Filter(rec.lin)} ELSE {}
  IN IF hit # {} THEN {<<s.code, st>> : s \in hit}
     ELSE IF fhit # {} THEN {<<s.code, st>> : s \in fhit}
     ELSE LET D == IF i = 1 THEN {<<0, st>>} ELSE DataOf(i - 1, ch, st)
          IN {LET code == d[1] * 100 + rec.cls.nv * 10 + rec.val
              IN <<code, IF FuzzyOn THEN d[2] ELSE d[2] \cup {[t |-> i, key |-> rec.lin, code |-> code]}>> : d \in D}

Init == /\ registry \in [T -> Classes] /\ \A k \in T : registry[k].t = k /\ registry[k] = CHOOSE c \in ClassesOf(k) : \A d \in ClassesOf(k) : c.uid <= d.uid
        /\ config = [o \in Opts |-> 0] /\ cache = NoCache /\ store = {} /\ fz = {} /\ fzo = {} /\ last = [a |-> "none", t |-> 0, code |-> 0, key |-> <<>>]
        /\ len = 0

SetConfig(o, v) == /\ config[o] # v /\ config' = [config EXCEPT ![o] = v]
                   /\ UNCHANGED <<registry, cache, store, fz, fzo>> /\ last' = [a |-> "set", t |-> o, code |-> v, key |-> <<>>]
Register(c) == /\ registry[c.t] # c /\ registry' = [registry EXCEPT ![c.t] = c]
               /\ cache' = IF Repaired THEN NoCache ELSE cache
               /\ UNCHANGED <<config, store, fz, fzo>> /\ last' = [a |-> "reg", t |-> c.t, code |-> c.uid, key |-> <<>>]
NewContext == /\ cache # NoCache /\ cache' = NoCache /\ UNCHANGED <<registry, config, store, fz, fzo>>
              /\ last' = [a |-> "new", t |-> 0, code |-> 0, key |-> <<>>]
Get(i) == LET r == Resolve(i, cache) IN
          \E d \in DataOf(i, r[2], store) :
            /\ cache' = r[2] /\ store' = d[2] /\ UNCHANGED <<registry, config, fz, fzo>>
            /\ last' = [a |-> "get", t |-> i, code |-> d[1], key |-> r[1].lin]
KeyFor(i) == LET r == Resolve(i, cache) IN
             /\ cache' = r[2] /\ UNCHANGED <<registry, config, store, fz, fzo>>
             /\ last' = [a |-> "key", t |-> i, code |-> 0, key |-> r[1].lin]

\* set_context_config(fuzzy_for = S) / (fuzzy_for_options = S)
SetFuzzy(S) == /\ fz' = S /\ UNCHANGED <<registry, config, cache, store, fzo>> /\ last' = [a |-> "fz", t |-> 0, code |-> 0, key |-> <<>>]
SetFuzzyOpts(S) == /\ fzo' = S /\ UNCHANGED <<registry, config, cache, store, fz>> /\ last' = [a |-> "fzo", t |-> 0, code |-> 0, key |-> <<>>]

\* the same steps without the "something changes" guards (used by the trace specification: a driver may set an
\* option to the value it already has, or register the class that is already registered)
SetConfigOrSame(o, v) == IF config[o] # v THEN SetConfig(o, v)
                         ELSE UNCHANGED <<registry, config, cache, store, fz, fzo>> /\ last' = [a |-> "set", t |-> o, code |-> v, key |-> <<>>]
RegisterOrSame(c) == IF registry[c.t] # c THEN Register(c)
                     ELSE /\ cache' = IF Repaired THEN NoCache ELSE cache
                          /\ UNCHANGED <<registry, config, store, fz, fzo>> /\ last' = [a |-> "reg", t |-> c.t, code |-> c.uid, key |-> <<>>]
NewOrSame == /\ cache' = NoCache /\ UNCHANGED <<registry, config, store, fz, fzo>> /\ last' = [a |-> "new", t |-> 0, code |-> 0, key |-> <<>>]

Step == \/ \E o \in Opts, v \in Vals : SetConfig(o, v)
        \/ \E c \in Classes : Register(c)
        \/ NewContext
        \/ \E S \in FzChoices : fz # S /\ SetFuzzy(S)
        \/ \E S \in FzoChoices : fzo # S /\ SetFuzzyOpts(S)
        \/ \E i \in T : Get(i) \/ KeyFor(i)
Next == len < MaxLen /\ Step /\ len' = len + 1
Spec == Init /\ [][Next]_vars

(* ---------------------------------- P-level (C02) ---------------------------------- *)
\* get_array returns what a brand-new context with the same settings and empty storage would compute
NoStaleRead == (last.a = "get" /\ ~FuzzyOn) => last.code = Expected(last.t)
\* with fuzzy matching, stored data is accepted exactly when its lineage differs from the true one only in the fuzzy parts:
\* the exact entry if there is one, else any entry matching after filtering, else computed from what the input may be
RECURSIVE FuzzyExpected(_)
FuzzyExpected(i) ==
  IF i = 0 THEN {0}
  ELSE LET want == TrueLineage(i)
           ex == {s \in store : s.t = i /\ s.key = want}
           M == {s \in store : s.t = i /\ Filter(s.key) = Filter(want)}
       IN IF ex # {} THEN {s.code : s \in ex}
          ELSE IF M # {} THEN {s.code : s \in M}
          ELSE {c * 100 + registry[i].nv * 10 + Eff(registry[i], config) : c \in FuzzyExpected(i - 1)}
FuzzyAccepts == (last.a = "get" /\ FuzzyOn) => last.code \in FuzzyExpected(last.t)
\* nothing computed under fuzzy matching is written
NothingWrittenUnderFuzzy == [][FuzzyOn => store' = store]_vars
\* the key is a function of the true lineage
KeyIsLineage == last.a \in {"get", "key"} => last.key = TrueLineage(last.t)
\* static laws of the key function: a tracked option / version / class change moves the keys of exactly the
\* type and its descendants; an untracked option moves nothing
KeyOf(reg, cfg, i) == [k \in 1..i |-> Lin1(reg[k], cfg)]
TrackedMoves == \A o \in 1..3 : \A v \in Vals :
                  LET cfg2 == [config EXCEPT ![o] = v]
                      changed == Eff(registry[o], cfg2) # Eff(registry[o], config)
                  IN \A i \in T : (KeyOf(registry, cfg2, i) # KeyOf(registry, config, i)) <=> (changed /\ i >= o)
UntrackedMovesNothing == \A v \in Vals : \A i \in T : KeyOf(registry, [config EXCEPT ![4] = v], i) = KeyOf(registry, config, i)
ClassMoves == \A c \in Classes :
                LET reg2 == [registry EXCEPT ![c.t] = c]
                    changed == Lin1(c, config) # Lin1(registry[c.t], config)
                IN \A i \in T : (KeyOf(reg2, config, i) # KeyOf(registry, config, i)) <=> (changed /\ i >= c.t)
=============================================================================
