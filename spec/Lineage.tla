------------------------------ MODULE Lineage ------------------------------
(* Lineage-keyed reuse of stored data (property C02): Context.register / set_config / new_context,
   plugin resolution through the per-context plugin cache (_fixed_plugin_cache, _context_hash,
   __get_plugin, _plugins_to_cache: strax/context.py), configuration of a plugin (_set_plugin_config,
   incl. child plugins), lineage construction (__add_lineage_to_plugin), key_for, load-or-compute-and-save,
   fuzzy matching.

   Four data types: 1 src <- 2 mid <- 3 top, and 4 kid <- 2 mid.  Options:
     1, 2, 3  tracked, option k taken by type k (and option 3 inherited by type 4, see below);
     4        untracked, taken by type 2;
     5        tracked, *shared*: taken by types 1, 3 and 4;
     6        tracked *child option* of type 4 with parent option 3;
     7        *mixed*: taken by type 2 as a tracked option and by type 3 (and its child, type 4) as an untracked one.
   Type 4 is provided by a child plugin: a subclass of a type-3 class (its parent, fixed per class: pname / pver).
   It computes with the parent's code, in which the parent's option 3 is replaced by the value of option 6; its
   lineage entry holds its own name and version, its tracked options without the overridden parent option, and
   the parent's name -> version.  Several plugin classes exist per type: same name with another default, another
   version, another class name, (type 4) another parent version.

   I-level: the cache is modelled as the code keeps it ([h, p]: the context hash it was built for and
   type |-> resolved plugin record); CtxHash contains the config and the registered *versions* only.
   P-level: what a brand-new context with the same registry and config and empty storage would
   compute (Expected), the key as a function of the true lineage.

   Fuzzy matching (context options fuzzy_for / fuzzy_for_options; StorageFrontend._matches / _filter_lineage,
   DataDirectory._find, Context._find_options, the "Not saving ... while fuzzy matching" rule): fz is the set of
   data types, fzo the set of option names ignored when a stored lineage is compared with the wanted one;
   an exact match is preferred, otherwise any stored entry whose filtered lineage equals the filtered wanted lineage
   is accepted (the directory scan order decides which: nondeterministic here), otherwise the type is computed from
   its (possibly fuzzily found) input; nothing is written while fz or fzo is non-empty.

   Repaired = TRUE: register() drops the plugin cache (the "fix:" commit); FALSE: as found.       *)
EXTENDS Naturals, Sequences, FiniteSets, TLC

CONSTANTS Classes,    \* set of [t, name, ver, def, uid, nv, pname, pver]: class uid provides type t; nv identifies (name, version,
                      \* parent version): classes with the same nv are the same code by strax's contract, their output carries nv,
                      \* the effective option values and the input it was computed from; def = default of the class's own option
                      \* (option t for t <= 3, option 6 for t = 4); pname / pver: the parent class of a child plugin ("" / 0 otherwise)
          Repaired,
          FzChoices, FzoChoices,   \* the values fuzzy_for / fuzzy_for_options may be set to (sets of types / of option numbers)
          MaxLen,     \* bound on the history length (model checking only)
          ExtraVals   \* TRUE: option 2 also takes the values 3 and 4 (see ValsOf)

T == 1..4
Dep(i) == CASE i = 1 -> 0 [] i = 2 -> 1 [] i = 3 -> 2 [] i = 4 -> 2
Anc(i) == CASE i = 1 -> {1} [] i = 2 -> {1, 2} [] i = 3 -> {1, 2, 3} [] i = 4 -> {1, 2, 4}
Opts == 1..7
Vals == 0..2                  \* 0 = not set in the context config
\* option 2 (mid's own option) also takes two values that *compare equal* to value 1 in the implementation language but are
\* different settings (Python: 1, True, 1.0 - distinct JSON, hence distinct lineages): 3 and 4
ValsOf(o) == IF o = 2 /\ ExtraVals THEN 0..4 ELSE Vals
SharedDefault == 1            \* every class declares the shared option with this default
OwnOpt(t) == IF t = 4 THEN 6 ELSE t
TakesShared(t) == t \in {1, 3, 4}
ClassesOf(t) == {c \in Classes : c.t = t}

VARIABLES registry, config, cache, store,
          fz, fzo,  \* context options fuzzy_for (data types) and fuzzy_for_options (option numbers)
          last,     \* observation of the last Get / KeyFor: [a, t, code, key]
          len
vars == <<registry, config, cache, store, fz, fzo, last, len>>
FuzzyOn == fz # {} \/ fzo # {}

\* effective value of the class's own option (for a child plugin: of its child option, which replaces the parent's option 3)
Eff(cls, cfg) == IF cfg[OwnOpt(cls.t)] # 0 THEN cfg[OwnOpt(cls.t)] ELSE cls.def
EffShared(cls, cfg) == IF TakesShared(cls.t) THEN (IF cfg[5] # 0 THEN cfg[5] ELSE SharedDefault) ELSE 0
\* the mixed option counts (lineage and output) only where it is tracked: type 2
EffMixed(cls, cfg) == IF cls.t = 2 THEN (IF cfg[7] # 0 THEN cfg[7] ELSE SharedDefault) ELSE 0
\* lineage entry of one plugin: name, version, tracked options (option number -> value), parent name -> version for a child plugin
Lin1(cls, cfg) == [name |-> cls.name, ver |-> cls.ver,
                   opts |-> [o \in {OwnOpt(cls.t)} \cup (IF TakesShared(cls.t) THEN {5} ELSE {}) \cup (IF cls.t = 2 THEN {7} ELSE {}) |->
                               IF o = 5 THEN EffShared(cls, cfg) ELSE IF o = 7 THEN EffMixed(cls, cfg) ELSE Eff(cls, cfg)],
                   par |-> IF cls.t = 4 THEN <<cls.pname, cls.pver>> ELSE <<>>]
TrueLineage(i) == [k \in Anc(i) |-> Lin1(registry[k], config)]
\* _filter_lineage: entries of fuzzy types dropped, fuzzy options dropped from every entry
Filter(lin) == [k \in (DOMAIN lin) \ fz |-> [lin[k] EXCEPT !.opts = [o \in (DOMAIN lin[k].opts) \ fzo |-> lin[k].opts[o]]]]
\* what one plugin adds to the provenance of its output; a provenance is the sequence of these along the dependency chain
Digits(cls, cfg) == <<cls.nv, Eff(cls, cfg), EffShared(cls, cfg), EffMixed(cls, cfg)>>
RECURSIVE Expected(_)
Expected(i) == IF i = 0 THEN <<>> ELSE Append(Expected(Dep(i)), Digits(registry[i], config))

\* _context_hash: the config and (version, ...) of every registered type - not the class, not the defaults
CtxHash == <<config, [k \in T |-> registry[k].ver]>>
NoCache == [h |-> <<>>, p |-> <<>>]
Has(ch, i) == ch.h = CtxHash /\ i \in DOMAIN ch.p

\* __get_plugin: <<record, cache'>>; record = [cls, dig, lin]
RECURSIVE Resolve(_, _)
Resolve(i, ch) ==
  IF Has(ch, i) THEN <<ch.p[i], ch>>
  ELSE LET dep == IF Dep(i) = 0 THEN <<[lin |-> <<>>], ch>> ELSE Resolve(Dep(i), ch)
           ch1 == dep[2]
           rec == [cls |-> registry[i], dig |-> Digits(registry[i], config),
                   lin |-> (i :> Lin1(registry[i], config)) @@ dep[1].lin]
           ch2 == IF ch1.h = CtxHash THEN [h |-> ch1.h, p |-> (i :> rec) @@ ch1.p]
                  ELSE [h |-> CtxHash, p |-> (i :> rec)]
       IN <<rec, ch2>>

\* load if stored under the resolved key; with fuzzy matching any stored entry that matches after filtering; otherwise compute
\* from the dependency's data and (unless fuzzy matching is on) save.  The set of possible <<code, store'>> outcomes.
RECURSIVE DataOf(_, _, _)
DataOf(i, ch, st) ==
  LET rec == Resolve(i, ch)[1]
      hit == {s \in st : s.t = i /\ s.key = rec.lin}
      fhit == IF FuzzyOn THEN {s \in st : s.t = i /\ Filter(s.key) = Filter(rec.lin)} ELSE {}
  IN IF hit # {} THEN {<<s.code, st>> : s \in hit}
     ELSE IF fhit # {} THEN {<<s.code, st>> : s \in fhit}
     ELSE LET D == IF Dep(i) = 0 THEN {<< <<>>, st>>} ELSE DataOf(Dep(i), ch, st)
          IN {LET code == Append(d[1], rec.dig)
              IN <<code, IF FuzzyOn THEN d[2] ELSE d[2] \cup {[t |-> i, key |-> rec.lin, code |-> code]}>> : d \in D}

Init == /\ registry \in [T -> Classes] /\ \A k \in T : registry[k].t = k /\ registry[k] = CHOOSE c \in ClassesOf(k) : \A d \in ClassesOf(k) : c.uid <= d.uid
        /\ config = [o \in Opts |-> 0] /\ cache = NoCache /\ store = {} /\ fz = {} /\ fzo = {} /\ last = [a |-> "none", t |-> 0, code |-> <<>>, key |-> <<>>]
        /\ len = 0

SetConfig(o, v) == /\ config[o] # v /\ config' = [config EXCEPT ![o] = v]
                   /\ UNCHANGED <<registry, cache, store, fz, fzo>> /\ last' = [a |-> "set", t |-> o, code |-> v, key |-> <<>>]
Register(c) == /\ registry[c.t] # c /\ registry' = [registry EXCEPT ![c.t] = c]
               /\ cache' = IF Repaired THEN NoCache ELSE cache
               /\ UNCHANGED <<config, store, fz, fzo>> /\ last' = [a |-> "reg", t |-> c.t, code |-> c.uid, key |-> <<>>]
NewContext == /\ cache # NoCache /\ cache' = NoCache /\ UNCHANGED <<registry, config, store, fz, fzo>>
              /\ last' = [a |-> "new", t |-> 0, code |-> <<>>, key |-> <<>>]
Get(i) == LET r == Resolve(i, cache) IN
          \E d \in DataOf(i, r[2], store) :
            /\ cache' = r[2] /\ store' = d[2] /\ UNCHANGED <<registry, config, fz, fzo>>
            /\ last' = [a |-> "get", t |-> i, code |-> d[1], key |-> r[1].lin]
KeyFor(i) == LET r == Resolve(i, cache) IN
             /\ cache' = r[2] /\ UNCHANGED <<registry, config, store, fz, fzo>>
             /\ last' = [a |-> "key", t |-> i, code |-> <<>>, key |-> r[1].lin]

\* set_context_config(fuzzy_for = S) / (fuzzy_for_options = S)
SetFuzzy(S) == /\ fz' = S /\ UNCHANGED <<registry, config, cache, store, fzo>> /\ last' = [a |-> "fz", t |-> 0, code |-> <<>>, key |-> <<>>]
SetFuzzyOpts(S) == /\ fzo' = S /\ UNCHANGED <<registry, config, cache, store, fz>> /\ last' = [a |-> "fzo", t |-> 0, code |-> <<>>, key |-> <<>>]

\* the same steps without the "something changes" guards (used by the trace specification: a driver may set an
\* option to the value it already has, or register the class that is already registered)
SetConfigOrSame(o, v) == IF config[o] # v THEN SetConfig(o, v)
                         ELSE UNCHANGED <<registry, config, cache, store, fz, fzo>> /\ last' = [a |-> "set", t |-> o, code |-> v, key |-> <<>>]
RegisterOrSame(c) == IF registry[c.t] # c THEN Register(c)
                     ELSE /\ cache' = IF Repaired THEN NoCache ELSE cache
                          /\ UNCHANGED <<registry, config, store, fz, fzo>> /\ last' = [a |-> "reg", t |-> c.t, code |-> c.uid, key |-> <<>>]
NewOrSame == /\ cache' = NoCache /\ UNCHANGED <<registry, config, store, fz, fzo>> /\ last' = [a |-> "new", t |-> 0, code |-> <<>>, key |-> <<>>]

Step == \/ \E o \in Opts : \E v \in ValsOf(o) : SetConfig(o, v)
        \/ \E c \in Classes : Register(c)
        \/ NewContext
        \/ \E S \in FzChoices : fz # S /\ SetFuzzy(S)
        \/ \E S \in FzoChoices : fzo # S /\ SetFuzzyOpts(S)
        \/ \E i \in T : Get(i) \/ KeyFor(i)
Next == len < MaxLen /\ Step /\ len' = len + 1
Spec == Init /\ [][Next]_vars

(* ---------------------------------- P-level (C02) ---------------------------------- *)
\* get_array returns what a brand-new context with the same settings and empty storage would compute
NoStaleRead == (last.a = "get" /\ ~FuzzyOn) => last.code = Expected(last.t)
\* with fuzzy matching, stored data is accepted exactly when its lineage differs from the true one only in the fuzzy parts:
\* the exact entry if there is one, else any entry matching after filtering, else computed from what the input may be
RECURSIVE FuzzyExpected(_)
FuzzyExpected(i) ==
  IF i = 0 THEN {<<>>}
  ELSE LET want == TrueLineage(i)
           ex == {s \in store : s.t = i /\ s.key = want}
           M == {s \in store : s.t = i /\ Filter(s.key) = Filter(want)}
       IN IF ex # {} THEN {s.code : s \in ex}
          ELSE IF M # {} THEN {s.code : s \in M}
          ELSE {Append(c, Digits(registry[i], config)) : c \in FuzzyExpected(Dep(i))}
FuzzyAccepts == (last.a = "get" /\ FuzzyOn) => last.code \in FuzzyExpected(last.t)
\* nothing computed under fuzzy matching is written
NothingWrittenUnderFuzzy == [][FuzzyOn => store' = store]_vars
\* the key is a function of the true lineage
KeyIsLineage == last.a \in {"get", "key"} => last.key = TrueLineage(last.t)
\* static laws of the key function.  Which types an option reaches: its takers and their descendants; the parent option 3 does not
\* reach the child plugin (type 4), whose option 6 replaces it; the untracked option reaches nothing.
KeyOf(reg, cfg, i) == [k \in Anc(i) |-> Lin1(reg[k], cfg)]
Takers(o) == CASE o = 1 -> {1} [] o = 2 -> {2} [] o = 3 -> {3} [] o = 4 -> {} [] o = 5 -> {1, 3, 4} [] o = 6 -> {4} [] o = 7 -> {2}
EffOf(cls, cfg, o) == IF o = 5 THEN EffShared(cls, cfg) ELSE IF o = 7 THEN EffMixed(cls, cfg) ELSE Eff(cls, cfg)
OptionMoves == \A o \in Opts : \A v \in ValsOf(o) :
                  LET cfg2 == [config EXCEPT ![o] = v]
                  IN \A i \in T : (KeyOf(registry, cfg2, i) # KeyOf(registry, config, i))
                                  <=> (\E k \in Anc(i) \cap Takers(o) : EffOf(registry[k], cfg2, o) # EffOf(registry[k], config, o))
ClassMoves == \A c \in Classes :
                LET reg2 == [registry EXCEPT ![c.t] = c]
                    changed == (c.name # registry[c.t].name \/ c.ver # registry[c.t].ver \/ Eff(c, config) # Eff(registry[c.t], config)
                                \/ c.pname # registry[c.t].pname \/ c.pver # registry[c.t].pver)
                IN \A i \in T : (KeyOf(reg2, config, i) # KeyOf(registry, config, i)) <=> (changed /\ c.t \in Anc(i))
=============================================================================
