------------------------------ MODULE Selection ------------------------------
(* Time-range and row selections on stored data (property C10):
   StorageBackend.loader pruning + apply_time_range (strax/storage/common.py:520-668),
   strax.apply_selection per chunk (strax/utils.py:719-785), and - when several same-kind data
   types are requested together - the alignment of their streams by Plugin.iter.

   P-level: the result is the full data filtered by the request's predicate, whatever the on-disk
   chunking; a range that overlaps no chunk is an explicit error; a range without rows gives an
   empty result.
   I-level: transcription of pruning / apply_time_range / per-chunk filtering / stream ends.
   TLC checks I = P for every layout and range of the scope and prints the expected answers.    *)
EXTENDS Chunks, Json

CONSTANTS Rows,      \* rows <<t, e>> of the stored data type(s), sorted by t, t < e (payload v = row index)
          RunEnd, MaxChunks,
          TwoTypes,  \* TRUE: two same-kind data types with independent layouts are requested together
          RepairedRange   \* TRUE: apply_time_range after the "fix:" commit (late split instead of keeping the whole chunk)

Range == {<<a, b>> \in (0..(RunEnd + 1)) \X (0..(RunEnd + 1)) : a < b}
Modes == {"fully_contained", "touching"}
Thresholds == {0, 2}      \* row selection "v >= thr"  (0 = no effect)
Idx == 1..Len(Rows)

Layouts == {MkChunks(Rows, bs, 0) : bs \in Chunkings(Rows, RunEnd, 0, MaxChunks, TRUE)}
VARIABLE c      \* <<layout1, layout2>> (layout2 = layout1 unless TwoTypes)
Init == c \in (IF TwoTypes THEN Layouts \X Layouts ELSE {<<l, l>> : l \in Layouts})
Spec == Init /\ [][UNCHANGED c]_c

(* ------------------------------- P-level ------------------------------- *)
Pred(r, i, a, b, mode, thr) ==
  /\ IF mode = "fully_contained" THEN a <= r[1] /\ r[2] <= b ELSE r[2] > a /\ r[1] < b
  /\ i - 1 >= thr
Expected(a, b, mode, thr) == {i \in Idx : Pred(Rows[i], i, a, b, mode, thr)}
Overlaps(ch, a, b) == ch.s < b /\ a < ch.e
NoChunk(layout, a, b) == ~\E k \in 1..Len(layout) : Overlaps(layout[k], a, b)

(* ------------------------------- I-level ------------------------------- *)
\* chunks the loader reads: metadata pruning
Loaded(layout, a, b) == SelectSeq(layout, LAMBDA ch : ~(ch.e <= a \/ b <= ch.s))
\* apply_time_range: early split on the left; strict split on the right, whole chunk kept if a row straddles b
ApplyRange(ch, a, b) ==
  LET c1 == IF ch.s < a THEN SplitRight(ch, a, TRUE) ELSE ch
      \* as found: the whole chunk was kept when a row straddles b; repaired: split at the first admissible time after b
      late == Min({u \in b..c1.e : Admissible(c1.rows, u)})
      c2 == IF c1.e > b THEN (IF SplitTimeDef(c1, b, FALSE) = -1
                              THEN (IF RepairedRange THEN SplitLeft(c1, late, FALSE) ELSE c1)
                              ELSE SplitLeft(c1, b, FALSE))
            ELSE c1
  IN c2
Stream(layout, a, b) == LET L == Loaded(layout, a, b) IN [k \in 1..Len(L) |-> ApplyRange(L[k], a, b)]
StreamEnd(layout, a, b) == LET S == Stream(layout, a, b) IN IF S = <<>> THEN -1 ELSE S[Len(S)].e
StreamStart(layout, a, b) == LET S == Stream(layout, a, b) IN IF S = <<>> THEN -1 ELSE S[1].s
RowIndex(r) == CHOOSE i \in Idx : Rows[i] = r     \* rows are distinct in the scope
\* rows that survive: those in the loaded (range-trimmed) chunks, then apply_selection per chunk
ResultI(layout, a, b, mode, thr) ==
  LET S == Stream(layout, a, b) IN
  {i \in Idx : (\E k \in 1..Len(S) : \E j \in 1..Len(S[k].rows) : S[k].rows[j] = Rows[i]) /\ Pred(Rows[i], i, a, b, mode, thr)}
\* two same-kind types: Plugin.iter needs the two streams to cover the same interval
Misaligned(a, b) == TwoTypes /\ (StreamEnd(c[1], a, b) # StreamEnd(c[2], a, b) \/ StreamStart(c[1], a, b) # StreamStart(c[2], a, b))

(* ------------------------------- I = P ------------------------------- *)
SingleOK == \A ab \in Range : \A mode \in Modes : \A thr \in Thresholds :
              LET a == ab[1] b == ab[2] IN
              /\ NoChunk(c[1], a, b) <=> (Loaded(c[1], a, b) = <<>>)
              /\ ~NoChunk(c[1], a, b) => ResultI(c[1], a, b, mode, thr) = Expected(a, b, mode, thr)
\* as found: with different layouts the two streams can end at different times when a row straddles b
Aligned == \A ab \in Range : ~NoChunk(c[1], ab[1], ab[2]) => ~Misaligned(ab[1], ab[2])

SetToSeq(S) == LET RECURSIVE f(_)
                   f(T) == IF T = {} THEN <<>> ELSE LET x == CHOOSE y \in T : \A z \in T : y <= z IN <<x>> \o f(T \ {x})
               IN f(S)
Emit == PrintT(ToJson([l1 |-> c[1], l2 |-> c[2],
                       q |-> [ab \in Range |-> [a |-> ab[1], b |-> ab[2], nochunk |-> NoChunk(c[1], ab[1], ab[2]) \/ NoChunk(c[2], ab[1], ab[2]),
                                                 misaligned |-> Misaligned(ab[1], ab[2]),
                                                 fc0 |-> SetToSeq(Expected(ab[1], ab[2], "fully_contained", 0)),
                                                 fc2 |-> SetToSeq(Expected(ab[1], ab[2], "fully_contained", 2)),
                                                 to0 |-> SetToSeq(Expected(ab[1], ab[2], "touching", 0)),
                                                 to2 |-> SetToSeq(Expected(ab[1], ab[2], "touching", 2))]]]))
=============================================================================
