--------------------------- MODULE BackpressureObs ---------------------------
(* P-level of property C13 over observations of real pipelines whose consumer stops pulling
   (one observation = the same scenario and schedule seed run with N and with 2N source chunks):
     rest      both runs came to rest (no thread can run, nothing hangs otherwise)
     callsN / calls2N   number of source chunks computed when the pipeline came to rest
     over      some eager mailbox held more messages than its capacity at some step
     nodemand  some lazy source was advanced while no driving reader was waiting for a message
               that had not been produced yet                                                 *)
EXTENDS Naturals, Sequences, TLC, Json, IOUtils

Obs == JsonDeserialize(IOEnv.TRACE_FILE)
VARIABLE tid
Init == tid \in 1..Len(Obs)
Next == UNCHANGED tid
Spec == Init /\ [][Next]_tid

ComesToRest(o) == o.rest
\* the number of further source chunks is bounded independently of the run length:
\* the N-chunk run did not simply run out of input, and doubling the run changes nothing
IndependentOfRunLength(o) == o.callsN = o.calls2N
CapacityRespected(o) == ~o.lazy => ~o.over
DemandDriven(o) == o.lazy => ~o.nodemand
Accepted == LET o == Obs[tid] IN ComesToRest(o) /\ IndependentOfRunLength(o) /\ CapacityRespected(o) /\ DemandDriven(o)
=============================================================================
