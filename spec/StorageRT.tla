------------------------------ MODULE StorageRT ------------------------------
(* P-level of property C03 over recorded save -> load round trips through the real
   FileSytemBackend saver / loader (Saver.save_from, rechunker, save_file / load_file, metadata):
     inp      the contiguous chunk stream handed to the saver
     out      the chunks yielded by the loader
     md       the stored metadata: per chunk [n, s, e, ft, fe, lt, le, nb, file, run], start, end, ended, exc
     rechunk  whether the saver was allowed to rechunk;   itemsize: bytes per row
     same     the loaded rows are bit-identical to the saved rows, in the same order (decided by the
              harness on the byte level: rows carry random payload bytes)
   The rechunker's cuts are an input to validation: any cut where no row is straddled is allowed. *)
EXTENDS Chunks, Json, IOUtils

Traces == JsonDeserialize(IOEnv.TRACE_FILE)
VARIABLE tid
Init == tid \in 1..Len(Traces)
Next == UNCHANGED tid
Spec == Init /\ [][Next]_tid

Rows(cs) == FlatSeq([i \in 1..Len(cs) |-> cs[i].rows])
Contiguous(cs) == \A i \in 1..(Len(cs) - 1) : cs[i].e = cs[i + 1].s
Bounds(cs) == {cs[i].e : i \in 1..Len(cs)} \cup {cs[i].s : i \in 1..Len(cs)}
SameLayout(a, b) == Len(a) = Len(b) /\ \A i \in 1..Len(a) : a[i].s = b[i].s /\ a[i].e = b[i].e /\ a[i].rows = b[i].rows

RoundTrip(t) ==
  /\ t.same
  /\ Contiguous(t.out) /\ \A i \in 1..Len(t.out) : ValidChunk(t.out[i])
  /\ Rows(t.out) = Rows(t.inp)
  /\ t.out # <<>> /\ t.out[1].s = t.inp[1].s /\ t.out[Len(t.out)].e = t.inp[Len(t.inp)].e
  /\ IF t.rechunk THEN \A u \in Bounds(t.out) : u \in Bounds(t.inp) \/ Admissible(Rows(t.inp), u)
     ELSE SameLayout(t.out, t.inp)

MdConsistent(t) ==
  LET md == t.md IN
  /\ Len(md.chunks) = Len(t.out)
  /\ \A k \in 1..Len(md.chunks) :
       LET m == md.chunks[k] c == t.out[k] n == Len(c.rows) IN
       /\ m.n = n /\ m.nb = n * t.itemsize /\ m.s = c.s /\ m.e = c.e /\ m.run = t.run /\ m.i = k - 1
       /\ m.file <=> (n > 0)
       /\ n > 0 => /\ m.ft = c.rows[1][1] /\ m.fe = c.rows[1][2]
                   /\ m.lt = c.rows[n][1] /\ m.le = c.rows[n][2]
  /\ md.start = t.out[1].s /\ md.end = t.out[Len(t.out)].e
  /\ md.ended /\ ~md.exc
\* srcok: the source data is intact afterwards (C16: unless replacement was requested); always TRUE for C03 traces
Accepted == RoundTrip(Traces[tid]) /\ MdConsistent(Traces[tid]) /\ Traces[tid].srcok
=============================================================================
