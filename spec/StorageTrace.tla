---------------------------- MODULE StorageTrace ----------------------------
(* Trace validation for Storage.tla: the file-system operations that one real saver issued
   during Context.make (recorded by the fault interposer, possibly with one injected OSError)
   plus the outcome seen by the caller must be a behaviour of Storage!Spec.  Steps that issue no
   file-system operation (findwrite, submit, close_wait, reraise, finish, ExternalKill) are taken
   silently between events.  Needs -workers 1 (TLCSet/TLCGet registers).                         *)
EXTENDS Storage, Json, IOUtils, TLCExt

Traces == JsonDeserialize(IOEnv.TRACE_FILE)     \* [events: Seq([a, c, f]), ...]
NT == Len(Traces)
VARIABLES tid, l
tvars == <<vars, tid, l>>

Ev == Traces[tid].events[l]
StepE(f) == IF f THEN SaverFail ELSE SaverOK
WorkerE(c, f) == /\ Worker(c, f)
                 /\ IF f THEN faults' = faults + 1 /\ everFailed' = TRUE /\ clean' = FALSE /\ UNCHANGED <<retries, rmOrder>>
                    ELSE UNCHANGED <<faults, retries, everFailed, rmOrder, clean>>

Consume ==
  /\ l <= Len(Traces[tid].events) /\ l' = l + 1 /\ tid' = tid
  /\ LET e == Ev IN
     CASE e.a = "probe" -> UNCHANGED vars        \* parent-directory probe of FileSytemBackend._saver: before the saver exists
       [] e.a = "mktemp" -> pc = "mktemp" /\ StepE(e.f)
       [] e.a = "md_trunc" -> pc \in {"md_trunc0", "md_trunc", "close_trunc"} /\ StepE(e.f)
       [] e.a = "md_write" -> pc \in {"md_write0", "md_write", "close_write"} /\ StepE(e.f)
       [] e.a = "opentmp" -> IF Pool THEN wpc[e.c] = "opentmp" /\ WorkerE(e.c, e.f) ELSE pc = "opentmp" /\ i = e.c /\ StepE(e.f)
       [] e.a = "writetmp" -> IF Pool THEN wpc[e.c] = "writetmp" /\ WorkerE(e.c, e.f) ELSE pc = "writetmp" /\ i = e.c /\ StepE(e.f)
       [] e.a = "renamechunk" -> IF Pool THEN wpc[e.c] = "renamechunk" /\ WorkerE(e.c, e.f) ELSE pc = "renamechunk" /\ i = e.c /\ StepE(e.f)
       [] e.a = "renamedir" -> pc = "renamedir" /\ StepE(e.f)
       [] e.a = "outcome" -> pc = "end" /\ outcome = e.v /\ UNCHANGED vars
       [] OTHER -> FALSE

Silent ==
  /\ UNCHANGED <<tid, l>>
  /\ \/ pc \in {"findwrite", "submit", "prune", "close_wait", "reraise", "finish"} /\ SaverOK
     \/ ExternalKill
     \/ ExternalAbandon

TraceInit == Init /\ rmOrder = "md_first" /\ tid \in 1..NT /\ l = 1
TraceNext == Consume \/ Silent
TraceSpec == TraceInit /\ [][TraceNext]_tvars

ASSUME \A k \in 1..NT : TLCSet(k, 0)
Progress == IF l > TLCGet(tid) THEN TLCSet(tid, l) ELSE TRUE
Rejected == {k \in 1..NT : TLCGet(k) # Len(Traces[k].events) + 1}
AllAccepted == IF Rejected = {} THEN TRUE
               ELSE /\ \A k \in Rejected : PrintT(<<"REJECTED trace", k, "at event", TLCGet(k)>>)
                    /\ FALSE
=============================================================================
