---------------------------- MODULE ChunksCases ----------------------------
(* Case enumeration for C07.  Every initial state is one input of the small scope; the
   invariants (a) check the laws of chunking and "transcription = definition" on it, and
   (b) print {input, expected} as JSON for the conformance harness, which feeds the same input
   to the real strax.Chunk.split / split_array / concatenate / merge.                          *)
EXTENDS Chunks, Json

CONSTANTS G,        \* time grid 0..G
          MaxRows,  \* at most this many rows per chunk
          ZeroLen,  \* include zero-length rows (t = e)
          Kind      \* "split" | "concat" | "runs"

Pairs == {<<t, e>> \in (0..G) \X (0..G) : t < e \/ (ZeroLen /\ t = e)}
RECURSIVE RowSeqs(_)
RowSeqs(n) == IF n = 0 THEN {<<>>}
              ELSE LET prev == RowSeqs(n - 1) IN
                   prev \cup {Append(rs, p) : rs \in {x \in prev : Len(x) = n - 1}, p \in Pairs} 
SortedRowSeqs == {rs \in RowSeqs(MaxRows) : SortedByTime(rs)}
ChunksOf(rs) == IF rs = <<>> THEN {Chunk(s, e, rs) : s \in {0, 2}, e \in {2, 3}}
                ELSE LET lo == rs[1][1] hi == Max({rs[i][2] : i \in 1..Len(rs)}) IN
                     {Chunk(s, e, rs) : s \in {lo, Max({lo - 1, 0})}, e \in {hi, hi + 1}}
AllChunks == UNION {ChunksOf(rs) : rs \in SortedRowSeqs}

VARIABLE c
vars == <<c>>

(* ---------------- split ---------------- *)
SplitTimes(ch) == (Max({ch.s - 1, 0}))..(ch.e + 1)
SplitLaws(ch) ==
  \A t \in SplitTimes(ch) : \A early \in BOOLEAN :
    LET d == SplitDef(ch, t, early) i == SplitI(ch, t, early) IN
    /\ Conforms(d, i)                                  \* the transcription is one of the allowed results
    /\ d.ok => \A n \in d.nmin..d.nmax :
               LET l == SplitLeftN(ch, d.t, n) r == SplitRightN(ch, d.t, n) IN
               /\ ValidChunk(l) /\ ValidChunk(r)       \* every row entirely on one side
               /\ l.e = r.s /\ l.s = ch.s /\ r.e = ch.e  \* adjacent, same overall range
               /\ ConcatDef(<<l, r>>) = ch              \* concatenate to the original
    /\ d.ok => /\ d.t <= Clamp(t, ch)
               /\ (d.t < Clamp(t, ch) => early /\ ~Admissible(ch.rows, Clamp(t, ch))
                                         /\ \A u \in (d.t + 1)..Clamp(t, ch) : ~Admissible(ch.rows, u))
    /\ (~d.ok) <=> (~early /\ ~Admissible(ch.rows, Clamp(t, ch)))    \* refuses exactly when a row straddles t
SplitOut(ch) == [c |-> ch,
                 sp |-> [t \in SplitTimes(ch) |-> [early \in {0, 1} |->
                           LET d == SplitDef(ch, t, early = 1) i == SplitI(ch, t, early = 1) IN
                           <<IF d.ok THEN 1 ELSE 0, d.t, d.nmin, d.nmax, i.n>>]],
                 t0 |-> Max({ch.s - 1, 0})]

(* ---------------- concatenate / merge of two or three chunks ---------------- *)
SmallChunks == {ch \in AllChunks : Len(ch.rows) <= 2}
ConcatLaws(cs) == LET two == <<cs[1], cs[2]>> IN
                  /\ ConcatOK(two) = ConcatOKI(two)
                  /\ ConcatOK(two) => ValidChunk(ConcatDef(two))
\* cs = <<c1, c2, f>>: f bit0 = different run ids, bit1 = different data type (concatenate) / data kind (merge)
ConcatOut(cs) == LET two == <<cs[1], cs[2]>> IN
                 [cs |-> two, f |-> cs[3], ok |-> (cs[3] = 0 /\ ConcatOK(two)), mergeok |-> (cs[3] = 0 /\ MergeOK(two)),
                  res |-> IF ConcatOK(two) THEN ConcatDef(two) ELSE Chunk(0, 0, <<>>)]

(* ---------------- sub-run annotations under split ---------------- *)
RunSeqs == {<<>>} \cup
           {<<[run |-> 1, s |-> a, e |-> b]>> : a \in 0..G, b \in 1..G} \cup
           {<<[run |-> 1, s |-> a, e |-> b], [run |-> 2, s |-> x, e |-> y]>> : a \in 0..G, b \in 1..G, x \in 0..G, y \in 1..G}
ValidRunSeqs == {r \in RunSeqs : RunsValid(r) /\ \A i \in 1..Len(r) : r[i].s < r[i].e}
RunLaws(runs) == \A t \in 0..(G + 1) :
   LET sp == RunsSplitI(runs, t) IN
   /\ sp[1] = RunsLeftDef(runs, t) /\ sp[2] = RunsRightDef(runs, t)
   /\ RunsConcat(sp[1], sp[2]) = runs
   /\ RunsValid(sp[1]) /\ RunsValid(sp[2])
RunOut(runs) == [runs |-> runs, sp |-> [t \in 0..(G + 1) |-> RunsSplitI(runs, t)]]

Init == \/ Kind = "split" /\ c \in AllChunks
        \/ Kind = "concat" /\ c \in (SmallChunks \X SmallChunks \X (0..3))
        \/ Kind = "runs" /\ c \in ValidRunSeqs
Next == UNCHANGED c
Spec == Init /\ [][Next]_vars

Laws == CASE Kind = "split" -> SplitLaws(c)
          [] Kind = "concat" -> ConcatLaws(c)
          [] Kind = "runs" -> RunLaws(c)
Emit == PrintT(ToJson(CASE Kind = "split" -> SplitOut(c)
                        [] Kind = "concat" -> ConcatOut(c)
                        [] Kind = "runs" -> RunOut(c)))
=============================================================================
