---------------------------- MODULE LineageTrace ----------------------------
(* Trace validation for Lineage.tla: histories executed on real strax Contexts sharing one
   DataDirectory are accepted iff each is a behaviour of Lineage!Spec (repaired protocol) whose
   observations match: the provenance code decoded from the rows get_array returned, and the
   storage key.  Real keys are hash strings; the harness numbers them in order of first appearance
   (kid) and the trace specification maintains the correspondence kid <-> lineage value, which must
   be one-to-one (distinct lineages give distinct keys and vice versa).  The P-level invariants
   of Lineage.tla are evaluated after every event.  Needs -workers 1.                           *)
EXTENDS Lineage, Json, IOUtils, TLCExt

Traces == JsonDeserialize(IOEnv.TRACE_FILE)
NT == Len(Traces)
VARIABLES tid, l, keymap
tvars == <<vars, tid, l, keymap>>

Ev == Traces[tid][l]
ClassByUid(u) == CHOOSE c \in Classes : c.uid = u
KeyOK(kid, key) == IF kid \in DOMAIN keymap THEN keymap[kid] = key /\ keymap' = keymap
                   ELSE (\A k \in DOMAIN keymap : keymap[k] # key) /\ keymap' = (kid :> key) @@ keymap

TraceInit == Init /\ tid \in 1..NT /\ l = 1 /\ keymap = <<>>
TraceNext ==
  /\ l <= Len(Traces[tid]) /\ l' = l + 1 /\ tid' = tid /\ len' = len
  /\ LET e == Ev IN
     CASE e.a = "set" -> SetConfigOrSame(e.t, e.code) /\ keymap' = keymap
       [] e.a = "reg" -> RegisterOrSame(ClassByUid(e.code)) /\ keymap' = keymap
       [] e.a = "new" -> NewOrSame /\ keymap' = keymap
       [] e.a = "fz" -> SetFuzzy({k \in T : e.set[k] = 1}) /\ keymap' = keymap
       [] e.a = "fzo" -> SetFuzzyOpts({k \in Opts : e.set[k] = 1}) /\ keymap' = keymap
       [] e.a = "get" -> Get(e.t) /\ last'.code = e.code /\ KeyOK(e.kid, last'.key)
       [] e.a = "key" -> KeyFor(e.t) /\ KeyOK(e.kid, last'.key)
TraceSpec == TraceInit /\ [][TraceNext]_tvars

ASSUME \A k \in 1..NT : TLCSet(k, 0)
Progress == IF l > TLCGet(tid) THEN TLCSet(tid, l) ELSE TRUE
Rejected == {k \in 1..NT : TLCGet(k) # Len(Traces[k]) + 1}
AllAccepted == IF Rejected = {} THEN TRUE
               ELSE /\ \A k \in Rejected : PrintT(<<"REJECTED trace", k, "at event", TLCGet(k)>>)
                    /\ FALSE
=============================================================================
