------------------------------ MODULE Dataflow ------------------------------
(* Whole-run semantics of a plugin graph (property C01): what every data type contains when each
   plugin's computation is applied to the whole, unchunked run.

   Graph (one plugin kind each):
     src  source rows <<t, e, v>> (disjoint, sorted)            ev   source "events" (coarse intervals)
     pa   row-wise map      va = 3v + 1      (kind "ab")        pb   row-wise map  vb = 2v  (kind "ab")
     pm   same-kind merge   v = va + vb                          pf   filter to a new kind: odd v, v + 10
     mx, my  multi-output:  mx = 2v (all rows), my = odd rows v + 10
     pl   loop plugin over ev: number of src rows fully contained in the event
     po   overlap-window plugin on pa with window (WL, WR): rows lying wholly within [t - WL, e + WR]
     pd   down-chunking plugin on pa: same rows, own chunking        pe   exhaust plugin on pa: v = number of rows
     pz   row-wise map of po: 3v + 1
   P-level: WholeRun(d) below; any output stream must be a contiguous tiling of the run whose
   concatenated rows equal WholeRun(target), with every row inside its tile.
   The enumeration (Init) chooses independent law-abiding chunkings for both sources, an alternative
   chunking for pre-stored intermediate data, a stored subset and a target.                        *)
EXTENDS DataflowP, Json

CONSTANTS MaxChunks

TE(rows) == [i \in 1..Len(rows) |-> <<rows[i][1], rows[i][2]>>]
SrcChunkings == {MkChunks(TE(Rows), bs, 0) : bs \in Chunkings(TE(Rows), RunEnd, 0, MaxChunks, TRUE)}
EvChunkings == {MkChunks(TE(Events), bs, 0) : bs \in Chunkings(TE(Events), RunEnd, 0, 2, FALSE)}

\* The space of configurations (chunking of src x chunking of ev x alternative chunking for pre-stored data x
\* stored subset x target) is the product of the sets below; TLC materialises the factors and the oracle, the
\* conformance harness walks (thorough) or samples (quick) the product.
VARIABLE c
Init == c = 0
Spec == Init /\ [][UNCHANGED c]_c
NConfigurations == Cardinality(SrcChunkings) * Cardinality(EvChunkings) * Cardinality(SrcChunkings) * Cardinality(SUBSET Storable) * Cardinality(Targets)

\* sanity of the definitions themselves: every whole-run result is sorted, and the row-preserving kinds keep the intervals
DefsOK == /\ \A d \in Types : SortedByTime(WholeRun(d))
          /\ \A d \in {"pa", "pb", "pm", "mx", "po", "pd", "pe", "pz"} : TE(WholeRun(d)) = TE(Rows)
          /\ TE(WholeRun("pl")) = TE(Events)
SetToSeq(S) == LET RECURSIVE f(_)
                   f(T) == IF T = {} THEN <<>> ELSE LET x == CHOOSE y \in T : TRUE IN <<x>> \o f(T \ {x})
               IN f(S)
Emit == PrintT(ToJson([whole |-> [d \in Types |-> WholeRun(d)], src |-> SetToSeq(SrcChunkings), ev |-> SetToSeq(EvChunkings),
                       storable |-> SetToSeq(Storable), targets |-> SetToSeq(Targets), n |-> NConfigurations]))
=============================================================================
