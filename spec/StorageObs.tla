----------------------------- MODULE StorageObs -----------------------------
(* P-level of property C04 over observations of real fault scenarios.  One observation =
   what a *fresh* Context sees after a fault (and after an optional second fault during a retry,
   and after a final fault-free retry):
     kind      "none" | "error" (an OSError injected at a file-system operation) | "crash" (process
               death just before/after it) | "plugin" (a plugin raised)
     saverop   the faulted operation was issued by a saver object that had been created
     outcome   what the caller of Context.make saw: "returned" | "raised" | "died"
     vis       per data type (last = the target): "absent" | "valid" | "wrong" | "unloadable" | ...
     retry / after: outcome and visible state of the final fault-free identical request        *)
EXTENDS Naturals, Sequences, TLC, Json, IOUtils

Obs == JsonDeserialize(IOEnv.TRACE_FILE)
VARIABLE tid
Init == tid \in 1..Len(Obs)
Next == UNCHANGED tid
Spec == Init /\ [][Next]_tid

OKState(v) == v \in {"absent", "valid"}
AllOK(vs) == \A i \in 1..Len(vs) : OKState(vs[i])
\* everything reported as stored loads completely and equals the correct result
VisibleImpliesCorrect(o) == AllOK(o.vis) /\ AllOK(o.vis2) /\ AllOK(o.after)
\* a save that failed is never reported to the caller as a success
ReportedFailure(o) == /\ ~(o.kind = "error" /\ o.saverop /\ o.outcome = "returned")
                      /\ ~(o.kind2 = "error" /\ o.saverop2 /\ o.outcome2 = "returned")
\* a later identical request recomputes and stores the correct data without manual cleanup
RetryHeals(o) == o.retry = "returned" /\ o.after[Len(o.after)] = "valid"
Accepted == LET o == Obs[tid] IN VisibleImpliesCorrect(o) /\ ReportedFailure(o) /\ RetryHeals(o)
=============================================================================
