--------------------------- MODULE MailboxTrace ---------------------------
(* Trace validation for Mailbox.tla: a batch of recorded executions of the real strax.Mailbox
   (one record per scheduler step: the thread that ran and the mailbox state projected after
   the step) is accepted iff every trace is a behaviour of Mailbox!Spec.  The invariants of the
   cfg are evaluated at every step of every trace.  Unlogged variables (pcs, waiter sets) are
   inferred by TLC. *)
EXTENDS Mailbox, Json, IOUtils, TLCExt

Traces == JsonDeserialize(IOEnv.TRACE_FILE)
NT == Len(Traces)

VARIABLES tid, l
tvars == <<vars, tid, l>>

ToSetOf(seq) == {seq[i] : i \in 1..Len(seq)}
Ev == Traces[tid][l]

Matches(e) ==
  /\ box' = ToSetOf(e.box)
  /\ \A s \in Subs : haveRead'[s] = e.haveRead[s] /\ waitFor'[s] = e.waitFor[s]
  /\ nSent' = e.nSent /\ closed' = e.closed /\ killed' = e.killed /\ force' = e.force
  /\ \A s \in Subs : Len(got'[s]) = Len(e.got[s]) /\ \A i \in 1..Len(e.got[s]) : got'[s][i] = e.got[s][i]
  /\ futDone' = ToSetOf(e.futDone)

TraceInit == Init /\ tid \in 1..NT /\ l = 1

TraceNext ==
  /\ l <= Len(Traces[tid])
  /\ l' = l + 1 /\ tid' = tid
  /\ LET e == Ev IN
     /\ \/ e.k = "S" /\ Sender
        \/ e.k = "R" /\ Reader(e.i)
        \/ e.k = "W" /\ WComplete(e.i)
        \/ e.k = "K" /\ KKill
     /\ Matches(e)

TraceSpec == TraceInit /\ [][TraceNext]_tvars

ASSUME \A i \in 1..NT : TLCSet(i, 0)
\* highest position reached per trace (needs -workers 1)
Progress == IF l > TLCGet(tid) THEN TLCSet(tid, l) ELSE TRUE
Rejected == {i \in 1..NT : TLCGet(i) # Len(Traces[i]) + 1}
AllAccepted == IF Rejected = {} THEN TRUE
               ELSE /\ \A i \in Rejected : PrintT(<<"REJECTED trace", i, "at event", TLCGet(i)>>)
                    /\ FALSE
=============================================================================
