----------------------------- MODULE Intervals -----------------------------
(* Set-theoretic definitions of strax's interval primitives (strax/processing/general.py) and
   transcriptions of their sweep-line loops; TLC checks transcription = definition on every input
   of a small scope (under the documented preconditions) and prints {input, expected} for the
   conformance harness.  Intervals are <<t, e>> with exclusive end e >= t; indices are 0-based as
   in the code; "none" is -1.                                                                   *)
EXTENDS Integers, Sequences, FiniteSets, TLC, Json

CONSTANTS G,         \* time grid 0..G
          NT,        \* max number of things
          NC,        \* max number of containers
          ZeroLen,   \* allow zero-length intervals
          Kind       \* which family of cases

Max(S) == CHOOSE x \in S : \A y \in S : x >= y
Min(S) == CHOOSE x \in S : \A y \in S : x <= y
Pairs == {<<t, e>> \in (0..G) \X (0..G) : t < e \/ (ZeroLen /\ t = e)}
RECURSIVE SeqsUpTo(_, _)
SeqsUpTo(S, n) == IF n = 0 THEN {<<>>}
                  ELSE LET prev == SeqsUpTo(S, n - 1) IN prev \cup {Append(s, x) : s \in {y \in prev : Len(y) = n - 1}, x \in S}
SortedT(s) == \A i \in 1..(Len(s) - 1) : s[i][1] <= s[i + 1][1]
SortedE(s) == \A i \in 1..(Len(s) - 1) : s[i][2] <= s[i + 1][2]
NonOverlap(s) == \A i \in 1..(Len(s) - 1) : s[i + 1][1] >= s[i][2]
Idx(s) == 1..Len(s)

(* ------------------------------- containment ------------------------------- *)
\* half-open semantics: [t, e) lies inside [ct, ce); a zero-length thing is the point t
Inside(th, c) == c[1] <= th[1] /\ th[2] <= c[2] /\ c[2] > th[1]
FullyContainedDef(things, conts) ==
  [i \in Idx(things) |-> LET S == {j \in Idx(conts) : Inside(things[i], conts[j])} IN IF S = {} THEN -1 ELSE Min(S) - 1]
\* transcription of _fc_in
RECURSIVE FcLoop(_, _, _, _, _)
FcLoop(things, conts, ai, bi, res) ==
  IF ai > Len(things) THEN res
  ELSE LET RECURSIVE adv(_)
           adv(b) == IF b <= Len(conts) /\ conts[b][2] <= things[ai][1] THEN adv(b + 1) ELSE b
           b2 == adv(bi)
       IN IF b2 > Len(conts) THEN res
          ELSE FcLoop(things, conts, ai + 1, b2,
                      IF conts[b2][1] <= things[ai][1] /\ things[ai][2] <= conts[b2][2] THEN [res EXCEPT ![ai] = b2 - 1] ELSE res)
FullyContainedI(things, conts) == FcLoop(things, conts, 1, 1, [i \in Idx(things) |-> -1])
SplitByContainmentDef(things, conts) ==
  LET fc == FullyContainedDef(things, conts) IN
  [j \in Idx(conts) |-> SelectSeq([i \in Idx(things) |-> <<things[i], fc[i]>>], LAMBDA p : p[2] = j - 1)]

(* ------------------------------- touching windows ------------------------------- *)
\* thing k touches container c within window w  <=>  e_k > ct - w  /\  t_k < ce + w
\* with things sorted by time and by endtime the touching things are the index range [lo, hi)
TouchDef(things, conts, w) ==
  [j \in Idx(conts) |-> << Cardinality({k \in Idx(things) : things[k][2] <= conts[j][1] - w}),
                           Cardinality({k \in Idx(things) : things[k][1] < conts[j][2] + w}) >>]
Touches(th, c, w) == th[2] > c[1] - w /\ th[1] < c[2] + w
TouchLaw(things, conts, w) ==   \* the index range is exactly the set of touching things (when it is a proper range)
  \A j \in Idx(conts) : LET r == TouchDef(things, conts, w)[j] IN
     \A k \in Idx(things) : Touches(things[k], conts[j], w) <=> (r[1] < k /\ k <= r[2])
\* transcription of _touching_windows (two monotone sweeps; containers' ends visited in stably sorted order)
RECURSIVE SweepL(_, _, _, _, _)
SweepL(things, conts, w, j, li) ==
  IF j > Len(conts) THEN <<>>
  ELSE LET RECURSIVE adv(_)
           adv(x) == IF x <= Len(things) /\ things[x][2] <= conts[j][1] - w THEN adv(x + 1) ELSE x
           l2 == adv(li)
       IN <<l2 - 1>> \o SweepL(things, conts, w, j + 1, l2)
EndOrder(conts) ==   \* stable argsort of container ends
  LET key(j) == conts[j][2] * (Len(conts) + 1) + j
      RECURSIVE ord(_)
      ord(S) == IF S = {} THEN <<>> ELSE LET m == CHOOSE x \in S : \A y \in S : key(x) <= key(y) IN <<m>> \o ord(S \ {m})
  IN ord(Idx(conts))
RECURSIVE SweepR(_, _, _, _, _, _)
SweepR(things, conts, w, order, ri, res) ==
  IF order = <<>> THEN res
  ELSE LET j == Head(order)
           RECURSIVE adv(_)
           adv(x) == IF x <= Len(things) /\ things[x][1] < conts[j][2] + w THEN adv(x + 1) ELSE x
           r2 == adv(ri)
       IN SweepR(things, conts, w, Tail(order), r2, [res EXCEPT ![j] = r2 - 1])
TouchI(things, conts, w) ==
  LET L == SweepL(things, conts, w, 1, 1)
      R == SweepR(things, conts, w, EndOrder(conts), 1, [j \in Idx(conts) |-> 0])
  IN [j \in Idx(conts) |-> <<L[j], R[j]>>]

(* ------------------------------- gaps and breaks ------------------------------- *)
DiffDef(d) == [i \in 1..(Len(d) - 1) |-> d[i + 1][1] - Max({d[k][2] : k \in 1..i})]
\* first index (0-based) right of the first gap of at least safe_break, or -1 (NoBreakFound); needs Len(d) >= 2
FindBreakDef(d, safe, notBefore) ==
  LET S == {i \in 2..Len(d) : d[i][1] >= Max({notBefore} \cup {d[k][2] : k \in 1..(i - 1)}) + safe}
  IN IF S = {} THEN -1 ELSE Min(S) - 1

(* ------------------------------- time to previous / next interval ------------------------------- *)
\* things and intervals sorted and non-overlapping
PrevNextDef(things, ivs) ==
  [i \in Idx(things) |->
     LET P == {things[i][1] - ivs[j][2] : j \in {j \in Idx(ivs) : ivs[j][2] <= things[i][1] /\ ivs[j][1] < things[i][1]}}
         N == {ivs[j][1] - things[i][2] : j \in {j \in Idx(ivs) : ivs[j][1] >= things[i][2] /\ ivs[j][1] >= things[i][1]}}
     IN << IF P = {} THEN -1 ELSE Min(P), IF N = {} THEN -1 ELSE Min(N) >>]

(* ------------------------------- overlap of integer ranges ------------------------------- *)
OverlapDef(a1, na, b1, nb) ==
  LET A == a1..(a1 + na - 1) B == b1..(b1 + nb - 1) I == A \cap B IN
  IF I = {} THEN <<0, 0, 0, 0>> ELSE <<Min(I) - a1, Max(I) - a1 + 1, Min(I) - b1, Max(I) - b1 + 1>>

(* ------------------------------- stable sort by (time, channel) ------------------------------- *)
\* x: sequence of <<time, channel>>; result: the permutation (0-based original indices) in sorted order
SortDef(x) ==
  LET key(i) == <<x[i][1], x[i][2], i>>
      less(i, j) == x[i][1] < x[j][1] \/ (x[i][1] = x[j][1] /\ (x[i][2] < x[j][2] \/ (x[i][2] = x[j][2] /\ i < j)))
      RECURSIVE ord(_)
      ord(S) == IF S = {} THEN <<>> ELSE LET m == CHOOSE a \in S : \A b \in S \ {a} : less(a, b) IN <<m - 1>> \o ord(S \ {m})
  IN ord(Idx(x))

(* ------------------------------- case enumeration ------------------------------- *)
VARIABLE c
ThingSeqs == SeqsUpTo(Pairs, NT)
ContSeqs == SeqsUpTo(Pairs, NC)
Windows == -2..3
Init ==
  \/ Kind = "contain" /\ c \in {<<th, co>> \in ThingSeqs \X ContSeqs : TRUE}
  \/ Kind = "touch" /\ c \in {<<th, co>> \in ThingSeqs \X ContSeqs : SortedT(th) /\ SortedE(th) /\ SortedT(co)}
  \/ Kind = "gaps" /\ c \in {d \in ThingSeqs : SortedT(d)}
  \/ Kind = "prevnext" /\ c \in {<<th, iv>> \in ThingSeqs \X ContSeqs : SortedT(th) /\ SortedT(iv) /\ NonOverlap(th) /\ NonOverlap(iv)}
  \/ Kind = "overlap" /\ c \in ((-G)..G) \X (0..G) \X ((-G)..G) \X (0..G)
  \/ Kind = "sort" /\ c \in SeqsUpTo((0..G) \X (0..2), NT)
Next == UNCHANGED c
Spec == Init /\ [][Next]_c

Pre(things, conts) == SortedT(things) /\ SortedT(conts) /\ NonOverlap(conts)
Laws ==
  CASE Kind = "contain" -> (Pre(c[1], c[2]) => FullyContainedI(c[1], c[2]) = FullyContainedDef(c[1], c[2]))
    [] Kind = "touch" -> \A w \in Windows : TouchI(c[1], c[2], w) = TouchDef(c[1], c[2], w)
                                           /\ ((\A j \in Idx(c[2]) : TouchDef(c[1], c[2], w)[j][1] <= TouchDef(c[1], c[2], w)[j][2])
                                               => TouchLaw(c[1], c[2], w))
    [] OTHER -> TRUE
Out ==
  CASE Kind = "contain" -> [things |-> c[1], conts |-> c[2],
                             sorted |-> (SortedT(c[1]) /\ SortedT(c[2])), pre |-> Pre(c[1], c[2]),
                             fc |-> IF Pre(c[1], c[2]) THEN FullyContainedDef(c[1], c[2]) ELSE <<>>]
    [] Kind = "touch" -> [things |-> c[1], conts |-> c[2], res |-> [w \in Windows |-> TouchDef(c[1], c[2], w)]]
    [] Kind = "gaps" -> [d |-> c, diff |-> DiffDef(c),
                          brk |-> IF Len(c) >= 2 THEN [s \in 0..3 |-> [nb \in {0, 2, G} |-> FindBreakDef(c, s, nb)]] ELSE <<>>]
    [] Kind = "prevnext" -> [things |-> c[1], ivs |-> c[2], res |-> PrevNextDef(c[1], c[2])]
    [] Kind = "overlap" -> [a |-> c, res |-> OverlapDef(c[1], c[2], c[3], c[4])]
    [] Kind = "sort" -> [x |-> c, perm |-> SortDef(c)]
Emit == PrintT(ToJson(Out))
=============================================================================
