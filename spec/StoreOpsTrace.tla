--------------------------- MODULE StoreOpsTrace ---------------------------
(* Trace validation for StoreOps.tla: histories of real storage operations (harness/c16.py).  After every
   operation each data directory is read back with the real backend; the event carries the operation with its
   arguments and, per location, the chunk edges, the row ids found in every chunk, the chunk metadata and the
   compressor.  A history is accepted iff every event is the corresponding StoreOps action and the real state is
   exactly the abstract state's image: rows where the edges say they are, metadata consistent with the files.  *)
EXTENDS StoreOps, Json, IOUtils, TLCExt

Traces == JsonDeserialize(IOEnv.TRACE_FILE)
NT == Len(Traces)
VARIABLES tid, pos
tvars == <<vars, tid, pos>>

Min(S) == CHOOSE x \in S : \A y \in S : x <= y
Max(S) == CHOOSE x \in S : \A y \in S : x >= y
\* the image of an abstract layout: what the real directory must look like
ChunkOK(E, j, rows, md) ==
  LET S == RowsOfChunk(E, j) IN
  /\ SeqToSet(rows) = S /\ Len(rows) = Cardinality(S) /\ \A i \in 1..(Len(rows) - 1) : rows[i] < rows[i + 1]
  /\ md.n = Cardinality(S) /\ md.s = E[j] /\ md.e = E[j + 1] /\ md.i = j - 1
  /\ (S # {} => /\ md.ft = Rows[Min(S)].s /\ md.fe = Rows[Min(S)].e /\ md.lt = Rows[Max(S)].s /\ md.le = Rows[Max(S)].e
                /\ md.file /\ md.nb = md.n * Traces[tid].itemsize)
LocOK(st, real) ==
  /\ real.present = st.present
  /\ st.present => /\ real.edges = st.E /\ real.comp = st.comp
                   /\ Len(real.rows) = Len(st.E) - 1 /\ Len(real.md) = Len(st.E) - 1
                   /\ \A j \in 1..(Len(st.E) - 1) : ChunkOK(st.E, j, real.rows[j], real.md[j])
                   /\ real.start = RunStart /\ real.end = RunEnd /\ real.ended /\ ~real.exc
Match(e) == \A k \in Locs : LocOK(store'[k], e.state[k])

Ev == Traces[tid].events[pos]
TraceInit == Init /\ tid \in 1..NT /\ pos = 1
TraceNext ==
  /\ pos <= Len(Traces[tid].events) /\ pos' = pos + 1 /\ tid' = tid
  /\ LET e == Ev IN
     /\ \/ e.op = "make" /\ Make(e.a)
        \/ e.op = "copy" /\ CopyTo(e.a, e.b, e.c, e.rc, e.state[e.b].edges)
        \/ e.op = "copyall" /\ CopyAllTo(e.a, e.c, e.rc, [l \in {k \in Locs \ {e.a} : ~store[k].present} |-> e.state[l].edges])
        \/ e.op = "rewrite" /\ RewriteTo(e.a, e.b, e.c, e.rc, e.state[e.b].edges)
        \/ e.op = "load" /\ Load(e.a) /\ e.loaded = [i \in 1..NR |-> i] /\ e.contig
     /\ Match(e)
TraceSpec == TraceInit /\ [][TraceNext]_tvars

ASSUME \A i \in 1..NT : TLCSet(i, 0)
Progress == IF pos > TLCGet(tid) THEN TLCSet(tid, pos) ELSE TRUE
Rejected == {i \in 1..NT : TLCGet(i) # Len(Traces[i].events) + 1}
AllAccepted == IF Rejected = {} THEN TRUE
               ELSE /\ \A i \in Rejected : PrintT(<<"REJECTED trace", i, "at event", TLCGet(i)>>)
                    /\ FALSE
=============================================================================
