---------------------------- MODULE OverlapWindow ----------------------------
(* OverlapWindowPlugin (strax/plugins/overlap_window_plugin.py): a plugin whose computation
   needs its input to extend a window (WL to the left, WR to the right) beyond each row.

   I-level: one action per do_compute call (prepend cached input, compute on what is there,
   drop what was already sent, withhold results that may still change, cache inputs) plus the
   final flush; for multi-output the cache_beyond alignment loop.
   The chunking of the input is chosen nondeterministically in Init (all law-abiding chunkings).

   P-level (C09): the concatenated output equals the window-local computation applied to the
   whole run, output chunks are contiguous and, for multi-output, mutually aligned.            *)
EXTENDS OverlapWindowP, Json

CONSTANTS MaxChunks

NullC == [s |-> 0, e |-> 0, rows |-> <<>>, null |-> TRUE]
MkC(s, e, rows) == [s |-> s, e |-> e, rows |-> rows, null |-> FALSE]
Concat(a, b) == IF a.null THEN b ELSE IF b.null THEN a ELSE MkC(a.s, b.e, a.rows \o b.rows)
\* Chunk.split; returns <<ok, left, right>>
Split(c, t, early) == LET u == SplitTimeDef(c, t, early) IN
                      IF u = -1 THEN <<FALSE, c, c>>
                      ELSE <<TRUE, MkC(c.s, u, LeftOf(c.rows, u)), MkC(u, c.e, RightOf(c.rows, u))>>

VARIABLES src, cachedIn, cachedRes, sentUntil, emitted, pc, err, src0
vars == <<src, cachedIn, cachedRes, sentUntil, emitted, pc, err, src0>>

Init == /\ src \in {MkChunks(Rows, bs, 0) : bs \in Chunkings(Rows, RunEnd, 0, MaxChunks, TRUE)}
        /\ cachedIn = NullC /\ cachedRes = [o \in Outs |-> NullC] /\ sentUntil = 0
        /\ emitted = <<>> /\ pc = "run" /\ err = "" /\ src0 = src

\* cache_beyond(io, prev_split, cached) for the outputs, in dict order a, b; <<ok, prev_split>>
RECURSIVE AlignLoop(_, _, _)
AlignLoop(res, ps, tries) ==
  IF tries = 0 THEN <<FALSE, ps>>
  ELSE LET ca == Split(res["a"], ps, TRUE)[3]
           ps1 == ca.s
           cb == IF Multi THEN Split(res["b"], ps1, TRUE)[3] ELSE ca
           ps2 == cb.s
       IN IF ca.s = cb.s THEN <<TRUE, ps2>> ELSE AlignLoop(res, ps2, tries - 1)

DoCompute ==
  /\ pc = "run" /\ src # <<>>
  /\ LET ch == Head(src)
         kw == Concat(cachedIn, MkC(ch.s, ch.e, ch.rows))
         invalidBeyond == kw.e - 2 * WR - 1
         full == [o \in Outs |-> MkC(kw.s, kw.e, Local(o, kw.rows))]
         dropped == [o \in Outs |-> Split(full[o], sentUntil, FALSE)]
     IN IF \E o \in Outs : ~dropped[o][1]
        THEN /\ pc' = "error" /\ err' = "CannotSplit at sent_until" /\ UNCHANGED <<src, cachedIn, cachedRes, sentUntil, emitted>>
        ELSE LET res == [o \in Outs |-> dropped[o][3]]
                 al == IF Multi THEN AlignLoop(res, invalidBeyond, 10)
                       ELSE <<TRUE, Split(res["a"], invalidBeyond, TRUE)[3].s>>
             IN IF ~al[1]
                THEN /\ pc' = "error" /\ err' = "start time inconsistency" /\ UNCHANGED <<src, cachedIn, cachedRes, sentUntil, emitted>>
                ELSE LET sp == [o \in Outs |-> Split(res[o], al[2], TRUE)]
                         cacheInputsBeyond == al[2] - 2 * WL - 1
                     IN IF Cardinality({sp[o][3].s : o \in Outs}) # 1
                        THEN /\ pc' = "error" /\ err' = "output start inconsistency" /\ UNCHANGED <<src, cachedIn, cachedRes, sentUntil, emitted>>
                        ELSE /\ emitted' = Append(emitted, [o \in Outs |-> sp[o][2]])
                             /\ cachedRes' = [o \in Outs |-> sp[o][3]]
                             /\ sentUntil' = sp["a"][3].s
                             /\ cachedIn' = Split(kw, sp["a"][3].s - 2 * WL - 1, TRUE)[3]
                             /\ src' = Tail(src) /\ UNCHANGED <<pc, err>>
  /\ UNCHANGED src0

FinalFlush ==
  /\ pc = "run" /\ src = <<>>
  /\ emitted' = Append(emitted, cachedRes) /\ pc' = "done"
  /\ UNCHANGED <<src, cachedIn, cachedRes, sentUntil, err, src0>>

Next == DoCompute \/ FinalFlush
Spec == Init /\ [][Next]_vars

(* P-level (C09): see OverlapWindowP.tla *)
NoError == pc # "error"
Contiguous == ContiguousOK(emitted)
Aligned == AlignedOK(emitted)
NothingDuplicated == \A o \in Outs : LET f == OutRows(emitted, o) IN Len(f) <= Len(Local(o, Rows)) /\ f = SubSeq(Local(o, Rows), 1, Len(f))
DoneOK == pc = "done" => PLevelDone(emitted)
Terminal == pc \in {"done", "error"}
Emit == Terminal => PrintT(ToJson([src0 |-> src0, emitted |-> emitted, err |-> err,
                                   expected |-> [o \in Outs |-> Local(o, Rows)]]))
=============================================================================
