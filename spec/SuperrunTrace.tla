--------------------------- MODULE SuperrunTrace ---------------------------
(* Trace validation for Superrun.tla: histories of define_run / get_iter / is_stored / new_context executed on a real
   context; a get event carries the rows delivered (as <<subrun, index>>) and the set of subruns recorded in the chunks'
   annotations.  A history is accepted iff every event is the corresponding action with exactly these observations.   *)
EXTENDS Superrun, Json, IOUtils, TLCExt

Traces == JsonDeserialize(IOEnv.TRACE_FILE)
NT == Len(Traces)
VARIABLES tid, pos
tvars == <<vars, tid, pos>>
ToSet(s) == {s[i] : i \in 1..Len(s)}
Ev == Traces[tid].events[pos]
TraceInit == Init /\ tid \in 1..NT /\ pos = 1 /\ write = Traces[tid].write
TraceNext ==
  /\ pos <= Len(Traces[tid].events) /\ pos' = pos + 1 /\ tid' = tid /\ len' = len
  /\ LET e == Ev IN
     \/ e.a = "define" /\ Define(ToSet(e.subs))
     \/ e.a = "get" /\ Get /\ e.rows = last'.rows /\ ToSet(e.annot) = last'.subs
     \/ e.a = "is_stored" /\ IsStored /\ e.is = last'.is
     \/ e.a = "new" /\ NewContext
TraceSpec == TraceInit /\ [][TraceNext]_tvars
ASSUME \A k \in 1..NT : TLCSet(k, 0)
Progress == IF pos > TLCGet(tid) THEN TLCSet(tid, pos) ELSE TRUE
Rejected == {k \in 1..NT : TLCGet(k) # Len(Traces[k].events) + 1}
AllAccepted == IF Rejected = {} THEN TRUE
               ELSE /\ \A k \in Rejected : PrintT(<<"REJECTED trace", k, "at event", TLCGet(k)>>)
                    /\ FALSE
=============================================================================
