-------------------------- MODULE OverlapWindowTrace --------------------------
(* P-level validation of recorded real executions of an OverlapWindowPlugin: each trace is the
   sequence of emissions (one chunk per output) obtained by driving the real plugin. *)
EXTENDS OverlapWindowP, Json, IOUtils
Traces == JsonDeserialize(IOEnv.TRACE_FILE)
VARIABLE tid
TInit == tid \in 1..Len(Traces)
TNext == UNCHANGED tid
TSpec == TInit /\ [][TNext]_tid
Accepted == Traces[tid].ok /\ PLevelDone(Traces[tid].emitted)
=============================================================================
