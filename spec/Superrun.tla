------------------------------ MODULE Superrun ------------------------------
(* Histories of superrun definition and use in one data directory (property C14): define_run (strax/run_selection.py: subruns
   ordered by run start, name normalised to a leading underscore), the data key of a superrun (Context.get_data_key: the key
   carries the subrun specification, so another definition is another key), on-the-fly combination of the subruns and writing
   of the combined data (write_superruns), is_stored, new_context.

   Subruns are numbers 1..NSub; subrun r holds the rows <<r, 1>> .. <<r, RowsPer>> and starts before subrun r + 1.
   A definition is a non-empty set of subruns; the superrun's content is its subruns' rows in order of run start.
   Nothing in a context remembers a definition (every access reads the run metadata): the state is the definition on
   disk and the stored copies, keyed by the definition they were made from.                                              *)
EXTENDS Naturals, Sequences, FiniteSets, TLC

CONSTANTS NSub, RowsPer, MaxLen

Subs == 1..NSub
Defs == (SUBSET Subs) \ {{}}
VARIABLES def,       \* the definition in the run metadata ({} = not defined)
          stored,    \* set of definitions under which combined data is stored
          write,     \* context option write_superruns
          last, len
vars == <<def, stored, write, last, len>>

RECURSIVE Ordered(_)
Ordered(S) == IF S = {} THEN <<>> ELSE LET m == CHOOSE x \in S : \A y \in S : x <= y IN <<m>> \o Ordered(S \ {m})
RowsOfSub(r) == [i \in 1..RowsPer |-> <<r, i>>]
RECURSIVE Concat(_)
Concat(seq) == IF seq = <<>> THEN <<>> ELSE RowsOfSub(Head(seq)) \o Concat(Tail(seq))
Content(S) == Concat(Ordered(S))

Init == def = {} /\ stored = {} /\ write \in BOOLEAN /\ last = [a |-> "none", rows |-> <<>>, subs |-> {}, is |-> FALSE] /\ len = 0
Define(S) == /\ def' = S /\ UNCHANGED <<stored, write>> /\ last' = [a |-> "define", rows |-> <<>>, subs |-> S, is |-> FALSE]
\* get_array / get_iter of the superrun: the ordered concatenation of the *current* definition; written iff write_superruns
Get == /\ def # {}
       /\ stored' = IF write THEN stored \cup {def} ELSE stored
       /\ UNCHANGED <<def, write>>
       /\ last' = [a |-> "get", rows |-> Content(def), subs |-> def, is |-> FALSE]
IsStored == /\ def # {} /\ UNCHANGED <<def, stored, write>>
            /\ last' = [a |-> "is_stored", rows |-> <<>>, subs |-> def, is |-> (def \in stored)]
NewContext == UNCHANGED <<def, stored, write>> /\ last' = [a |-> "new", rows |-> <<>>, subs |-> {}, is |-> FALSE]
Next == /\ len < MaxLen /\ len' = len + 1
        /\ (\E S \in Defs : Define(S)) \/ Get \/ IsStored \/ NewContext
Spec == Init /\ [][Next]_vars

(* ---------------------------------- P-level (C14) ---------------------------------- *)
\* what is delivered is exactly the ordered concatenation of the subruns of the definition in force, built from exactly those subruns
ExactConcatenation == last.a = "get" => last.rows = Content(def) /\ last.subs = def
\* data stored under an earlier definition is unavailable, not stale
RedefinedGone == last.a = "is_stored" => (last.is <=> def \in stored)
OrderedByStart == last.a = "get" => \A i \in 1..(Len(last.rows) - 1) : last.rows[i][1] <= last.rows[i + 1][1]
=============================================================================
