------------------------------ MODULE Pipeline ------------------------------
(* The exception relay of the threaded processor (property C06, strax/processors/threaded_mailbox.py,
   strax/mailbox.py kill / kill_from_exception / send / _read / _send_from, strax/storage/common.py
   Saver.save_from) for a chain of NS stages: stage 1 is a source plugin, stage i > 1 reads mailbox i-1,
   every stage i writes mailbox i; mailbox i is read by stage i+1 (if any, reader "P"), by a saver (if
   i \in Saved, reader "S") and, for i = NS, by the main thread (the consumer of get_iter, reader "M").

   Mailbox operations are atomic here (one action per locked section; blocking = not enabled); the
   condition-variable level underneath is the subject of Mailbox.tla, which is bisimulated with the real
   strax.Mailbox (C05).  What this module adds is who kills which mailbox with which reason, who wakes
   up, and what the caller gets.  It is bound to the real processor by PipelineTrace.tla.

   Fail selects one injected failure: <<"stage", i, k>> (stage i raises while computing its k-th chunk),
   <<"saver", i, k>>, <<"close", i, 0>> (saver i fails while closing), <<"consumer", 0, k>> / <<"stop", 0, k>>
   (the consumer raises / closes the iterator after k chunks: either way the generator of get_iter is closed
   and context.get_iter throws OutsideException into the processor), <<"pause", 0, k>> (the consumer holds the iterator after
   k chunks and never pulls again: property C13) or <<"none", 0, 0>>.
   Reasons: "orig" = the injected exception, "stop" = OutsideException.                               *)
EXTENDS Naturals, Sequences, FiniteSets, TLC

CONSTANTS NS, NChunks, Saved,
          CapSet, LazySet, FailSet,    \* the run's parameters (cap, lazy, fail) are chosen once in Init and never change
          Backpressure, \* TRUE: a sender waits while its mailbox is full (as the code does); FALSE only to show that the C13 bounds
                        \* below depend on it (vacuity guard)
          MainKills     \* TRUE: the main thread kills every mailbox when it has an exception (as the code does); FALSE only to show
                        \* that the properties below depend on it (vacuity guard)

Stages == 1..NS
Readers(m) == (IF m < NS THEN {"P"} ELSE {"M"}) \cup (IF m \in Saved THEN {"S"} ELSE {})

VARIABLES sent, ended, killed, force, reason,            \* mailboxes: messages pushed, END pushed, killed / force_killed, killed_because
          rd, lb,                                        \* rd[m][r]: messages grabbed by reader r (_subscribers_have_read + 1); lb: grabbed, not yet yielded
          waiting,                                       \* waiting[m][r]: _subscriber_waiting_for[r] is not None
          spc, sk,                                       \* stage pc and number of chunks it has produced
          vpc, vk, gotExc,                               \* saver pc, chunks saved, got_exception
          mpc, mk, exc, outcome, toKill,
          cap, lazy, fail                                \* parameters of the run: max_messages, lazy mode, the injected failure
Cap == cap
Lazy == lazy
Fail == fail
params == <<cap, lazy, fail>>
Drives(r) == r # "S" \/ ~Lazy           \* savers of built data do not drive in lazy mode
vars == <<sent, ended, killed, force, reason, rd, lb, waiting, spc, sk, vpc, vk, gotExc, mpc, mk, exc, outcome, toKill, cap, lazy, fail>>

Min(T) == CHOOSE x \in T : \A y \in T : x <= y
Total(m) == sent[m] + (IF ended[m] THEN 1 ELSE 0)
MinRead(m) == Min({rd[m][r] : r \in Readers(m)})
Held(m) == Total(m) - MinRead(m)                          \* len(_mailbox): messages not yet grabbed by every subscriber
CanWrite(m) == Held(m) < Cap \/ killed[m] \/ ~Backpressure
Available(m, r) == rd[m][r] < Total(m)
\* Mailbox._can_fetch: nobody is still waiting for a message that is already there, and a driving subscriber waits
CanFetch(m) == killed[m] \/ (/\ ~\E r \in Readers(m) : waiting[m][r] /\ Available(m, r)
                             /\ \E r \in Readers(m) : Drives(r) /\ waiting[m][r])

Init == /\ cap \in CapSet /\ lazy \in LazySet /\ fail \in FailSet
        /\ sent = [m \in Stages |-> 0] /\ ended = [m \in Stages |-> FALSE] /\ killed = [m \in Stages |-> FALSE]
        /\ force = [m \in Stages |-> FALSE] /\ reason = [m \in Stages |-> "none"]
        /\ rd = [m \in Stages |-> [r \in Readers(m) |-> 0]] /\ lb = [m \in Stages |-> [r \in Readers(m) |-> 0]]
        /\ waiting = [m \in Stages |-> [r \in Readers(m) |-> FALSE]]
        /\ spc = [i \in Stages |-> IF Lazy THEN "gate" ELSE "fetch"] /\ sk = [i \in Stages |-> 0]
        /\ vpc = [i \in Stages |-> IF i \in Saved THEN "read" ELSE "done"] /\ vk = [i \in Stages |-> 0] /\ gotExc = [i \in Stages |-> FALSE]
        /\ mpc = "read" /\ mk = 0 /\ exc = "none" /\ outcome = "running" /\ toKill = {}

\* Mailbox.kill(upstream=True, reason)
KillOf(m, why, kd, fc, rs) == <<[kd EXCEPT ![m] = TRUE], [fc EXCEPT ![m] = TRUE], IF kd[m] THEN rs ELSE [rs EXCEPT ![m] = why]>>

(* ------------------------------- Mailbox._read, as seen by reader r of mailbox m -------------------------------
   One locked section per visit: not ready -> register as waiting and sleep (Ask); killed -> MailboxKilled (Killed);
   otherwise grab every message that is there (Grab) and yield them one by one without looking at the mailbox
   again (Local).  Item n is a chunk iff n <= sent[m], else the END marker.                                        *)
ReadAsk(m, r) == /\ lb[m][r] = 0 /\ ~waiting[m][r] /\ ~Available(m, r) /\ ~killed[m]
                 /\ waiting' = [waiting EXCEPT ![m][r] = TRUE] /\ UNCHANGED <<rd, lb>>
ReadKilled(m, r) == /\ lb[m][r] = 0 /\ killed[m]
                    /\ waiting' = [waiting EXCEPT ![m][r] = FALSE] /\ UNCHANGED <<rd, lb>>
ReadGrab(m, r) == /\ lb[m][r] = 0 /\ ~killed[m] /\ Available(m, r)
                  /\ rd' = [rd EXCEPT ![m][r] = Total(m)] /\ lb' = [lb EXCEPT ![m][r] = Total(m) - rd[m][r] - 1]
                  /\ waiting' = [waiting EXCEPT ![m][r] = FALSE]
ReadLocal(m, r) == /\ lb[m][r] > 0 /\ lb' = [lb EXCEPT ![m][r] = @ - 1] /\ UNCHANGED <<rd, waiting>>
ReadItem(m, r) == ReadGrab(m, r) \/ ReadLocal(m, r)
ItemIsChunk(m, r) == (IF lb[m][r] > 0 THEN rd[m][r] - lb[m][r] + 1 ELSE rd[m][r] + 1) <= sent[m]

(* ------------------------------- stage i: _send_from(mailbox i) over plugin.iter ------------------------------- *)
StageGate(i) == /\ spc[i] = "gate" /\ CanFetch(i) /\ spc' = [spc EXCEPT ![i] = "fetch"]
                /\ UNCHANGED <<sent, ended, killed, force, reason, rd, lb, waiting, sk, vpc, vk, gotExc, mpc, mk, exc, outcome, toKill>>
\* next(iterable): a source computes; a plugin first asks its input mailbox for the next chunk
StageAsk(i) == /\ spc[i] = "fetch" /\ i > 1 /\ ReadAsk(i - 1, "P")
               /\ UNCHANGED <<sent, ended, killed, force, reason, spc, sk, vpc, vk, gotExc, mpc, mk, exc, outcome, toKill>>
StageFetch(i) ==
  /\ spc[i] = "fetch"
  /\ IF i = 1 THEN
        /\ spc' = [spc EXCEPT ![i] = IF sk[i] < NChunks THEN "compute" ELSE "close"]
        /\ UNCHANGED <<killed, force, reason, rd, lb, waiting>>
     ELSE LET m == i - 1 IN
        \/ /\ ReadKilled(m, "P")       \* MailboxKilled(killed_because) is raised into plugin.iter and out of next(iterable)
           /\ spc' = [spc EXCEPT ![i] = "relay"] /\ UNCHANGED <<killed, force, reason>>
        \/ /\ ReadItem(m, "P")
           /\ spc' = [spc EXCEPT ![i] = IF ItemIsChunk(m, "P") THEN "compute" ELSE "close"]
           /\ UNCHANGED <<killed, force, reason>>
  /\ UNCHANGED <<sent, ended, sk, vpc, vk, gotExc, mpc, mk, exc, outcome, toKill>>
\* _send_from: except Exception -> kill_from_exception(MailboxKilled): kill my own mailbox with the same reason (a second locked
\* section, on the stage's own mailbox), end quietly
StageRelay(i) ==
  /\ spc[i] = "relay"
  /\ LET k == KillOf(i, reason[i - 1], killed, force, reason) IN killed' = k[1] /\ force' = k[2] /\ reason' = k[3]
  /\ spc' = [spc EXCEPT ![i] = "done"]
  /\ UNCHANGED <<sent, ended, rd, lb, waiting, sk, vpc, vk, gotExc, mpc, mk, exc, outcome, toKill>>
StageCompute(i) ==
  /\ spc[i] = "compute"
  /\ IF Fail = <<"stage", i, sk[i]>> THEN       \* kill_from_exception(e): kill my mailbox with the original exception, thread raises
        LET k == KillOf(i, "orig", killed, force, reason) IN
        killed' = k[1] /\ force' = k[2] /\ reason' = k[3] /\ spc' = [spc EXCEPT ![i] = "done"]
     ELSE spc' = [spc EXCEPT ![i] = "send"] /\ UNCHANGED <<killed, force, reason>>
  /\ UNCHANGED <<sent, ended, rd, lb, waiting, sk, vpc, vk, gotExc, mpc, mk, exc, outcome, toKill>>
StageSend(i) ==
  /\ spc[i] \in {"send", "close"}
  /\ IF force[i] THEN        \* send raises MailboxKilled: the source is told (throw), own mailbox is already killed
        /\ spc' = [spc EXCEPT ![i] = "done"] /\ UNCHANGED <<sent, ended, sk>>
     ELSE IF killed[i] THEN  \* message lost
        /\ spc' = [spc EXCEPT ![i] = IF spc[i] = "close" THEN "done" ELSE IF Lazy THEN "gate" ELSE "fetch"]
        /\ sk' = [sk EXCEPT ![i] = IF spc[i] = "send" THEN @ + 1 ELSE @] /\ UNCHANGED <<sent, ended>>
     ELSE /\ CanWrite(i)
          /\ IF spc[i] = "send" THEN sent' = [sent EXCEPT ![i] = @ + 1] /\ sk' = [sk EXCEPT ![i] = @ + 1] /\ UNCHANGED ended
             ELSE ended' = [ended EXCEPT ![i] = TRUE] /\ UNCHANGED <<sent, sk>>
          /\ spc' = [spc EXCEPT ![i] = IF spc[i] = "close" THEN "done" ELSE IF Lazy THEN "gate" ELSE "fetch"]
  /\ UNCHANGED <<killed, force, reason, rd, lb, waiting, vpc, vk, gotExc, mpc, mk, exc, outcome, toKill>>
StageNext(i) == (StageGate(i) \/ StageAsk(i) \/ StageFetch(i) \/ StageRelay(i) \/ StageCompute(i) \/ StageSend(i)) /\ UNCHANGED params

(* ------------------------------- saver of mailbox i: Saver.save_from ------------------------------- *)
SaverAsk(i) == /\ vpc[i] = "read" /\ ReadAsk(i, "S")
               /\ UNCHANGED <<sent, ended, killed, force, reason, spc, sk, vpc, vk, gotExc, mpc, mk, exc, outcome, toKill>>
SaverRead(i) ==
  /\ vpc[i] = "read"
  /\ \/ ReadKilled(i, "S") /\ vpc' = [vpc EXCEPT ![i] = "done"]        \* MailboxKilled: close with exception, exit gracefully
     \/ ReadItem(i, "S") /\ vpc' = [vpc EXCEPT ![i] = IF ItemIsChunk(i, "S") THEN "save" ELSE "close"]
  /\ UNCHANGED <<sent, ended, killed, force, reason, spc, sk, vk, gotExc, mpc, mk, exc, outcome, toKill>>
SaverSave(i) ==
  /\ vpc[i] \in {"save", "close"}
  /\ IF (vpc[i] = "save" /\ Fail = <<"saver", i, vk[i]>>) \/ (vpc[i] = "close" /\ Fail = <<"close", i, 0>>) THEN
        \* got_exception = e; for a failing save the exception is thrown back into the mailbox (kill_from_exception)
        /\ gotExc' = [gotExc EXCEPT ![i] = TRUE] /\ vpc' = [vpc EXCEPT ![i] = "done"] /\ UNCHANGED vk
        /\ IF vpc[i] = "save" THEN LET k == KillOf(i, "orig", killed, force, reason) IN killed' = k[1] /\ force' = k[2] /\ reason' = k[3]
           ELSE UNCHANGED <<killed, force, reason>>
     ELSE /\ vpc' = [vpc EXCEPT ![i] = IF vpc[i] = "save" THEN "read" ELSE "done"] /\ vk' = [vk EXCEPT ![i] = IF vpc[i] = "save" THEN @ + 1 ELSE @]
          /\ UNCHANGED <<gotExc, killed, force, reason>>
  /\ UNCHANGED <<sent, ended, rd, lb, waiting, spc, sk, mpc, mk, exc, outcome, toKill>>
SaverNext(i) == (SaverAsk(i) \/ SaverRead(i) \/ SaverSave(i)) /\ UNCHANGED params

(* ------------------------------- main thread: ThreadedMailboxProcessor.iter ------------------------------- *)
MainAsk == /\ mpc = "read" /\ ReadAsk(NS, "M")
           /\ UNCHANGED <<sent, ended, killed, force, reason, spc, sk, vpc, vk, gotExc, mpc, mk, exc, outcome, toKill>>
MainRead ==
  /\ mpc = "read"
  /\ \/ ReadKilled(NS, "M") /\ mpc' = "killall" /\ exc' = reason[NS] /\ toKill' = Stages /\ UNCHANGED mk
     \/ /\ ReadItem(NS, "M")
        /\ IF ItemIsChunk(NS, "M") THEN mpc' = "consume" /\ mk' = mk + 1 ELSE mpc' = "join" /\ mk' = mk
        /\ UNCHANGED <<exc, toKill>>
  /\ UNCHANGED <<sent, ended, killed, force, reason, spc, sk, vpc, vk, gotExc, outcome>>
MainConsume ==
  /\ mpc = "consume"
  /\ IF Fail \in {<<"consumer", 0, mk>>, <<"stop", 0, mk>>} THEN
        \* the generator of get_iter is closed: OutsideException is thrown into the target's _read at its yield
        \* -> kill_from_exception on the target mailbox, re-raised into ThreadedMailboxProcessor.iter
        LET k == KillOf(NS, "stop", killed, force, reason) IN
        killed' = k[1] /\ force' = k[2] /\ reason' = k[3] /\ exc' = "stop" /\ mpc' = "killall" /\ toKill' = Stages
     ELSE IF Fail = <<"pause", 0, mk>> THEN mpc' = "paused" /\ UNCHANGED <<killed, force, reason, exc, toKill>>      \* never pulls again
     ELSE mpc' = "read" /\ UNCHANGED <<killed, force, reason, exc, toKill>>
  /\ UNCHANGED <<sent, ended, rd, lb, waiting, spc, sk, vpc, vk, gotExc, mk, outcome>>
MainKill(m) ==      \* for m in mailboxes.values(): m.kill(upstream=True, reason)   (in dict order; any order here)
  /\ mpc = "killall" /\ m \in toKill
  /\ IF MainKills THEN LET k == KillOf(m, exc, killed, force, reason) IN killed' = k[1] /\ force' = k[2] /\ reason' = k[3]
     ELSE UNCHANGED <<killed, force, reason>>
  /\ toKill' = toKill \ {m} /\ mpc' = IF toKill = {m} THEN "join" ELSE mpc
  /\ UNCHANGED <<sent, ended, rd, lb, waiting, spc, sk, vpc, vk, gotExc, mk, exc, outcome>>
AllThreadsDone == (\A i \in Stages : spc[i] = "done") /\ (\A i \in Stages : vpc[i] = "done")
MainJoin ==      \* m.cleanup(): join every thread; then re-raise, or look at the savers' got_exception
  /\ mpc = "join" /\ AllThreadsDone
  /\ mpc' = "end"
  /\ outcome' = IF exc # "none" THEN exc ELSE IF \E i \in Stages : gotExc[i] THEN "orig" ELSE "returned"
  /\ UNCHANGED <<sent, ended, killed, force, reason, rd, lb, waiting, spc, sk, vpc, vk, gotExc, mk, exc, toKill>>
MainNext == (MainAsk \/ MainRead \/ MainConsume \/ (\E m \in Stages : MainKill(m)) \/ MainJoin) /\ UNCHANGED params

Next == (\E i \in Stages : StageNext(i)) \/ (\E i \in Saved : SaverNext(i)) \/ MainNext
Spec == Init /\ [][Next]_vars /\ WF_vars(Next)

(* ---------------------------------- P-level (C06) ---------------------------------- *)
Finished == mpc = "end"
Paused == mpc = "paused"
NoDeadlock == Finished \/ Paused \/ ENABLED Next
EveryoneStops == Finished => AllThreadsDone
CallerOutcome == Finished =>
   CASE Fail[1] = "none" -> outcome = "returned" /\ mk = NChunks
     [] Fail[1] \in {"stop", "consumer"} -> outcome = "stop"     \* the pipeline side; the consumer's own exception is its own business
     [] Fail[1] = "pause" -> TRUE
     [] OTHER -> outcome = "orig"                   \* the original exception, never "returned", never another reason
EagerCap == \A m \in Stages : Held(m) <= Cap
Terminates == <>(Finished \/ Paused)
(* ---------------------------------- P-level (C13) ---------------------------------- *)
\* when the consumer stops pulling after k chunks the source produces at most k + Bound further chunks, Bound depending only on
\* the graph and the capacity (every mailbox: cap buffered + cap in the reader's hands, plus one chunk in work per stage), not on NChunks
PauseBound == Fail[1] = "pause" => sk[1] <= Fail[3] + NS * (2 * Cap + 1)
\* lazy mode: a stage passes its gate only while a driving reader of its mailbox waits for a message that is not there (or after a kill)
LazyDemand == [][\A i \in Stages : (Lazy /\ spc[i] = "gate" /\ spc'[i] = "fetch") => CanFetch(i)]_vars
=============================================================================
