------------------------------ MODULE Pipeline ------------------------------
(* The exception relay of the threaded processor (property C06, strax/processors/threaded_mailbox.py,
   strax/mailbox.py kill / kill_from_exception / send / _read, strax/storage/common.py Saver.save_from)
   for a chain of NS stages: stage 1 is a source plugin, stage i > 1 reads mailbox i-1, every stage i
   writes mailbox i; mailbox i is read by stage i+1 (if any), by a saver (if i \in Saved) and, for
   i = NS, by the main thread (the consumer of get_iter).

   Mailbox operations are atomic here (blocking = not enabled); the condition-variable level underneath
   is the subject of Mailbox.tla, which is bisimulated with the real strax.Mailbox (C05).  What this
   module adds is who kills which mailbox with which reason, who wakes up, and what the caller gets.

   Fail selects one injected failure: <<"stage", i, k>> (stage i raises while computing its k-th chunk),
   <<"saver", i, k>>, <<"close", i, 0>> (saver i fails while closing), <<"consumer", 0, k>> (the consumer
   raises after k chunks), <<"stop", 0, k>> (the consumer closes the iterator after k chunks) or
   <<"none", 0, 0>>.  Reasons: "orig" = the injected exception.                                      *)
EXTENDS Naturals, Sequences, FiniteSets, TLC

CONSTANTS NS, NChunks, Cap, Lazy, Saved, Fail,
          MainKills     \* TRUE: the main thread kills every mailbox when it has an exception (as the code does); FALSE only to show
                        \* that the properties below depend on it (vacuity guard)

Stages == 1..NS
Readers(m) == (IF m < NS THEN {"P"} ELSE {"M"}) \cup (IF m \in Saved THEN {"S"} ELSE {})
Drives(r) == r # "S" \/ ~Lazy           \* savers do not drive in lazy mode

VARIABLES sent, ended, killed, force, reason, rd,       \* mailboxes: messages pushed, END pushed, kill flags, who read how much
          waiting,                                       \* waiting[m][r]: reader r is blocked asking for the next message of m
          spc, sk,                                       \* stage pc and number of chunks it has produced
          vpc, vk, gotExc,                               \* saver pc, chunks saved, got_exception
          mpc, mk, exc, outcome, killIdx
vars == <<sent, ended, killed, force, reason, rd, waiting, spc, sk, vpc, vk, gotExc, mpc, mk, exc, outcome, killIdx>>

Min(T) == CHOOSE x \in T : \A y \in T : x <= y
Total(m) == sent[m] + (IF ended[m] THEN 1 ELSE 0)
MinRead(m) == Min({rd[m][r] : r \in Readers(m)})
Held(m) == Total(m) - MinRead(m)                          \* undelivered messages buffered
CanWrite(m) == Lazy \/ Held(m) < Cap \/ killed[m]
CanFetch(m) == killed[m] \/ \E r \in Readers(m) : Drives(r) /\ waiting[m][r] /\ rd[m][r] = Total(m)
Available(m, r) == rd[m][r] < Total(m)

Init == /\ sent = [m \in Stages |-> 0] /\ ended = [m \in Stages |-> FALSE] /\ killed = [m \in Stages |-> FALSE]
        /\ force = [m \in Stages |-> FALSE] /\ reason = [m \in Stages |-> "none"]
        /\ rd = [m \in Stages |-> [r \in Readers(m) |-> 0]] /\ waiting = [m \in Stages |-> [r \in Readers(m) |-> FALSE]]
        /\ spc = [i \in Stages |-> IF Lazy THEN "gate" ELSE "fetch"] /\ sk = [i \in Stages |-> 0]
        /\ vpc = [i \in Stages |-> IF i \in Saved THEN "read" ELSE "done"] /\ vk = [i \in Stages |-> 0] /\ gotExc = [i \in Stages |-> FALSE]
        /\ mpc = "read" /\ mk = 0 /\ exc = "none" /\ outcome = "running" /\ killIdx = 1

\* Mailbox.kill(upstream=True, reason)
KillOf(m, why, kd, fc, rs) == <<[kd EXCEPT ![m] = TRUE], [fc EXCEPT ![m] = TRUE], IF kd[m] THEN rs ELSE [rs EXCEPT ![m] = why]>>

(* ------------------------------- stage i: _send_from(mailbox i) over plugin.iter ------------------------------- *)
StageGate(i) == /\ spc[i] = "gate" /\ CanFetch(i) /\ spc' = [spc EXCEPT ![i] = "fetch"]
                /\ UNCHANGED <<sent, ended, killed, force, reason, rd, waiting, sk, vpc, vk, gotExc, mpc, mk, exc, outcome, killIdx>>
\* next(iterable): a source computes; a plugin first asks its input mailbox for the next chunk
StageAsk(i) == /\ spc[i] = "fetch" /\ i > 1 /\ ~waiting[i - 1]["P"]
               /\ waiting' = [waiting EXCEPT ![i - 1]["P"] = TRUE]
               /\ UNCHANGED <<sent, ended, killed, force, reason, rd, spc, sk, vpc, vk, gotExc, mpc, mk, exc, outcome, killIdx>>
StageFetch(i) ==
  /\ spc[i] = "fetch"
  /\ IF i = 1 THEN
        /\ spc' = [spc EXCEPT ![i] = IF sk[i] < NChunks THEN "compute" ELSE "close"]
        /\ UNCHANGED <<killed, force, reason, rd, waiting>>
     ELSE LET m == i - 1 IN
        /\ waiting[m]["P"]
        /\ IF killed[m] THEN          \* MailboxKilled travels downstream: kill my own mailbox with the same reason, end quietly
              LET k == KillOf(i, reason[m], killed, force, reason) IN
              /\ killed' = k[1] /\ force' = k[2] /\ reason' = k[3] /\ spc' = [spc EXCEPT ![i] = "done"]
              /\ waiting' = [waiting EXCEPT ![m]["P"] = FALSE] /\ UNCHANGED rd
           ELSE /\ Available(m, "P")
                /\ rd' = [rd EXCEPT ![m]["P"] = @ + 1] /\ waiting' = [waiting EXCEPT ![m]["P"] = FALSE]
                /\ spc' = [spc EXCEPT ![i] = IF rd[m]["P"] < sent[m] THEN "compute" ELSE "close"]    \* a chunk, or the END marker
                /\ UNCHANGED <<killed, force, reason>>
  /\ UNCHANGED <<sent, ended, sk, vpc, vk, gotExc, mpc, mk, exc, outcome, killIdx>>
StageCompute(i) ==
  /\ spc[i] = "compute"
  /\ IF Fail = <<"stage", i, sk[i]>> THEN       \* kill_from_exception(e): kill my mailbox with the original exception, thread raises
        LET k == KillOf(i, "orig", killed, force, reason) IN
        killed' = k[1] /\ force' = k[2] /\ reason' = k[3] /\ spc' = [spc EXCEPT ![i] = "done"]
     ELSE spc' = [spc EXCEPT ![i] = "send"] /\ UNCHANGED <<killed, force, reason>>
  /\ UNCHANGED <<sent, ended, rd, waiting, sk, vpc, vk, gotExc, mpc, mk, exc, outcome, killIdx>>
StageSend(i) ==
  /\ spc[i] \in {"send", "close"}
  /\ IF force[i] THEN        \* send raises MailboxKilled: the source is told (throw), own mailbox is already killed
        /\ spc' = [spc EXCEPT ![i] = "done"] /\ UNCHANGED <<sent, ended, sk>>
     ELSE IF killed[i] THEN  \* message lost
        /\ spc' = [spc EXCEPT ![i] = IF spc[i] = "close" THEN "done" ELSE IF Lazy THEN "gate" ELSE "fetch"]
        /\ sk' = [sk EXCEPT ![i] = IF spc[i] = "send" THEN @ + 1 ELSE @] /\ UNCHANGED <<sent, ended>>
     ELSE /\ CanWrite(i)
          /\ IF spc[i] = "send" THEN sent' = [sent EXCEPT ![i] = @ + 1] /\ sk' = [sk EXCEPT ![i] = @ + 1] /\ UNCHANGED ended
             ELSE ended' = [ended EXCEPT ![i] = TRUE] /\ UNCHANGED <<sent, sk>>
          /\ spc' = [spc EXCEPT ![i] = IF spc[i] = "close" THEN "done" ELSE IF Lazy THEN "gate" ELSE "fetch"]
  /\ UNCHANGED <<killed, force, reason, rd, waiting, vpc, vk, gotExc, mpc, mk, exc, outcome, killIdx>>

(* ------------------------------- saver of mailbox i: Saver.save_from ------------------------------- *)
SaverAsk(i) == /\ vpc[i] = "read" /\ ~waiting[i]["S"] /\ waiting' = [waiting EXCEPT ![i]["S"] = TRUE]
               /\ UNCHANGED <<sent, ended, killed, force, reason, rd, spc, sk, vpc, vk, gotExc, mpc, mk, exc, outcome, killIdx>>
SaverRead(i) ==
  /\ vpc[i] = "read" /\ waiting[i]["S"]
  /\ IF killed[i] THEN vpc' = [vpc EXCEPT ![i] = "done"] /\ UNCHANGED rd        \* MailboxKilled: close with exception, exit gracefully
     ELSE /\ Available(i, "S") /\ rd' = [rd EXCEPT ![i]["S"] = @ + 1]
          /\ vpc' = [vpc EXCEPT ![i] = IF rd[i]["S"] < sent[i] THEN "save" ELSE "close"]
  /\ waiting' = [waiting EXCEPT ![i]["S"] = FALSE]
  /\ UNCHANGED <<sent, ended, killed, force, reason, spc, sk, vk, gotExc, mpc, mk, exc, outcome, killIdx>>
SaverSave(i) ==
  /\ vpc[i] \in {"save", "close"}
  /\ IF (vpc[i] = "save" /\ Fail = <<"saver", i, vk[i]>>) \/ (vpc[i] = "close" /\ Fail = <<"close", i, 0>>) THEN
        \* got_exception = e; for a failing save the exception is thrown back into the mailbox (kill_from_exception)
        /\ gotExc' = [gotExc EXCEPT ![i] = TRUE] /\ vpc' = [vpc EXCEPT ![i] = "done"] /\ UNCHANGED vk
        /\ IF vpc[i] = "save" THEN LET k == KillOf(i, "orig", killed, force, reason) IN killed' = k[1] /\ force' = k[2] /\ reason' = k[3]
           ELSE UNCHANGED <<killed, force, reason>>
     ELSE /\ vpc' = [vpc EXCEPT ![i] = IF vpc[i] = "save" THEN "read" ELSE "done"] /\ vk' = [vk EXCEPT ![i] = IF vpc[i] = "save" THEN @ + 1 ELSE @]
          /\ UNCHANGED <<gotExc, killed, force, reason>>
  /\ UNCHANGED <<sent, ended, rd, waiting, spc, sk, mpc, mk, exc, outcome, killIdx>>

(* ------------------------------- main thread: ThreadedMailboxProcessor.iter ------------------------------- *)
MainAsk == /\ mpc = "read" /\ ~waiting[NS]["M"] /\ waiting' = [waiting EXCEPT ![NS]["M"] = TRUE]
           /\ UNCHANGED <<sent, ended, killed, force, reason, rd, spc, sk, vpc, vk, gotExc, mpc, mk, exc, outcome, killIdx>>
MainRead ==
  /\ mpc = "read" /\ waiting[NS]["M"]
  /\ IF killed[NS] THEN mpc' = "killall" /\ exc' = reason[NS] /\ UNCHANGED <<rd, mk>>
     ELSE /\ Available(NS, "M") /\ rd' = [rd EXCEPT ![NS]["M"] = @ + 1]
          /\ IF rd[NS]["M"] < sent[NS] THEN mpc' = "consume" /\ mk' = mk + 1 ELSE mpc' = "join" /\ mk' = mk
          /\ UNCHANGED exc
  /\ waiting' = [waiting EXCEPT ![NS]["M"] = FALSE]
  /\ UNCHANGED <<sent, ended, killed, force, reason, spc, sk, vpc, vk, gotExc, outcome, killIdx>>
MainConsume ==
  /\ mpc = "consume"
  /\ IF Fail = <<"consumer", 0, mk>> THEN       \* thrown into the target's generator: kill_from_exception on the target mailbox
        LET k == KillOf(NS, "orig", killed, force, reason) IN
        killed' = k[1] /\ force' = k[2] /\ reason' = k[3] /\ exc' = "orig" /\ mpc' = "killall"
     ELSE IF Fail = <<"stop", 0, mk>> THEN mpc' = "killall" /\ exc' = "stop" /\ UNCHANGED <<killed, force, reason>>
     ELSE mpc' = "read" /\ UNCHANGED <<killed, force, reason, exc>>
  /\ UNCHANGED <<sent, ended, rd, waiting, spc, sk, vpc, vk, gotExc, mk, outcome, killIdx>>
MainKill ==      \* for m in mailboxes: m.kill(upstream=True, reason)
  /\ mpc = "killall"
  /\ IF MainKills THEN LET k == KillOf(killIdx, exc, killed, force, reason) IN killed' = k[1] /\ force' = k[2] /\ reason' = k[3]
     ELSE UNCHANGED <<killed, force, reason>>
  /\ IF killIdx = NS THEN mpc' = "join" /\ killIdx' = killIdx ELSE killIdx' = killIdx + 1 /\ mpc' = mpc
  /\ UNCHANGED <<sent, ended, rd, waiting, spc, sk, vpc, vk, gotExc, mk, exc, outcome>>
AllThreadsDone == (\A i \in Stages : spc[i] = "done") /\ (\A i \in Stages : vpc[i] = "done")
MainJoin ==      \* m.cleanup(): join every thread; then re-raise, or look at the savers' got_exception
  /\ mpc = "join" /\ AllThreadsDone
  /\ mpc' = "end"
  /\ outcome' = IF exc # "none" THEN exc ELSE IF \E i \in Stages : gotExc[i] THEN "orig" ELSE "returned"
  /\ UNCHANGED <<sent, ended, killed, force, reason, rd, waiting, spc, sk, vpc, vk, gotExc, mk, exc, killIdx>>

Next == \/ \E i \in Stages : StageGate(i) \/ StageAsk(i) \/ StageFetch(i) \/ StageCompute(i) \/ StageSend(i)
        \/ \E i \in Saved : SaverAsk(i) \/ SaverRead(i) \/ SaverSave(i)
        \/ MainAsk \/ MainRead \/ MainConsume \/ MainKill \/ MainJoin
Spec == Init /\ [][Next]_vars /\ WF_vars(Next)

(* ---------------------------------- P-level (C06) ---------------------------------- *)
Finished == mpc = "end"
NoDeadlock == Finished \/ ENABLED Next
EveryoneStops == Finished => AllThreadsDone
CallerOutcome == Finished =>
   CASE Fail[1] = "none" -> outcome = "returned" /\ mk = NChunks
     [] Fail[1] = "stop" -> outcome = "stop"
     [] OTHER -> outcome = "orig"                   \* the original exception, never "returned", never another reason
EagerCap == ~Lazy => \A m \in Stages : Held(m) <= Cap
Terminates == <>Finished
=============================================================================
