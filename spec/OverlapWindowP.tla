---------------------------- MODULE OverlapWindowP ----------------------------
(* P-level of property C09 and the window-local computations used by the model and by the
   harness plugins.  Predicates are over a sequence of emissions es (each [o |-> chunk]) so that
   they judge both the I-level model (OverlapWindow.tla) and recorded real runs.              *)
EXTENDS Chunks

CONSTANTS Rows,      \* input rows <<t, e>>: disjoint, sorted, t < e
          RunEnd,
          WL, WR,    \* window
          Multi      \* FALSE: one output (family A);  TRUE: two outputs (families A and B)

(* ---- window-local computations on a set of rows (what compute sees) ---- *)
\* family A, one row per input row: how many rows lie wholly within [t - WL, e + WR]
LocalA(rows) == [i \in 1..Len(rows) |->
                  <<rows[i][1], rows[i][2],
                    Cardinality({j \in 1..Len(rows) : rows[j][1] >= rows[i][1] - WL /\ rows[j][2] <= rows[i][2] + WR})>>]
\* family B, one row per group leader: a row with no other row starting within WL before it;
\* it carries the number of rows that follow it within WR
Leader(rows, i) == ~\E j \in 1..Len(rows) : j # i /\ rows[j][1] < rows[i][1] /\ rows[j][1] >= rows[i][1] - WL
LocalB(rows) == LET all == [i \in 1..Len(rows) |->
                              <<rows[i][1], rows[i][2],
                                Cardinality({j \in 1..Len(rows) : rows[j][1] >= rows[i][1] /\ rows[j][2] <= rows[i][2] + WR}),
                                Leader(rows, i)>>]
                IN [k \in 1..Len(SelectSeq(all, LAMBDA r : r[4])) |->
                      LET r == SelectSeq(all, LAMBDA x : x[4])[k] IN <<r[1], r[2], r[3]>>]
Outs == IF Multi THEN {"a", "b"} ELSE {"a"}
Local(o, rows) == IF o = "a" THEN LocalA(rows) ELSE LocalB(rows)

\* predicates over a sequence of emissions es (each [o |-> chunk]) so that recorded real runs can be judged too
OutRows(es, o) == FlatSeq([k \in 1..Len(es) |-> es[k][o].rows])
WholeRunOK(es) == \A o \in Outs : OutRows(es, o) = Local(o, Rows)
ContiguousOK(es) == \A o \in Outs : /\ \A k \in 1..(Len(es) - 1) : es[k][o].e = es[k + 1][o].s
                                    /\ \A k \in 1..Len(es) : RowsInside(es[k][o])
AlignedOK(es) == \A k \in 1..Len(es) : \A o1, o2 \in Outs : es[k][o1].s = es[k][o2].s /\ es[k][o1].e = es[k][o2].e
CoversRun(es) == es # <<>> /\ \A o \in Outs : es[1][o].s = 0 /\ es[Len(es)][o].e = RunEnd
PLevelDone(es) == WholeRunOK(es) /\ ContiguousOK(es) /\ AlignedOK(es) /\ CoversRun(es)

=============================================================================
