------------------------------- MODULE Inline -------------------------------
(* What multiprocessing does to a request (properties C11 / C01): with allow_multiprocess and a plugin that declares
   parallel = "process", ThreadedMailboxProcessor.__init__ picks the multiprocess plugin with the fewest dependencies and
   ParallelSourcePlugin.inline_plugins (strax/plugins/parrallel_source_plugin.py:18-126) merges it with every parallel plugin
   downstream of it into one plugin that runs in the worker processes, moves the savers that do not rechunk into it, and
   rewrites the components (plugins / savers) the processor is assembled from.

   I-level: a transcription of inline_plugins on top of the sets of Components.tla (what is computed, loaded, saved).
   P-level: the rewritten components still deliver every needed data type from exactly one origin, compute no plugin twice,
   and keep every saver fed - so that the result cannot depend on whether multiprocessing is on.
   TLC checks the P-level on every request of the scope and prints the expected rewriting, which the harness compares with
   the real inline_plugins and with real multiprocess runs.                                                              *)
EXTENDS Components

CONSTANTS InlineAsFound     \* TRUE: inline_plugins as found - (1) a loader-fed output of an inlined multi-output plugin is sent as well,
                            \* (2) a parallel plugin without dependencies (a source upstream of the start) counts as "all its
                            \* dependencies are inlined" and is swallowed; kept as a guard: InlineLaws must fail.  FALSE: as repaired

ParVals == {"no", "thread", "process"}       \* Plugin.parallel: False / True / "process"
\* a case: c = [stored, target, par, rc] - par[p]: the plugin's parallel attribute, rc[p]: rechunk_on_save (can_rechunk of its outputs)
InitInline == c \in [stored : SUBSET Types, target : Types, par : [Plugins -> ParVals], rc : [Plugins -> BOOLEAN]]
SpecInline == InitInline /\ [][UNCHANGED c]_vars
R(q) == [stored |-> q.stored, target |-> q.target, save |-> {}, mod |-> "none", forbid |-> "none"]

DepSet(p) == {DepsOf[p][i] : i \in 1..Len(DepsOf[p])}
Comp(q) == ToCompute(R(q))                                        \* keys of components.plugins
MPKeys(q) == {d \in Comp(q) : q.par[PluginOf[d]] = "process"}
\* the processor starts from the multiprocess plugin with the fewest dependencies (first of the dict on ties; the scope keeps
\* the cases where the choice is unique up to the plugin)
MinDeps(q) == {d \in MPKeys(q) : \A e \in MPKeys(q) : Len(DepsOf[PluginOf[d]]) <= Len(DepsOf[PluginOf[e]])}
Applies(q) == MPKeys(q) # {} /\ Cardinality(MinDeps(q)) = 1
Start(q) == CHOOSE d \in MinDeps(q) : TRUE

(* ------------------------------- I-level: inline_plugins ------------------------------- *)
\* sub_plugins: the start key, then - rescanning - every plugin still listed whose `parallel` is set and whose dependencies are all
\* keys of sub_plugins, with all its outputs
RECURSIVE Grow(_, _)
Grow(S, q) == LET cand == {p \in {PluginOf[d] : d \in Comp(q) \ S} : q.par[p] # "no" /\ DepSet(p) \subseteq S
                                                                         /\ (InlineAsFound \/ DepSet(p) # {})}
              IN IF cand = {} THEN S ELSE Grow(S \cup UNION {Provides(p) : p \in cand}, q)
Sub(q) == Grow({Start(q)}, q)                                     \* keys of sub_plugins
SubPlugins(q) == {PluginOf[d] : d \in Sub(q)}
Inlines(q) == Applies(q) /\ Cardinality(SubPlugins(q)) > 1        \* "Just one plugin to inline: skipping"
Rest(q) == Comp(q) \ Sub(q)                                       \* keys left in plugins
SubProvides(q) == UNION {Provides(p) : p \in SubPlugins(q)}
Saved(q) == ToSave(R(q))
Outputs(q) ==
  LET case1 == {q.target} \cap SubProvides(q)
      case2 == UNION {DepSet(PluginOf[d]) : d \in Rest(q)}
      case3 == {d \in SubProvides(q) \cap Saved(q) : q.rc[PluginOf[d]]}
      sent == ((case1 \cup case2) \cap Sub(q)) \ (IF InlineAsFound THEN {} ELSE ToLoad(R(q)))
  IN sent \cup case3
SubSavers(q) == {d \in SubProvides(q) \cap Saved(q) : ~q.rc[PluginOf[d]]}
RestSavers(q) == Saved(q) \ SubSavers(q)
NewPluginKeys(q) == Rest(q) \cup Outputs(q)

(* ------------------------------- P-level ------------------------------- *)
\* what has to arrive somewhere outside the merged plugin: the target, the inputs of the plugins left outside, the saved types
\* whose savers stay outside
NeededOutside(q) == {q.target} \cup UNION {DepSet(PluginOf[d]) : d \in Rest(q)} \cup RestSavers(q)
OneOriginAfter(q) == /\ Outputs(q) \cap ToLoad(R(q)) = {}                                   \* never a loader and the merged plugin
                     /\ Outputs(q) \cap Rest(q) = {}
NoPluginTwice(q) == \A d \in Rest(q) : PluginOf[d] \notin SubPlugins(q)                     \* scope note: needs a single-output start
AllServed(q) == NeededOutside(q) \subseteq ToLoad(R(q)) \cup Outputs(q) \cup UNION {Provides(PluginOf[d]) : d \in Rest(q)}
SaversKept(q) == SubSavers(q) \cap RestSavers(q) = {} /\ SubSavers(q) \cup RestSavers(q) = Saved(q)
SomethingSent(q) == Outputs(q) # {}                                                          \* assert len(outputs_to_send)
\* the merged plugin reads the start plugin's inputs from outside: they must still come from somewhere
MergedDepsServed(q) == DepSet(PluginOf[Start(q)]) \subseteq ToLoad(R(q)) \cup UNION {Provides(PluginOf[d]) : d \in Rest(q)}
InlineLaws == (Inlines(c) /\ ~MustError(R(c))) =>
                 /\ OneOriginAfter(c) /\ AllServed(c) /\ SaversKept(c) /\ SomethingSent(c) /\ MergedDepsServed(c)
                 /\ (~MultiOutput(PluginOf[Start(c)]) => NoPluginTwice(c))

EmitInline == LET q == c r == R(c) ok == Applies(q) /\ ~MustError(r) IN
  PrintT(ToJson([stored |-> SetToSeq(q.stored), target |-> q.target, par |-> q.par, rc |-> q.rc, error |-> MustError(r),
                 applies |-> ok, inlines |-> ok /\ Inlines(q),
                 start |-> IF ok THEN Start(q) ELSE "",
                 sub |-> IF ok /\ Inlines(q) THEN SetToSeq(Sub(q)) ELSE <<>>,
                 outputs |-> IF ok /\ Inlines(q) THEN SetToSeq(Outputs(q)) ELSE <<>>,
                 subsavers |-> IF ok /\ Inlines(q) THEN SetToSeq(SubSavers(q)) ELSE <<>>,
                 restsavers |-> IF ok /\ Inlines(q) THEN SetToSeq(RestSavers(q)) ELSE <<>>,
                 plugins |-> IF ok /\ Inlines(q) THEN SetToSeq(NewPluginKeys(q)) ELSE IF MustError(r) THEN <<>> ELSE SetToSeq(Comp(q)),
                 load |-> IF MustError(r) THEN <<>> ELSE SetToSeq(ToLoad(r))]))
=============================================================================
