------------------------------ MODULE MailboxObs ------------------------------
(* P-level of property C05 over observations of real runs in which a multi-output divider
   (strax.divide_outputs) feeds several mailboxes from one source of dicts, under the deterministic
   scheduler (one observation per explored schedule):
     n        number of source elements;  cap: capacity;  lazy
     got      got[d][s]: the sequence received by subscriber s of output mailbox d
     maxbox   maxbox[d]: the largest number of messages mailbox d held at any step
     hang     no runnable thread although some had not finished                                  *)
EXTENDS Naturals, Sequences, TLC, Json, IOUtils

Obs == JsonDeserialize(IOEnv.TRACE_FILE)
VARIABLE tid
Init == tid \in 1..Len(Obs)
Next == UNCHANGED tid
Spec == Init /\ [][Next]_tid

Expected(n, d) == [i \in 1..n |-> 10 * d + i - 1]       \* element i of the source carries 10*d + i for output d
Accepted == LET o == Obs[tid] IN
  /\ ~o.hang
  /\ \A d \in 1..Len(o.got) : \A s \in 1..Len(o.got[d]) : o.got[d][s] = Expected(o.n, d)      \* exactly once, in order, terminated
  /\ ~o.lazy => \A d \in 1..Len(o.maxbox) : o.maxbox[d] <= o.cap
=============================================================================
