-------------------------- MODULE PluginIterTrace --------------------------
(* P-level validation of recorded real executions of Plugin.iter: every recorded run
   (sequence of compute inputs + outcome) must satisfy the C08 predicates of PluginIter.tla. *)
EXTENDS PluginIterP, Json, IOUtils

Traces == JsonDeserialize(IOEnv.TRACE_FILE)
VARIABLE tid
TInit == tid \in 1..Len(Traces)
TNext == UNCHANGED tid
TSpec == TInit /\ [][TNext]_tid
Accepted == PLevel(Traces[tid].calls, Traces[tid].outcome)
=============================================================================
