------------------------------ MODULE Mailbox ------------------------------
(* strax.Mailbox (strax/mailbox.py), one mailbox.

   I-level: one action per critical section on Mailbox._lock (or per blocking point outside it),
   with the code's own bookkeeping (_mailbox heap, _subscribers_have_read,
   _subscriber_waiting_for, _subscriber_can_drive, _n_sent, closed, killed) and explicit
   condition-variable waiter sets <<thread, notified>> so that a lost wake-up is a reachable
   deadlock, not something assumed away.

   Threads:  "S"      the sender: Mode = "iter": Mailbox._send_from over an iterable
                                   Mode = "perm": a thread calling send(x, msg_number=Perm[i]) then close()
             1..NSub  readers: the generator Mailbox._read driven by a consumer loop
             workers  one per future message (a message in Fut is a concurrent.futures.Future that
                      some worker thread completes at an arbitrary moment)
             "K"      (WithKill) a thread that calls kill(upstream=True, reason) at an arbitrary moment - what the processor's
                      main thread or a failing neighbour does; afterwards every thread must find its way out:
                      readers raise MailboxKilled at their next look at the mailbox, the sender's send raises MailboxKilled,
                      _send_from tells the source and kills the mailbox again (a no-op), a close() in flight raises

   P-level (property C05): InOrder, Complete, CapInv, NoError, NoDeadlock, Termination.        *)
EXTENDS Naturals, Sequences, FiniteSets, TLC

CONSTANTS NMsg,     \* number of real messages; the StopIteration marker gets number NMsg
          NSub,     \* number of subscribers
          Cap,      \* max_messages (eager mode)
          Lazy,     \* lazy mailbox (capacity unbounded, source advanced on demand)
          Drive,    \* Drive[s]: subscriber s can drive (lazy mode)
          Mode,     \* "iter" | "perm"
          Perm,     \* Mode = "perm": sequence of message numbers in sending order
          Fut,      \* set of message numbers that are futures
          RepairedFetch,  \* TRUE: _can_fetch after the "fix:" commit (see CanFetchOf)
          WithKill        \* TRUE: the killer thread K exists

Subs == 1..NSub
NoneV == 99          \* None in _subscriber_waiting_for
END == NMsg

VARIABLES box,        \* set of message numbers in the heap
          haveRead,   \* _subscribers_have_read, offset +1 (0 = nothing read)
          waitFor,    \* _subscriber_waiting_for
          nSent, closed, killed, force,
          kpc,        \* killer thread: "lock" (about to kill) | "done" (also when there is no killer)
          spc, si,    \* sender pc and number of sends completed
          rpc, rnext, ryield,   \* reader pc, next_number, to_yield
          got,        \* P-level history: what each subscriber's consumer received
          futDone,    \* set of completed futures
          wRead, wWrite, wFetch   \* waiter sets of the three conditions

vars == <<box, haveRead, waitFor, nSent, closed, killed, force, kpc, spc, si, rpc, rnext, ryield, got, futDone,
          wRead, wWrite, wFetch>>

Min(S) == CHOOSE x \in S : \A y \in S : x <= y

\* Mailbox._can_fetch.  "Someone is still waiting for a message we already have": as found the code
\* compared with the lowest message number only (wf[s] <= Min(bx)), which let the source run ahead when a
\* slower subscriber still held older messages; repaired: wf[s] \in bx.
CanFetchOf(bx, wf, k) ==
  IF k THEN TRUE
  ELSE IF bx # {} /\ \E s \in Subs : wf[s] # NoneV /\ (IF RepairedFetch THEN wf[s] \in bx ELSE wf[s] <= Min(bx)) THEN FALSE
  ELSE \E s \in Subs : Drive[s] /\ wf[s] # NoneV
CanFetch == CanFetchOf(box, waitFor, killed)

CapEff == IF Lazy THEN 1000 ELSE Cap
CanWrite == Cardinality(box) < CapEff \/ killed

Init ==
  /\ box = {} /\ haveRead = [s \in Subs |-> 0] /\ waitFor = [s \in Subs |-> NoneV]
  /\ nSent = 0 /\ closed = FALSE /\ killed = FALSE /\ force = FALSE /\ kpc = (IF WithKill THEN "lock" ELSE "done")
  /\ spc = (IF Mode = "perm" THEN (IF NMsg = 0 THEN "close" ELSE "send")
            ELSE IF Lazy THEN "gate" ELSE "next")
  /\ si = 0
  /\ rpc = [s \in Subs |-> "top"] /\ rnext = [s \in Subs |-> 0] /\ ryield = [s \in Subs |-> <<>>]
  /\ got = [s \in Subs |-> <<>>] /\ futDone = {}
  /\ wRead = {} /\ wWrite = {} /\ wFetch = {}

NotifyAll(w) == {<<t[1], TRUE>> : t \in w}

(* ------------------------------- sender ------------------------------- *)
SGate ==  \* lazy _send_from: with lock: if not _can_fetch(): wait on _fetch_new_condition
  /\ spc = "gate"
  /\ IF CanFetch THEN spc' = "next" /\ wFetch' = wFetch
     ELSE spc' = "wfetch" /\ wFetch' = wFetch \cup {<<"S", FALSE>>}
  /\ UNCHANGED <<box, haveRead, waitFor, nSent, closed, killed, force, kpc, si, rpc, rnext, ryield, got, futDone, wRead, wWrite>>

SWakeFetch ==
  /\ spc = "wfetch" /\ <<"S", TRUE>> \in wFetch
  /\ IF CanFetch THEN spc' = "next" /\ wFetch' = wFetch \ {<<"S", TRUE>>}
     ELSE spc' = "wfetch" /\ wFetch' = (wFetch \ {<<"S", TRUE>>}) \cup {<<"S", FALSE>>}
  /\ UNCHANGED <<box, haveRead, waitFor, nSent, closed, killed, force, kpc, si, rpc, rnext, ryield, got, futDone, wRead, wWrite>>

SNext ==  \* next(iterable), outside the lock
  /\ spc = "next"
  /\ IF si < NMsg THEN spc' = "send" ELSE spc' = "close"
  /\ UNCHANGED <<box, haveRead, waitFor, nSent, closed, killed, force, kpc, si, rpc, rnext, ryield, got, futDone, wRead, wWrite, wFetch>>

Closing == spc \in {"close", "wwriteC"}
MsgNo == IF Closing THEN nSent ELSE IF Mode = "perm" THEN Perm[si + 1] ELSE nSent
AfterSend == IF Closing THEN "done"
             ELSE IF Mode = "perm" THEN (IF si + 1 < NMsg THEN "send" ELSE "close")
             ELSE IF Lazy THEN "gate" ELSE "next"
MinRead == Min({haveRead[s] : s \in Subs})

DoPush(n) == /\ box' = box \cup {n} /\ nSent' = nSent + 1 /\ wRead' = NotifyAll(wRead)

SSend ==  \* send(x) / close(): one critical section unless the mailbox is full
  /\ spc \in {"send", "close"}
  /\ IF force THEN      \* "Sender found mailbox force-killed": MailboxKilled; _send_from tells the source, then kills again;
                        \* raised from close() (the else clause of _send_from) nothing catches it: the thread ends
        /\ spc' = (IF Closing THEN "done" ELSE "rekill")
        /\ UNCHANGED <<box, nSent, wRead, wWrite, si, closed>>
     ELSE IF killed THEN     \* "Send to killed mailbox: message lost"
        /\ spc' = AfterSend /\ si' = si + 1 /\ closed' = (closed \/ Closing)
        /\ UNCHANGED <<box, nSent, wRead, wWrite>>
     ELSE IF MsgNo + 1 <= MinRead THEN     \* InvalidMessageNumber
        /\ spc' = "error" /\ UNCHANGED <<box, nSent, wRead, wWrite, si, closed>>
     ELSE IF ~CanWrite THEN
        /\ spc' = (IF spc = "send" THEN "wwrite" ELSE "wwriteC")
        /\ wWrite' = wWrite \cup {<<"S", FALSE>>}
        /\ UNCHANGED <<box, nSent, wRead, si, closed>>
     ELSE
        /\ DoPush(MsgNo) /\ spc' = AfterSend /\ si' = si + 1 /\ closed' = (closed \/ Closing)
        /\ UNCHANGED wWrite
  /\ UNCHANGED <<haveRead, waitFor, killed, force, kpc, rpc, rnext, ryield, got, futDone, wFetch>>

SWakeWrite ==
  /\ spc \in {"wwrite", "wwriteC"} /\ <<"S", TRUE>> \in wWrite
  /\ IF ~CanWrite THEN
        /\ wWrite' = (wWrite \ {<<"S", TRUE>>}) \cup {<<"S", FALSE>>}
        /\ UNCHANGED <<box, nSent, wRead, si, closed, spc>>
     ELSE IF force THEN      \* woken by the kill: "Sender found mailbox killed while waiting for room": MailboxKilled
        /\ wWrite' = wWrite \ {<<"S", TRUE>>}
        /\ spc' = (IF Closing THEN "done" ELSE "rekill")
        /\ UNCHANGED <<box, nSent, wRead, si, closed>>
     ELSE IF killed THEN
        /\ wWrite' = wWrite \ {<<"S", TRUE>>}
        /\ spc' = AfterSend /\ si' = si + 1 /\ closed' = (closed \/ Closing)
        /\ UNCHANGED <<box, nSent, wRead>>
     ELSE
        /\ wWrite' = wWrite \ {<<"S", TRUE>>}
        /\ DoPush(MsgNo) /\ spc' = AfterSend /\ si' = si + 1 /\ closed' = (closed \/ Closing)
  /\ UNCHANGED <<haveRead, waitFor, killed, force, kpc, rpc, rnext, ryield, got, futDone, wFetch>>

\* _send_from: except Exception -> kill_from_exception(MailboxKilled): kill(reason) on the already killed mailbox, one more locked section
SReKill ==
  /\ spc = "rekill" /\ spc' = "done"
  /\ UNCHANGED <<box, haveRead, waitFor, nSent, closed, killed, force, kpc, si, rpc, rnext, ryield, got, futDone, wRead, wWrite, wFetch>>

(* ------------------------------- killer ------------------------------- *)
KKill ==   \* Mailbox.kill(upstream=True, reason): under the lock set killed / force_killed and notify all three conditions
  /\ kpc = "lock" /\ kpc' = "done" /\ killed' = TRUE /\ force' = TRUE
  /\ wRead' = NotifyAll(wRead) /\ wWrite' = NotifyAll(wWrite) /\ wFetch' = NotifyAll(wFetch)
  /\ UNCHANGED <<box, haveRead, waitFor, nSent, closed, spc, si, rpc, rnext, ryield, got, futDone>>

(* ------------------------------- readers ------------------------------- *)
\* "Reader finds mailbox killed": waiting_for is cleared, MailboxKilled ends the consumer's loop and its thread
ReaderKilled(s) ==
  /\ waitFor' = [waitFor EXCEPT ![s] = NoneV] /\ rpc' = [rpc EXCEPT ![s] = "done"]
  /\ UNCHANGED <<box, haveRead, rnext, ryield, wWrite, wFetch>>
HasMsg(n) == killed \/ n \in box
PcFor(n) == IF n \in Fut THEN "fwait" ELSE "yield"

Grab(s) == \* the block after the wait in _read
  LET RECURSIVE upto(_)
      upto(n) == IF n \in box THEN upto(n + 1) ELSE n
      nn == upto(rnext[s])
      hr == [haveRead EXCEPT ![s] = nn]
      mr == Min({hr[x] : x \in Subs})
      wf == [waitFor EXCEPT ![s] = NoneV]
      bx == {m \in box : m + 1 > mr}
  IN /\ waitFor' = wf
     /\ ryield' = [ryield EXCEPT ![s] = IF rnext[s] = END THEN <<>>
                                         ELSE [i \in 1..(nn - rnext[s]) |-> rnext[s] + i - 1]]
     /\ rnext' = [rnext EXCEPT ![s] = nn]
     /\ haveRead' = hr
     /\ box' = bx
     /\ rpc' = [rpc EXCEPT ![s] = IF rnext[s] = END THEN "done" ELSE PcFor(rnext[s])]
     /\ wWrite' = NotifyAll(wWrite)
     /\ wFetch' = IF Lazy /\ CanFetchOf(bx, wf, killed) THEN NotifyAll(wFetch) ELSE wFetch

RTop(s) ==
  /\ rpc[s] = "top"
  /\ IF ~HasMsg(rnext[s]) THEN
        LET wf == [waitFor EXCEPT ![s] = rnext[s]] IN
        /\ waitFor' = wf
        /\ wFetch' = IF Lazy /\ CanFetchOf(box, wf, killed) THEN NotifyAll(wFetch) ELSE wFetch
        /\ wRead' = wRead \cup {<<s, FALSE>>}
        /\ rpc' = [rpc EXCEPT ![s] = "wread"]
        /\ UNCHANGED <<box, haveRead, rnext, ryield, wWrite>>
     ELSE IF killed THEN ReaderKilled(s) /\ UNCHANGED wRead
     ELSE Grab(s) /\ UNCHANGED wRead
  /\ UNCHANGED <<nSent, closed, killed, force, kpc, spc, si, got, futDone>>

RWake(s) ==
  /\ rpc[s] = "wread" /\ <<s, TRUE>> \in wRead
  /\ IF ~HasMsg(rnext[s]) THEN
        /\ wRead' = (wRead \ {<<s, TRUE>>}) \cup {<<s, FALSE>>}
        /\ UNCHANGED <<box, haveRead, waitFor, rnext, ryield, rpc, wWrite, wFetch>>
     ELSE IF killed THEN ReaderKilled(s) /\ wRead' = wRead \ {<<s, TRUE>>}
     ELSE Grab(s) /\ wRead' = wRead \ {<<s, TRUE>>}
  /\ UNCHANGED <<nSent, closed, killed, force, kpc, spc, si, got, futDone>>

RFuture(s) == \* msg.result() returns (outside the lock), the message is handed to the consumer
  /\ rpc[s] = "fwait" /\ Head(ryield[s]) \in futDone
  /\ rpc' = [rpc EXCEPT ![s] = "yield"]
  /\ UNCHANGED <<box, haveRead, waitFor, nSent, closed, killed, force, kpc, spc, si, rnext, ryield, got, futDone, wRead, wWrite, wFetch>>

RYield(s) == \* the consumer takes ONE grabbed message (outside the lock)
  /\ rpc[s] = "yield"
  /\ LET ys == ryield[s] rest == Tail(ys) IN
       /\ got' = [got EXCEPT ![s] = Append(got[s], Head(ys))]
       /\ IF rest = <<>> THEN rpc' = [rpc EXCEPT ![s] = "top"] /\ ryield' = [ryield EXCEPT ![s] = <<>>]
          ELSE IF Head(rest) = END THEN rpc' = [rpc EXCEPT ![s] = "done"] /\ ryield' = [ryield EXCEPT ![s] = <<>>]
          ELSE ryield' = [ryield EXCEPT ![s] = rest] /\ rpc' = [rpc EXCEPT ![s] = PcFor(Head(rest))]
  /\ UNCHANGED <<box, haveRead, waitFor, nSent, closed, killed, force, kpc, spc, si, rnext, futDone, wRead, wWrite, wFetch>>

(* ------------------------------- workers ------------------------------- *)
WComplete(n) ==
  /\ n \in Fut \ futDone
  /\ futDone' = futDone \cup {n}
  /\ UNCHANGED <<box, haveRead, waitFor, nSent, closed, killed, force, kpc, spc, si, rpc, rnext, ryield, got, wRead, wWrite, wFetch>>

Sender == SGate \/ SWakeFetch \/ SNext \/ SSend \/ SWakeWrite \/ SReKill
Reader(s) == RTop(s) \/ RWake(s) \/ RFuture(s) \/ RYield(s)
Next == Sender \/ (\E s \in Subs : Reader(s)) \/ (\E n \in Fut : WComplete(n)) \/ KKill

Done == spc = "done" /\ (\A s \in Subs : rpc[s] = "done") /\ futDone = Fut /\ kpc = "done"
Fairness == WF_vars(Sender) /\ (\A s \in Subs : WF_vars(Reader(s))) /\ (\A n \in Fut : WF_vars(WComplete(n))) /\ WF_vars(KKill)
Spec == Init /\ [][Next]_vars /\ Fairness

(* ------------------------------- P-level (C05) ------------------------------- *)
TypeOK == box \subseteq 0..NMsg /\ nSent \in 0..(NMsg + 1)
CapInv == ~Lazy => Cardinality(box) <= Cap
InOrder == \A s \in Subs : got[s] = [i \in 1..Len(got[s]) |-> i - 1]
Complete == (Done /\ ~killed) => \A s \in Subs : got[s] = [i \in 1..NMsg |-> i - 1]
NoError == spc # "error"
NoDeadlock == Done \/ ENABLED Next
Termination == <>Done
\* lazy demand rule (C13): the source is advanced only when a driver waits for an unproduced message
LazyDemand == [][(Lazy /\ spc = "next" /\ spc' # "next") =>
                    (killed \/ \E s \in Subs : Drive[s] /\ waitFor[s] # NoneV /\ waitFor[s] \notin box)]_vars
=============================================================================
