----------------------------- MODULE PostOffice -----------------------------
(* The single-thread processor's message bus (strax/processors/post_office.py) and the way
   strax/processors/single_thread.py wires producers, readers and spies onto it.

   PostOffice is sequential and pull-driven: one public step is `next(reader)` of an external
   reader.  Inside that step the office may ask the producer of the topic for a new message, and a
   producer that is itself a plugin pulls from its own readers - a nested recursion that this
   module transcribes as the mutually recursive operators Read / Fetch (I-level, one branch per
   branch of _read / _fetch_new / _ack_msg_produced / _ack_reader_recieved / _ack_topic_exhausted).
   TLC explores every order in which the external readers pull (several readers of one topic at
   different lags, a multi-output producer with a sibling nobody reads or that a loader feeds,
   relays that consume two messages per message produced, joins that align two inputs), with a
   producer failing at every position.

   P-level (what the rest of strax relies on, properties C01 / C06 / C11):
     every reader receives exactly the messages of its topic, in order, each once, then stops;
     every spy (saver) receives every message of its topic once, in order, and is closed exactly
       once, when the topic is exhausted;
     the office retains exactly the messages some registered reader has not received yet;
     a producer's exception reaches the external reader that pulled, and kill_spies then closes
       every spy.
   Message content is an integer "coverage" (how many source messages it accounts for), which is
   what lets a join align its inputs the way Plugin.iter aligns time ranges.                    *)
EXTENDS Naturals, Integers, Sequences, FiniteSets, TLC

CONSTANTS
  Producers,   \* set of producer names
  Prov,        \* Prov[p]: sequence of topics p is registered for (length > 1: multi-output, yields dicts)
  Deps,        \* Deps[p]: sequence of topics p reads (<<>> for a source / loader)
  Mode,        \* Mode[p] \in {"source", "one", "two", "join"}
  N,           \* number of messages of every source
  Loaded,      \* topics of a multi-output producer that a loader (another producer) already feeds: `registered`
  Spied,       \* topics with a spy (a saver)
  Ext,         \* external readers: set of <<reader name, topic>>
  AsFound,     \* TRUE: the office as found - a finishing multi-output producer marks *every* topic of its tuple exhausted, also
               \* the ones a loader feeds (kept as a guard: RaisedOnlyIfFailing / Complete must fail); FALSE: as repaired
  FailAt       \* FailAt[p] \in -1..N: the producer raises instead of delivering its item number FailAt[p] (0-based); -1 = never

Topics == UNION {{Prov[p][i] : i \in 1..Len(Prov[p])} : p \in Producers}
\* the producer registered for topic t: a multi-output producer is not registered for its loaded topics
ProducerOf(t) == CHOOSE p \in Producers : (\E i \in 1..Len(Prov[p]) : Prov[p][i] = t) /\ ~(Len(Prov[p]) > 1 /\ t \in Loaded)
IsMulti(t) == Len(Prov[ProducerOf(t)]) > 1                          \* t \in _multi_output_topics
\* the topics exhausted together with t: _multi_output_topics[t] is the full tuple; the repaired office skips the topics of the
\* tuple that are not registered to this producer (they have a loader, which exhausts them when *it* is done)
Group(t) == IF IsMulti(t) THEN {Prov[ProducerOf(t)][i] : i \in 1..Len(Prov[ProducerOf(t)])} \ (IF AsFound THEN {} ELSE Loaded) ELSE {t}
\* registered (topic, reader) pairs: the external readers and one reader per (producer, dependency), named after the producer
RT == {<<e[2], e[1]>> : e \in Ext} \cup UNION {{<<Deps[p][i], p>> : i \in 1..Len(Deps[p])} : p \in Producers}
ReadersOf(t) == {x[2] : x \in {y \in RT : y[1] = t}}

VARIABLES
  prod,     \* prod[t]: messages produced so far (_last_msg_produced + 1)
  exh,      \* exh[t]: topic exhausted
  saved,    \* saved[t]: message numbers in _saved_mail
  msgs,     \* msgs[t]: contents of the messages produced so far
  rpos,     \* rpos[<<t, r>>]: next message number reader r asks for (_last_msg_read + 1)
  rdone,    \* rdone[t]: readers that have finished (_readers_done)
  spy,      \* spy[t]: contents received by the spy of t
  closed,   \* closed[t]: how often the spy of t was closed
  cnt,      \* cnt[p]: items a source has yielded / contents a "two" relay holds back (generator-local)
  gdone,    \* gdone[p]: the producer generator has finished (or raised)
  jc,       \* jc[p]: coverage a join has read from its second input
  got,      \* got[e]: contents delivered to external reader e  (observation)
  ended,    \* ended[e]: external reader e received StopIteration
  outcome   \* "" | "raised" | "killed"
vars == <<prod, exh, saved, msgs, rpos, rdone, spy, closed, cnt, gdone, jc, got, ended, outcome>>

St == [prod |-> prod, exh |-> exh, saved |-> saved, msgs |-> msgs, rpos |-> rpos, rdone |-> rdone, spy |-> spy,
       closed |-> closed, cnt |-> cnt, gdone |-> gdone, jc |-> jc]

Init ==
  /\ prod = [t \in Topics |-> 0] /\ exh = [t \in Topics |-> FALSE] /\ saved = [t \in Topics |-> {}]
  /\ msgs = [t \in Topics |-> <<>>] /\ rpos = [x \in RT |-> 0] /\ rdone = [t \in Topics |-> {}]
  /\ spy = [t \in Topics |-> <<>>] /\ closed = [t \in Topics |-> 0]
  /\ cnt = [p \in Producers |-> 0] /\ gdone = [p \in Producers |-> FALSE] /\ jc = [p \in Producers |-> 0]
  /\ got = [e \in Ext |-> <<>>] /\ ended = [e \in Ext |-> FALSE] /\ outcome = ""

Min(S) == CHOOSE x \in S : \A y \in S : x <= y

(* ------------------------------- I-level: the office ------------------------------- *)
\* _ack_msg_produced
AckProduced(S, t, c) ==
  IF S.exh[t] THEN [S |-> S, ok |-> FALSE]                                     \* assert topic not in _exhausted_topics
  ELSE [ok |-> TRUE,
        S |-> [S EXCEPT !.prod[t] = @ + 1, !.msgs[t] = Append(@, c),
                        !.saved[t] = IF ReadersOf(t) # {} THEN @ \cup {S.prod[t]} ELSE @,
                        !.spy[t] = IF t \in Spied THEN Append(@, c) ELSE @]]
\* _ack_reader_recieved: note the receipt, keep only what someone has not received yet
Ack(S, t, r, n) ==
  LET S1 == [S EXCEPT !.rpos[<<t, r>>] = n + 1]
      everyone == Min({S1.rpos[<<t, q>>] - 1 : q \in ReadersOf(t)})
  IN [S1 EXCEPT !.saved[t] = {m \in @ : m > everyone}]
\* _ack_topic_exhausted for every topic of the group
Exhaust(S, ts) == [S EXCEPT !.exh = [t \in Topics |-> IF t \in ts THEN TRUE ELSE @[t]],
                            !.closed = [t \in Topics |-> IF t \in ts \cap Spied THEN @[t] + 1 ELSE @[t]]]
Finish(S, t, r) == [S EXCEPT !.rdone[t] = @ \cup {r}]

RECURSIVE Read(_, _, _)
RECURSIVE Fetch(_, _)
RECURSIVE Gen(_, _)
\* results are [S, res, val] with res \in {"msg", "stop", "raise"}
\* _read: one resumption of the reader generator of r on t
Read(S, t, r) ==
  LET n == S.rpos[<<t, r>>] IN
  IF S.exh[t] /\ n > S.prod[t] - 1 THEN [S |-> Finish(S, t, r), res |-> "stop", val |-> 0]            \* ~_message_may_come
  ELSE IF n \in S.saved[t] THEN [S |-> Ack(S, t, r, n), res |-> "msg", val |-> S.msgs[t][n + 1]]      \* from the cache
  ELSE LET f == Fetch(S, t) IN
       IF f.res = "stop" THEN [S |-> Finish(f.S, t, r), res |-> "stop", val |-> 0]
       ELSE IF f.res = "raise" THEN f
       ELSE [S |-> Ack(f.S, t, r, n), res |-> "msg", val |-> f.val]     \* whatever was fetched is handed over as message n
\* _fetch_new: next(producer)
Fetch(S, t) ==
  LET p == ProducerOf(t)
      g == Gen(S, p) IN
  IF g.res = "stop" THEN [S |-> Exhaust(g.S, Group(t)), res |-> "stop", val |-> 0]
  ELSE IF g.res = "raise" THEN g
  ELSE IF ~IsMulti(t) THEN LET a == AckProduced(g.S, t, g.val) IN [S |-> a.S, res |-> IF a.ok THEN "msg" ELSE "raise", val |-> g.val]
  ELSE \* a dict with one message per provided topic: acknowledged for the topics registered to this producer only
       LET mine == {Prov[p][i] : i \in 1..Len(Prov[p])} \ Loaded
           RECURSIVE AckAll(_, _)
           AckAll(SS, ts) == IF ts = {} THEN [S |-> SS, ok |-> TRUE]
                             ELSE LET x == CHOOSE y \in ts : TRUE
                                      a == AckProduced(SS, x, g.val) IN
                                  IF ~a.ok THEN a ELSE AckAll(a.S, ts \ {x})
           a == AckAll(g.S, mine) IN
       [S |-> a.S, res |-> IF a.ok THEN "msg" ELSE "raise", val |-> g.val]
\* one next() of producer p's generator (the harness generators are written to this)
Gen(S, p) ==
  IF S.gdone[p] THEN [S |-> S, res |-> "stop", val |-> 0]
  ELSE IF Mode[p] = "source" THEN
         IF FailAt[p] = S.cnt[p] THEN [S |-> [S EXCEPT !.gdone[p] = TRUE], res |-> "raise", val |-> 0]
         ELSE IF S.cnt[p] < N THEN [S |-> [S EXCEPT !.cnt[p] = @ + 1], res |-> "msg", val |-> S.cnt[p] + 1]
         ELSE [S |-> [S EXCEPT !.gdone[p] = TRUE], res |-> "stop", val |-> 0]
  ELSE IF Mode[p] = "one" THEN
         LET a == Read(S, Deps[p][1], p) IN
         IF a.res = "msg" THEN
              IF FailAt[p] = a.S.cnt[p] THEN [S |-> [a.S EXCEPT !.gdone[p] = TRUE], res |-> "raise", val |-> 0]
              ELSE [a EXCEPT !.S.cnt[p] = @ + 1]
         ELSE [a EXCEPT !.S.gdone[p] = TRUE]
  ELSE IF Mode[p] = "two" THEN       \* consumes two messages per message produced (one, if the input ends in between)
         LET a == Read(S, Deps[p][1], p) IN
         IF a.res # "msg" THEN [a EXCEPT !.S.gdone[p] = TRUE]
         ELSE LET b == Read(a.S, Deps[p][1], p) IN
              IF b.res = "raise" THEN [b EXCEPT !.S.gdone[p] = TRUE]
              ELSE IF b.res = "msg" THEN b
              ELSE [S |-> b.S, res |-> "msg", val |-> a.val]
  ELSE \* "join": one message of the first input, then the second input up to the same coverage
       LET a == Read(S, Deps[p][1], p) IN
       IF a.res = "raise" THEN [a EXCEPT !.S.gdone[p] = TRUE]
       ELSE IF a.res = "stop" THEN    \* the first input is over: the second must be over too
            LET b == Read(a.S, Deps[p][2], p) IN
            IF b.res = "stop" THEN [b EXCEPT !.S.gdone[p] = TRUE]
            ELSE [S |-> [b.S EXCEPT !.gdone[p] = TRUE], res |-> "raise", val |-> 0]
       ELSE LET RECURSIVE Catch(_)
                Catch(SS) == IF SS.jc[p] >= a.val THEN [S |-> SS, res |-> "msg", val |-> a.val]
                             ELSE LET b == Read(SS, Deps[p][2], p) IN
                                  IF b.res = "msg" THEN Catch([b.S EXCEPT !.jc[p] = b.val])
                                  ELSE [S |-> [b.S EXCEPT !.gdone[p] = TRUE], res |-> "raise", val |-> 0]    \* second input ended early, or raised
            IN Catch(a.S)

(* ------------------------------- steps ------------------------------- *)
Install(S) ==
  /\ prod' = S.prod /\ exh' = S.exh /\ saved' = S.saved /\ msgs' = S.msgs /\ rpos' = S.rpos /\ rdone' = S.rdone
  /\ spy' = S.spy /\ closed' = S.closed /\ cnt' = S.cnt /\ gdone' = S.gdone /\ jc' = S.jc
\* next(reader) by external reader e
Pull(e) ==
  /\ outcome = "" /\ ~ended[e]
  /\ LET a == Read(St, e[2], e[1]) IN
     /\ Install(a.S)
     /\ got' = IF a.res = "msg" THEN [got EXCEPT ![e] = Append(@, a.val)] ELSE got
     /\ ended' = IF a.res = "stop" THEN [ended EXCEPT ![e] = TRUE] ELSE ended
     /\ outcome' = IF a.res = "raise" THEN "raised" ELSE outcome
\* SingleThreadProcessor.iter: except Exception -> kill_spies(); Spy.kill = close
KillSpies ==
  /\ outcome = "raised"
  /\ closed' = [t \in Topics |-> IF t \in Spied THEN closed[t] + 1 ELSE closed[t]]
  /\ outcome' = "killed"
  /\ UNCHANGED <<prod, exh, saved, msgs, rpos, rdone, spy, cnt, gdone, jc, got, ended>>
Next == (\E e \in Ext : Pull(e)) \/ KillSpies
Spec == Init /\ [][Next]_vars /\ WF_vars(Next)

(* ------------------------------- P-level ------------------------------- *)
IsPrefix(a, b) == Len(a) <= Len(b) /\ \A i \in 1..Len(a) : a[i] = b[i]
RECURSIVE Halve(_)
Halve(s) == IF Len(s) = 0 THEN <<>> ELSE IF Len(s) = 1 THEN s ELSE <<s[2]>> \o Halve(SubSeq(s, 3, Len(s)))
\* the complete message sequence of a topic when nothing fails
RECURSIVE Expected(_)
Expected(t) == LET p == ProducerOf(t) IN
               IF Mode[p] = "source" THEN [i \in 1..N |-> i]
               ELSE IF Mode[p] = "one" THEN Expected(Deps[p][1])
               ELSE IF Mode[p] = "two" THEN Halve(Expected(Deps[p][1]))
               ELSE Expected(Deps[p][1])
NoFailure == \A p \in Producers : FailAt[p] = -1
\* every reader: the messages of its topic in order, each once - never anything else
InOrderOnce == \A e \in Ext : IsPrefix(got[e], Expected(e[2]))
Complete == \A e \in Ext : ended[e] /\ outcome = "" => (NoFailure => got[e] = Expected(e[2]))
\* every spy sees what the readers see; closed exactly once, at exhaustion (before any kill)
SpyInOrderOnce == \A t \in Spied : IsPrefix(spy[t], Expected(t)) /\ spy[t] = msgs[t]
SpyComplete == \A t \in Spied : exh[t] /\ NoFailure => spy[t] = Expected(t)
ClosedOnce == outcome = "" => \A t \in Spied : closed[t] = (IF exh[t] THEN 1 ELSE 0)
\* retained mail = exactly what some registered reader has not received
SavedExact == \A t \in Topics : saved[t] = IF ReadersOf(t) = {} THEN {}
                                           ELSE {m \in 0..(prod[t] - 1) : m >= Min({rpos[<<t, q>>] : q \in ReadersOf(t)})}
AllDoneEmpty == \A t \in Topics : rdone[t] = ReadersOf(t) /\ ReadersOf(t) # {} => saved[t] = {}
\* failure: only with a failing producer; afterwards every spy is closed
RaisedOnlyIfFailing == outcome # "" => ~NoFailure
KilledClosesAll == outcome = "killed" => \A t \in Spied : closed[t] >= 1
\* progress
Done == outcome = "killed" \/ (outcome = "" /\ \A e \in Ext : ended[e])
Terminates == <>Done
NoStall == ~Done => ENABLED Next
=============================================================================
