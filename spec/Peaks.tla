-------------------------------- MODULE Peaks --------------------------------
(* Peak clustering, merging, replacing and the waveform helpers (property C19):
   strax/processing/peak_building.py (find_peaks), peak_merging.py (merge_peaks, replace_merged),
   peak_splitting.py (symmetric_moving_average, LocalMinimumSplitter / NaturalBreaksSplitter via PeakSplitter._split_peaks),
   peak_properties.py (index_of_fraction, compute_widths), peak_building.py (sum_waveform, store_downsampled_waveform).
   Definitions over small integer inputs; rationals are pairs <<num, den>> so that the harness can
   compare exactly.  TLC enumerates the scope, checks the conservation laws and prints the expected
   results.  A hit is <<t, len, ch, area>> (dt = 1), sorted by time.                                *)
EXTENDS Integers, Sequences, FiniteSets, TLC, Json, IOUtils

CONSTANTS G,        \* time grid 0..G
          NH,       \* max number of hits / samples
          Kind

Max(T) == CHOOSE x \in T : \A y \in T : x >= y
Min(T) == CHOOSE x \in T : \A y \in T : x <= y
RECURSIVE SumSeq(_)
SumSeq(s) == IF s = <<>> THEN 0 ELSE Head(s) + SumSeq(Tail(s))
CeilDiv(a, b) == (a + b - 1) \div b
RECURSIVE SeqsUpTo(_, _)
SeqsUpTo(S, n) == IF n = 0 THEN {<<>>}
                  ELSE LET prev == SeqsUpTo(S, n - 1) IN prev \cup {Append(s, x) : s \in {y \in prev : Len(y) = n - 1}, x \in S}

(* ------------------------------- find_peaks ------------------------------- *)
\* greedy gap clustering: a hit joins the current peak unless it starts at least `gap` after everything seen so
\* far, or the peak (with both extensions) would become longer than maxdur
HitEnd(h) == h[1] + h[2]
RECURSIVE Cluster(_, _, _, _, _, _, _)
\* hits, i, current cluster (seq of indices), its end so far, params -> sequence of clusters (each a seq of hit indices)
Cluster(hits, i, cur, endt, gap, ext, maxdur) ==
  IF i > Len(hits) THEN (IF cur = <<>> THEN <<>> ELSE <<cur>>)
  ELSE IF cur = <<>> THEN Cluster(hits, i + 1, <<i>>, HitEnd(hits[i]), gap, ext, maxdur)
  ELSE LET h == hits[i]
           ptime == hits[cur[1]][1] - ext[1]
           far == h[1] - endt >= gap
           toolong == (h[1] - ptime + h[2] + ext[1] + ext[2]) > maxdur
       IN IF far \/ toolong THEN <<cur>> \o Cluster(hits, i + 1, <<i>>, HitEnd(h), gap, ext, maxdur)
          ELSE Cluster(hits, i + 1, Append(cur, i), Max({endt, HitEnd(h)}), gap, ext, maxdur)
PeakOf(hits, cl, ext) ==
  LET t0 == hits[cl[1]][1] - ext[1]
      endt == Max({HitEnd(hits[cl[k]]) : k \in 1..Len(cl)})
  IN [time |-> t0, length |-> endt - t0 + ext[2], nhits |-> Len(cl), area |-> SumSeq([k \in 1..Len(cl) |-> hits[cl[k]][4]]),
      apc |-> [ch \in 0..1 |-> SumSeq([k \in 1..Len(cl) |-> IF hits[cl[k]][3] = ch THEN hits[cl[k]][4] ELSE 0])],
      nch |-> Cardinality({hits[cl[k]][3] : k \in 1..Len(cl)})]
FindPeaksDef(hits, gap, ext, minarea, minch, maxdur) ==
  LET cls == Cluster(hits, 1, <<>>, 0, gap, ext, maxdur)
      all == [k \in 1..Len(cls) |-> PeakOf(hits, cls[k], ext)]
  IN SelectSeq(all, LAMBDA p : p.area >= minarea /\ p.nch >= minch)
PeakLaws(hits, gap, ext, maxdur) ==
  LET ps == FindPeaksDef(hits, gap, ext, 0, 1, maxdur) IN
  /\ SumSeq([k \in 1..Len(ps) |-> ps[k].area]) = SumSeq([k \in 1..Len(hits) |-> hits[k][4]])      \* area is conserved
  /\ SumSeq([k \in 1..Len(ps) |-> ps[k].nhits]) = Len(hits)                                          \* every hit in exactly one peak
  /\ \A k \in 1..Len(ps) : ps[k].area = ps[k].apc[0] + ps[k].apc[1]
  /\ \A k \in 1..(Len(ps) - 1) : ps[k].time < ps[k + 1].time                                          \* time ordered
  /\ (maxdur >= 1000) => \A k \in 1..(Len(ps) - 1) : ps[k].time + ps[k].length <= ps[k + 1].time   \* disjoint (gap > extensions)

(* ------------------------------- merging and replacing ------------------------------- *)
\* peaks are <<t, e, area>> (dt = 1), disjoint and sorted; merge windows are [start, end) index ranges (0-based)
MergeDef(peaks, a, b) == <<peaks[a + 1][1], peaks[b][2], SumSeq([k \in 1..(b - a) |-> peaks[a + k][3]])>>
Touching(p, m) == p[2] > m[1] /\ p[1] < m[2]
RECURSIVE InsPeak(_, _)
InsPeak(s, x) == IF Len(s) = 0 THEN <<x>> ELSE IF x[1] < s[1][1] THEN <<x>> \o s ELSE <<s[1]>> \o InsPeak(Tail(s), x)
RECURSIVE InsAll(_, _)
InsAll(s, ms) == IF Len(ms) = 0 THEN s ELSE InsAll(InsPeak(s, ms[1]), Tail(ms))
\* the waveform of a merged peak (samples of width 1; a constituent <<t, e, area>> carries its whole area in its first sample, which
\* is how the harness fills the constituents): the constituents' samples at their places, zero in the gaps between them - whatever
\* else was merged in the same call - then stored in a buffer of NB samples: down-sampled by f = ceil(L / NB) into L div f sums of f
MergeWf(peaks, a, b) == LET t0 == peaks[a + 1][1] L == peaks[b][2] - t0 IN
                        [i \in 1..L |-> SumSeq([k \in 1..(b - a) |-> IF peaks[a + k][1] = t0 + i - 1 THEN peaks[a + k][3] ELSE 0])]
MergeStored(peaks, a, b, nb) ==
  LET wf == MergeWf(peaks, a, b)
      L == Len(wf)
      f == CeilDiv(L, nb)
      len2 == IF f > 1 THEN L \div f ELSE L
      data == [j \in 1..len2 |-> SumSeq(SubSeq(wf, (j - 1) * f + 1, j * f))]
  \* endtime: what the stored peak covers (time + length * dt; the peak dtype has no endtime field of its own); lastend: the end of the
  \* last constituent - the property's "spans first start to last end" is endtime = lastend, "integrates to its area" is lost = 0
  IN [time |-> peaks[a + 1][1], endtime |-> peaks[a + 1][1] + len2 * f, lastend |-> peaks[b][2], area |-> SumSeq(wf), nhits |-> b - a, dt |-> f,
      length |-> len2, data |-> data, lost |-> SumSeq(wf) - SumSeq(data)]
\* the merged peaks and the members of orig that do not touch any of them, in time order
ReplaceDef(orig, merged) == InsAll(SelectSeq(orig, LAMBDA p : ~\E k \in 1..Len(merged) : Touching(p, merged[k])), merged)

(* ------------------------------- waveform helpers ------------------------------- *)
\* symmetric moving average: mean over the window [i - w, i + w] clipped to the waveform, as <<sum, count>>
SMADef(a, w) == [i \in 1..Len(a) |-> LET lo == Max({1, i - w}) hi == Min({Len(a), i + w}) IN
                                       <<SumSeq(SubSeq(a, lo, hi)), hi - lo + 1>>]
\* index at which the cumulative waveform reaches the fraction p/q of its total area A > 0:
\* the first sample i (0-based) with cum(i) + x_i >= p/q * A, plus the fraction of that sample that is needed;
\* returned as <<num, den>> of i + (p*A/q - cum(i)) / x_i   (i itself when x_i = 0); fraction 1 gives the length
IndexOfFractionDef(a, p, q) ==
  LET A == SumSeq(a)
      cum(i) == SumSeq(SubSeq(a, 1, i))            \* area of the first i samples
      S == {i \in 0..(Len(a) - 1) : q * (cum(i) + a[i + 1]) >= p * A}
  IN IF p = q THEN <<Len(a), 1>>
     ELSE LET i == Min(S) x == a[i + 1] IN
          IF x = 0 THEN <<i, 1>> ELSE <<i * q * x + (p * A - q * cum(i)), q * x>>

(* ------------------------------- splitting -------------------------------
   PeakSplitter._split_peaks cuts a peak's waveform w (0-based samples 0..n-1) at the indices the algorithm yields; child k
   covers samples [s(k-1), s(k)) with s(0) = 0.  P-level (both algorithms): the children tile [0, n) - contiguous, non-empty,
   first starts at 0, last ends at n.  I-level for the local-minimum algorithm: a transcription of find_split_points
   (prominent local minima: both neighbouring maxima exceed max(minimum + min_height, minimum * min_ratio)).            *)
BIG == 1000000
RECURSIVE LocalMinScan(_, _, _, _, _, _, _, _)
\* w, i (0-based), last_max, min_since_max, min_since_max_i, min_height, min_ratio, splits so far
LocalMinScan(w, i, lmax, msm, msmi, mh, mr, acc) ==
  IF i >= Len(w) THEN (IF acc = <<>> THEN <<>> ELSE Append(acc, Len(w)))
  ELSE LET x == w[i + 1]
           msm1 == IF x < msm THEN x ELSE msm
           msmi1 == IF x < msm THEN i ELSE msmi
           split == Min({lmax, x}) > Max({msm1 + mh, msm1 * mr})
           acc2 == IF split THEN Append(acc, msmi1) ELSE acc
           lmax2 == IF split THEN x ELSE lmax
           msm2 == IF split THEN BIG ELSE msm1
           msmi2 == IF split THEN i ELSE msmi1
           newmax == x > lmax2
       IN LocalMinScan(w, i + 1, IF newmax THEN x ELSE lmax2, IF newmax THEN BIG ELSE msm2, IF newmax THEN i ELSE msmi2, mh, mr, acc2)
LocalMinSplits(w, mh, mr) == LocalMinScan(w, 0, 0 - BIG, BIG, 0, mh, mr, <<>>)
\* the cut indices s(1) < ... < s(m) = n tile [0, n)
TilesParent(n, cuts) == cuts = <<>> \/ (/\ cuts[Len(cuts)] = n /\ cuts[1] > 0 /\ \A k \in 1..(Len(cuts) - 1) : cuts[k] < cuts[k + 1])
SplitParams == << <<0, 0>>, <<1, 0>>, <<0, 2>>, <<2, 3>> >>
\* observations of real splits (natural breaks: the cut index is a float computation, only the P-level is decided here):
\* [n, kids = <<start, length>> relative to the parent, err]
SplitObs == JsonDeserialize(IOEnv.TRACE_FILE)
ObsTiles(o) == /\ o.err = ""
               /\ o.kids = <<>> \/ (/\ o.kids[1][1] = 0 /\ o.kids[Len(o.kids)][1] + o.kids[Len(o.kids)][2] = o.n
                                    /\ \A k \in 1..Len(o.kids) : o.kids[k][2] > 0
                                    /\ \A k \in 1..(Len(o.kids) - 1) : o.kids[k][1] + o.kids[k][2] = o.kids[k + 1][1])

(* ------------------------------- summed waveform and down-sampling -------------------------------
   Two channels, one record each (time 0, dt 1, baseline 0): rec[ch] = sequence of S samples.  Hits = maximal runs of samples
   >= 1.  A peak covers samples [pt, pt + pl) of the time axis and has a buffer of NB samples.  sum_waveform adds, per hit that
   overlaps the peak, the record samples of the overlap times to_pe[ch]; area = sum of all contributions, area_per_channel
   likewise per channel; store_downsampled_waveform sums groups of f = ceil(pl / NB) samples and keeps floor(pl / f) groups. *)
ToPE == <<1, 2>>
InHit(r, k) == k >= 0 /\ k < Len(r) /\ r[k + 1] >= 1           \* sample k (0-based) of record r belongs to a hit
WfSample(recs, ch, t) == IF InHit(recs[ch], t) THEN recs[ch][t + 1] * ToPE[ch] ELSE 0
Wf(recs, pt, pl) == [k \in 1..pl |-> WfSample(recs, 1, pt + k - 1) + WfSample(recs, 2, pt + k - 1)]
SumWfDef(recs, pt, pl, nb) ==
  LET wf == Wf(recs, pt, pl)
      f == CeilDiv(pl, nb)
      len2 == IF f > 1 THEN pl \div f ELSE pl
      data == [j \in 1..len2 |-> SumSeq(SubSeq(wf, (j - 1) * f + 1, j * f))]
  IN [area |-> SumSeq(wf), apc |-> [ch \in 1..2 |-> SumSeq([k \in 1..pl |-> WfSample(recs, ch, pt + k - 1)])],
      dt |-> f, length |-> len2, data |-> data, lost |-> SumSeq(wf) - SumSeq(data)]
\* conservation: the waveform integrates to the area and to the per-channel sums; what down-sampling drops is exactly the
\* tail that does not fill a group (lost = 0 iff the property's "also after down-sampling" holds for this input)
SumWfLaws(recs, pt, pl, nb) == LET o == SumWfDef(recs, pt, pl, nb) IN
  /\ o.area = o.apc[1] + o.apc[2] /\ o.lost >= 0 /\ o.length * o.dt <= pl /\ o.length <= nb
  /\ (pl % o.dt = 0 => o.lost = 0)
\* peak windows: peaks are built from hits, so a window holds at least one hit sample (sum_waveform leaves peaks after the last hit alone)
PeakWindowsOf(recs) == {<<pt, pl>> \in (0..(Len(recs[1]) - 1)) \X (1..Len(recs[1])) :
                          pt + pl <= Len(recs[1]) /\ \E k \in pt..(pt + pl - 1) : InHit(recs[1], k) \/ InHit(recs[2], k)}

(* ------------------------------- widths -------------------------------
   compute_widths: for area fractions 0, 0.1, .., 1: width[k] = t(0.5 + f/2) - t(0.5 - f/2), area_decile_from_midpoint[k] =
   t(f) - t(0.5), with t(q) = dt * index_of_fraction(q).  Rationals as <<num, den>>.                                   *)
RatSub(a, b) == <<a[1] * b[2] - b[1] * a[2], a[2] * b[2]>>
WidthDef(w, k) == RatSub(IndexOfFractionDef(w, 10 + k, 20), IndexOfFractionDef(w, 10 - k, 20))          \* f = k / 10
DecileDef(w, k) == RatSub(IndexOfFractionDef(w, k, 10), IndexOfFractionDef(w, 1, 2))

(* ------------------------------- highest density region -------------------------------
   highest_density_region(w, fractions) (only_upper_part = False): the region for fraction f = p/q is the smallest "top set" of
   samples whose area reaches f of the total A: the top sets are, for every value v below the maximum, the samples above v
   (whole level sets), preceded - when the maximum occurs more than once - by the single last sample holding the maximum (the
   first element of the code's descending stable order); if no top set short of everything reaches f, the whole waveform.
   The region is reported as maximal runs [left, right) of 0-based indices; its amplitude is (area of the region - f * A) / size. *)
AreaOf(w, S) == SumSeq([i \in 1..Len(w) |-> IF i \in S THEN w[i] ELSE 0])
TopSet(w, v) == {i \in 1..Len(w) : w[i] > v}
HDRCandidates(w) == LET mx == Max({w[i] : i \in 1..Len(w)})
                        dup == Cardinality({i \in 1..Len(w) : w[i] = mx}) > 1
                    IN (IF dup THEN {{Max({i \in 1..Len(w) : w[i] = mx})}} ELSE {})
                       \cup {TopSet(w, v) : v \in {w[i] : i \in 1..Len(w)} \ {mx}}
HDRSet(w, p, q) == LET ok == {S \in HDRCandidates(w) : Cardinality(S) < Len(w) /\ q * AreaOf(w, S) >= p * SumSeq(w)}
                   IN IF ok = {} THEN 1..Len(w) ELSE CHOOSE S \in ok : \A T \in ok : Cardinality(S) <= Cardinality(T)
RECURSIVE RunsOf(_, _, _)
\* maximal runs of S as <<left, right>> with 0-based left and exclusive right, scanning i = 1..n+1
RunsOf(S, i, open) ==      \* open = 0: no run open, else the (1-based) start of the open run
  LET n == Max(S) IN
  IF i > n + 1 THEN <<>>
  ELSE IF i \in S THEN RunsOf(S, i + 1, IF open = 0 THEN i ELSE open)
       ELSE (IF open = 0 THEN <<>> ELSE << <<open - 1, i - 1>> >>) \o RunsOf(S, i + 1, 0)
HDRDef(w, p, q) == LET S == HDRSet(w, p, q) IN
                   [intervals |-> RunsOf(S, 1, 0), amp |-> <<q * AreaOf(w, S) - p * SumSeq(w), q * Cardinality(S)>>]
\* defining laws: the region holds at least the fraction, nothing outside is denser than anything inside, and without its lowest
\* level it would hold less than the fraction
HDRLaws(w, p, q) == LET S == HDRSet(w, p, q) m == Min({w[i] : i \in S}) IN
  /\ q * AreaOf(w, S) >= p * SumSeq(w)
  /\ \A i \in S : \A j \in (1..Len(w)) \ S : w[i] >= w[j]
  /\ q * AreaOf(w, {i \in S : w[i] > m}) < p * SumSeq(w) \/ p = 0
HDRFracs == << <<1, 4>>, <<1, 2>>, <<3, 4>>, <<9, 10>> >>

(* ------------------------------- case enumeration ------------------------------- *)
VARIABLE c
HitSet == {<<t, l, ch, ar>> \in (0..G) \X (1..2) \X (0..1) \X (1..2) : TRUE}
SortedHits == {hs \in SeqsUpTo(HitSet, NH) : \A i \in 1..(Len(hs) - 1) : hs[i][1] <= hs[i + 1][1]}
PeakSet == {<<t, e, ar>> \in (0..G) \X (1..(G + 1)) \X (1..2) : t < e}
\* merging several groups in one call: constituents fit the buffer of NB = 3 samples, groups are longer (down-sampled)
ShortPeakSet == {<<t, e, ar>> \in (0..G) \X (1..(G + 1)) \X (1..2) : t < e /\ e - t <= 3}
RECURSIVE ShortLists(_)     \* disjoint, time-ordered lists of exactly k short peaks (built peak by peak: the plain filter is too large for TLC)
ShortLists(k) == IF k = 1 THEN {<<p>> : p \in ShortPeakSet}
                 ELSE UNION {{Append(ps, p) : p \in {q \in ShortPeakSet : ps[Len(ps)][2] <= q[1]}} : ps \in ShortLists(k - 1)}
DisjointShort == UNION {ShortLists(k) : k \in 3..NH}
\* the ways to cut n peaks into consecutive groups of >= 2 (at most two groups), the rest unmerged: <<a1, b1, a2, b2>> (a2 = b2: one group)
GroupPairs(n) == {w \in (0..n) \X (0..n) \X (0..n) \X (0..n) : w[1] + 2 <= w[2] /\ w[2] <= w[3] /\ (w[3] = w[4] \/ w[3] + 2 <= w[4])
                                                                  /\ (w[3] = w[4] => w[3] = n)}
DisjointPeaks == {ps \in SeqsUpTo(PeakSet, NH) : Len(ps) >= 1 /\ \A i \in 1..(Len(ps) - 1) : ps[i][2] <= ps[i + 1][1]}
WaveSet == SeqsUpTo(0..3, NH) \ {<<>>}
Init == \/ Kind = "findpeaks" /\ c \in SortedHits \ {<<>>}
        \/ Kind = "merge" /\ c \in DisjointPeaks
        \/ Kind = "merge2" /\ c \in DisjointShort
        \/ Kind = "sma" /\ c \in WaveSet
        \/ Kind = "iof" /\ c \in {w \in WaveSet : SumSeq(w) > 0}
        \/ Kind = "split" /\ c \in {w \in WaveSet : Len(w) >= 2 /\ SumSeq(w) > 0}
        \/ Kind = "sumwf" /\ c \in {<<r1, r2>> : r1 \in [1..NH -> 0..2], r2 \in {[k \in 1..NH |-> 0], [k \in 1..NH |-> IF k % 2 = 0 THEN 1 ELSE 0],
                                                                                  [k \in 1..NH |-> IF k > 2 THEN 2 ELSE 0]}}
        \/ Kind = "widths" /\ c \in {w \in WaveSet : SumSeq(w) > 0}
        \/ Kind = "splitobs" /\ c \in 1..Len(SplitObs)
        \/ Kind = "hdr" /\ c \in {w \in WaveSet : Len(w) >= 2 /\ SumSeq(w) > 0}
Spec == Init /\ [][UNCHANGED c]_c

Params == << <<3, <<0, 0>>, 1000>>, <<2, <<0, 1>>, 1000>>, <<4, <<1, 2>>, 1000>>, <<3, <<1, 1>>, 6>>, <<5, <<2, 2>>, 1000>> >>
Windows(n) == {<<a, b>> \in (0..n) \X (0..n) : a + 2 <= b}      \* merge at least two peaks
Laws == CASE Kind = "findpeaks" -> \A k \in 1..Len(Params) : PeakLaws(c, Params[k][1], Params[k][2], Params[k][3])
          [] Kind = "merge" -> \A w \in Windows(Len(c)) : LET m == MergeDef(c, w[1], w[2]) r == ReplaceDef(c, <<m>>) IN
                                 /\ SumSeq([k \in 1..Len(r) |-> r[k][3]]) = SumSeq([k \in 1..Len(c) |-> c[k][3]])   \* area conserved
                                 /\ \A k \in 1..(Len(r) - 1) : r[k][2] <= r[k + 1][1]                                 \* still disjoint, ordered
                                 /\ Len(r) = Len(c) - (w[2] - w[1]) + 1
          [] Kind = "merge2" -> \A w \in GroupPairs(Len(c)) : \A g \in {<<w[1], w[2]>>, <<w[3], w[4]>>} : g[1] < g[2] =>
                                  LET m == MergeStored(c, g[1], g[2], 3) IN
                                  /\ m.area = SumSeq([k \in 1..(g[2] - g[1]) |-> c[g[1] + k][3]])        \* areas add
                                  /\ m.lost >= 0 /\ m.length <= 3 /\ m.endtime <= m.lastend
                                  /\ ((m.lastend - m.time) % m.dt = 0 => m.lost = 0 /\ m.endtime = m.lastend)   \* integrates to the area, spans to the last end
          [] Kind = "split" -> \A k \in 1..Len(SplitParams) : TilesParent(Len(c), LocalMinSplits(c, SplitParams[k][1], SplitParams[k][2]))
          [] Kind = "splitobs" -> ObsTiles(SplitObs[c])
          [] Kind = "hdr" -> \A k \in 1..Len(HDRFracs) : HDRLaws(c, HDRFracs[k][1], HDRFracs[k][2])
          [] Kind = "sumwf" -> \A win \in PeakWindowsOf(c) : \A nb \in {2, 3, NH} : SumWfLaws(c, win[1], win[2], nb)
          [] OTHER -> TRUE
Fracs == << <<0, 1>>, <<1, 10>>, <<1, 4>>, <<1, 2>>, <<3, 4>>, <<9, 10>>, <<1, 1>> >>
SetToSeq(S) == LET RECURSIVE f(_)
                   f(T) == IF T = {} THEN <<>> ELSE LET x == CHOOSE y \in T : TRUE IN <<x>> \o f(T \ {x})
               IN f(S)
WinSeq(n) == SetToSeq(Windows(n))
Out ==
  CASE Kind = "findpeaks" -> [hits |-> c, params |-> Params,
                              peaks |-> [k \in 1..Len(Params) |-> <<FindPeaksDef(c, Params[k][1], Params[k][2], 0, 1, Params[k][3]),
                                                                   FindPeaksDef(c, Params[k][1], Params[k][2], 3, 2, Params[k][3])>>]]
    [] Kind = "merge" -> LET ws == WinSeq(Len(c)) IN
                         [peaks |-> c, windows |-> ws, merged |-> [k \in 1..Len(ws) |-> MergeDef(c, ws[k][1], ws[k][2])],
                          replaced |-> [k \in 1..Len(ws) |-> ReplaceDef(c, <<MergeDef(c, ws[k][1], ws[k][2])>>)]]
    [] Kind = "sma" -> [w |-> c, sma |-> [k \in 0..3 |-> SMADef(c, k)]]
    [] Kind = "iof" -> [w |-> c, fracs |-> Fracs, idx |-> [k \in 1..Len(Fracs) |-> IndexOfFractionDef(c, Fracs[k][1], Fracs[k][2])]]
    [] Kind = "split" -> [w |-> c, params |-> SplitParams, cuts |-> [k \in 1..Len(SplitParams) |-> LocalMinSplits(c, SplitParams[k][1], SplitParams[k][2])]]
    [] Kind = "merge2" -> LET gs == SetToSeq(GroupPairs(Len(c))) IN
                          [peaks |-> c, groups |-> gs,
                           out |-> [i \in 1..Len(gs) |-> <<MergeStored(c, gs[i][1], gs[i][2], 3)>> \o
                                                          (IF gs[i][3] < gs[i][4] THEN <<MergeStored(c, gs[i][3], gs[i][4], 3)>> ELSE <<>>)]]
    [] Kind = "sumwf" -> LET ws == SetToSeq(PeakWindowsOf(c)) IN
                         [recs |-> c, windows |-> ws, nbs |-> <<2, 3, NH>>,
                          out |-> [i \in 1..Len(ws) |-> [j \in 1..3 |-> SumWfDef(c, ws[i][1], ws[i][2], <<2, 3, NH>>[j])]]]
    [] Kind = "splitobs" -> [tid |-> c]
    [] Kind = "hdr" -> [w |-> c, fracs |-> HDRFracs, hdr |-> [k \in 1..Len(HDRFracs) |-> HDRDef(c, HDRFracs[k][1], HDRFracs[k][2])]]
    [] Kind = "widths" -> [w |-> c, width |-> [k \in 0..10 |-> WidthDef(c, k)], decile |-> [k \in 0..10 |-> DecileDef(c, k)]]
Emit == PrintT(ToJson(Out))
=============================================================================
