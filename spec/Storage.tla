------------------------------ MODULE Storage ------------------------------
(* The saver protocol of strax for one data key at file-system-operation granularity
   (strax/storage/files.py:299-383 FileSaver, strax/storage/common.py:734-850 Saver,
   strax/io.py:116-132 save_file), with the failure routing of both processors, worker-thread
   chunk writes, process death, and retries by a fresh process.

   I-level: one action per file-system operation (or per decision point that issues none).
   File system (survives Crash):  final, temp : [exists, mdPresent, mdTrunc, listed, ended, exc, file]
   Process (lost on Crash):       pc, i, closed, pending, mdMem, inExc, gotExc, wpc, outcome

   Repaired = TRUE models the code after the "fix:" commits (failed worker writes are noticed,
   an exception in the closing path is recorded, unreadable metadata counts as broken);
   Repaired = FALSE is the protocol as found, kept to show the invariants have teeth.

   P-level (C04): VisibleImpliesCorrect, ReportedFailure, RetryHeals.                          *)
EXTENDS Naturals, Sequences, FiniteSets, TLC

CONSTANTS N,          \* number of non-empty chunks
          Pool,       \* TRUE: chunk files are written by worker threads (executor)
          Proc,       \* "single" | "threaded"
          MaxFaults, MaxRetry,
          Repaired,
          TwoPassPrune   \* TRUE: the first repair of the dropped-worker-failure defect, which looked at the finished futures in one pass
                         \* and dropped the finished ones in a second pass (a worker failing in between was lost again); kept to
                         \* show the invariants notice it.  FALSE: one pass, as the code is now.

Chunks == 1..N
NoDir == [exists |-> FALSE, mdPresent |-> FALSE, mdTrunc |-> FALSE, listed |-> {}, ended |-> FALSE, exc |-> FALSE,
          file |-> [c \in Chunks |-> "none"]]     \* file: none | empty (temp file opened) | tmp (written) | ok (renamed)

VARIABLES final, temp,
          pc, i, closed, pending, mdMem, inExc, gotExc, wpc,
          outcome,                     \* "running" | "returned" | "raised" | "dead"
          faults, retries, everFailed, rmOrder,
          clean                        \* no fault of any kind in the current attempt so far

vars == <<final, temp, pc, i, closed, pending, mdMem, inExc, gotExc, wpc, outcome, faults, retries, everFailed, rmOrder, clean>>
procvars == <<pc, i, closed, pending, mdMem, inExc, gotExc, wpc, outcome>>

\* what StorageFrontend.find sees
MdReadable(d) == d.mdPresent /\ ~d.mdTrunc
Broken(d) == ~(MdReadable(d) /\ d.ended /\ ~d.exc)
Visible == final.exists /\ ~Broken(final)
\* is_stored raises instead of answering (only before the repair: unreadable metadata)
Stuck == final.exists /\ ~MdReadable(final) /\ ~Repaired
Loadable == \A c \in final.listed : final.file[c] = "ok"
Correct == final.listed = Chunks /\ Loadable

Init == /\ final = NoDir /\ temp = NoDir
        /\ pc = "findwrite" /\ i = 1 /\ closed = FALSE /\ pending = {} /\ mdMem = {} /\ inExc = FALSE /\ gotExc = FALSE
        /\ wpc = [c \in Chunks |-> "idle"] /\ outcome = "running"
        /\ faults = 0 /\ retries = 0 /\ everFailed = FALSE /\ rmOrder \in {"md_first", "md_last"} /\ clean = TRUE

InitPhase == pc \in {"findwrite", "rmfinal_md", "rmfinal_files", "rmfinal_dir", "rmtemp", "mktemp", "md_trunc0", "md_write0"}
ClosePhase == pc \in {"close_wait", "close_trunc", "close_write", "renamedir"}
WorkerFailed == \E c \in pending : wpc[c] = "failed"

(* Where an exception raised by a saver step goes.
   - while the saver object is being constructed (get_components): straight to the caller, nothing is closed;
   - in the chunk loop: threaded -> save_from's except (got_exception) then finally: close in exception context;
                        single   -> kill_spies: close in exception context; the caller gets an exception;
   - in the closing path: threaded -> raised inside save_from's finally; recorded in got_exception only after the repair;
                          single   -> propagates to the caller (kill_spies then hits an already closed saver).        *)
Raise ==
  IF InitPhase THEN /\ outcome' = "raised" /\ pc' = "end" /\ UNCHANGED <<inExc, gotExc>>
  ELSE IF ClosePhase THEN
        /\ gotExc' = (gotExc \/ Proc = "single" \/ Repaired)
        /\ inExc' = TRUE /\ pc' = "reraise" /\ UNCHANGED outcome
  ELSE /\ gotExc' = TRUE /\ inExc' = TRUE /\ pc' = "close_wait" /\ UNCHANGED outcome

RmNext == IF temp.exists THEN "rmtemp" ELSE "mktemp"

Step(fail) ==
  /\ outcome = "running"
  /\ CASE pc = "findwrite" ->      \* find(write=True): _can_overwrite; FileSaver.__init__ decides what to remove
            /\ ~fail
            /\ pc' = IF final.exists THEN (IF rmOrder = "md_first" THEN "rmfinal_md" ELSE "rmfinal_files") ELSE RmNext
            /\ UNCHANGED <<final, temp, i, closed, pending, mdMem, inExc, gotExc, wpc, outcome>>
       [] pc = "rmfinal_md" ->     \* shutil.rmtree(final): unlink the metadata file
            IF fail THEN Raise /\ UNCHANGED <<final, temp, i, closed, pending, mdMem, wpc>>
            ELSE /\ final' = [final EXCEPT !.mdPresent = FALSE, !.mdTrunc = FALSE, !.ended = FALSE, !.exc = FALSE, !.listed = {}]
                 /\ pc' = IF rmOrder = "md_first" THEN "rmfinal_files" ELSE "rmfinal_dir"
                 /\ UNCHANGED <<temp, i, closed, pending, mdMem, inExc, gotExc, wpc, outcome>>
       [] pc = "rmfinal_files" ->  \* ... unlink the chunk files (one step: their order among themselves does not matter here)
            IF fail THEN Raise /\ UNCHANGED <<final, temp, i, closed, pending, mdMem, wpc>>
            ELSE /\ final' = [final EXCEPT !.file = [c \in Chunks |-> "none"]]
                 /\ pc' = IF rmOrder = "md_first" THEN "rmfinal_dir" ELSE "rmfinal_md"
                 /\ UNCHANGED <<temp, i, closed, pending, mdMem, inExc, gotExc, wpc, outcome>>
       [] pc = "rmfinal_dir" ->    \* ... rmdir
            IF fail THEN Raise /\ UNCHANGED <<final, temp, i, closed, pending, mdMem, wpc>>
            ELSE /\ final' = NoDir /\ pc' = RmNext
                 /\ UNCHANGED <<temp, i, closed, pending, mdMem, inExc, gotExc, wpc, outcome>>
       [] pc = "rmtemp" ->         \* stale temp directory of an earlier attempt (never looked at by readers)
            IF fail THEN Raise /\ UNCHANGED <<final, temp, i, closed, pending, mdMem, wpc>>
            ELSE /\ temp' = NoDir /\ pc' = "mktemp"
                 /\ UNCHANGED <<final, i, closed, pending, mdMem, inExc, gotExc, wpc, outcome>>
       [] pc = "mktemp" ->
            IF fail THEN Raise /\ UNCHANGED <<final, temp, i, closed, pending, mdMem, wpc>>
            ELSE /\ temp' = [NoDir EXCEPT !.exists = TRUE] /\ pc' = "md_trunc0"
                 /\ UNCHANGED <<final, i, closed, pending, mdMem, inExc, gotExc, wpc, outcome>>
       [] pc \in {"md_trunc0", "md_trunc", "close_trunc"} ->     \* open(metadata, "w")
            IF fail THEN Raise /\ UNCHANGED <<final, temp, i, closed, pending, mdMem, wpc>>
            ELSE /\ temp' = [temp EXCEPT !.mdPresent = TRUE, !.mdTrunc = TRUE]
                 /\ pc' = (CASE pc = "md_trunc0" -> "md_write0" [] pc = "md_trunc" -> "md_write" [] OTHER -> "close_write")
                 /\ UNCHANGED <<final, i, closed, pending, mdMem, inExc, gotExc, wpc, outcome>>
       [] pc \in {"md_write0", "md_write"} ->                    \* f.write(json)
            IF fail THEN Raise /\ UNCHANGED <<final, temp, i, closed, pending, mdMem, wpc>>
            ELSE /\ temp' = [temp EXCEPT !.mdTrunc = FALSE, !.listed = mdMem]
                 /\ pc' = IF Pool /\ pc = "md_write" THEN "prune"
                          ELSE IF i > N THEN "close_wait" ELSE (IF Pool THEN "submit" ELSE "opentmp")
                 /\ UNCHANGED <<final, i, closed, pending, mdMem, inExc, gotExc, wpc, outcome>>
       [] pc = "opentmp" ->        \* save_file: open(chunk_temp, "wb")
            IF fail THEN Raise /\ UNCHANGED <<final, temp, i, closed, pending, mdMem, wpc>>
            ELSE /\ temp' = [temp EXCEPT !.file[i] = "empty"] /\ pc' = "writetmp"
                 /\ UNCHANGED <<final, i, closed, pending, mdMem, inExc, gotExc, wpc, outcome>>
       [] pc = "writetmp" ->
            IF fail THEN Raise /\ UNCHANGED <<final, temp, i, closed, pending, mdMem, wpc>>
            ELSE /\ temp' = [temp EXCEPT !.file[i] = "tmp"] /\ pc' = "renamechunk"
                 /\ UNCHANGED <<final, i, closed, pending, mdMem, inExc, gotExc, wpc, outcome>>
       [] pc = "renamechunk" ->
            IF fail THEN Raise /\ UNCHANGED <<final, temp, i, closed, pending, mdMem, wpc>>
            ELSE /\ temp' = [temp EXCEPT !.file[i] = "ok"] /\ pc' = "md_trunc"
                 /\ mdMem' = mdMem \cup {i} /\ i' = i + 1
                 /\ UNCHANGED <<final, closed, pending, inExc, gotExc, wpc, outcome>>
       [] pc = "submit" ->   \* save(): executor.submit(save_file) and the chunk is listed in the metadata at once
            /\ ~fail
            /\ wpc' = [wpc EXCEPT ![i] = "opentmp"]
            /\ mdMem' = mdMem \cup {i} /\ i' = i + 1 /\ pc' = "md_trunc"
            /\ UNCHANGED <<final, temp, closed, pending, inExc, gotExc, outcome>>
       [] pc = "prune" ->    \* back in save_from: finished futures are dropped from `pending` (after the repair: looked at
                             \* first), then the new future (chunk i-1) is added
            /\ ~fail
            /\ IF Repaired /\ WorkerFailed
               THEN Raise /\ UNCHANGED <<final, temp, i, closed, pending, mdMem, wpc>>
               ELSE IF Repaired /\ TwoPassPrune
               THEN /\ pc' = "prune_drop"
                    /\ UNCHANGED <<final, temp, i, closed, pending, mdMem, inExc, gotExc, wpc, outcome>>
               ELSE /\ pending' = {c \in pending : wpc[c] \notin {"done", "failed"}} \cup {i - 1}
                    /\ pc' = IF i > N THEN "close_wait" ELSE "submit"
                    /\ UNCHANGED <<final, temp, i, closed, mdMem, inExc, gotExc, wpc, outcome>>
       [] pc = "prune_drop" ->    \* second pass of the two-pass variant: whatever is finished *now* is dropped unseen
            /\ ~fail
            /\ pending' = {c \in pending : wpc[c] \notin {"done", "failed"}} \cup {i - 1}
            /\ pc' = IF i > N THEN "close_wait" ELSE "submit"
            /\ UNCHANGED <<final, temp, i, closed, mdMem, inExc, gotExc, wpc, outcome>>
       [] pc = "close_wait" ->   \* close(): wait(pending) ...
            /\ ~fail
            /\ \A c \in pending : wpc[c] \in {"done", "failed"}
            /\ IF Repaired /\ WorkerFailed /\ ~inExc
               THEN Raise /\ UNCHANGED <<final, temp, i, closed, pending, mdMem, wpc>>     \* ... and look at the results
               ELSE /\ closed' = TRUE /\ pc' = "close_trunc"
                    /\ UNCHANGED <<final, temp, i, pending, mdMem, inExc, gotExc, wpc, outcome>>
       [] pc = "close_write" ->
            IF fail THEN Raise /\ UNCHANGED <<final, temp, i, closed, pending, mdMem, wpc>>
            ELSE /\ temp' = [temp EXCEPT !.mdTrunc = FALSE, !.listed = mdMem, !.ended = TRUE, !.exc = inExc]
                 /\ pc' = "renamedir"
                 /\ UNCHANGED <<final, i, closed, pending, mdMem, inExc, gotExc, wpc, outcome>>
       [] pc = "renamedir" ->
            IF fail THEN Raise /\ UNCHANGED <<final, temp, i, closed, pending, mdMem, wpc>>
            ELSE /\ final' = temp /\ temp' = NoDir /\ pc' = IF inExc THEN "reraise" ELSE "finish"
                 /\ UNCHANGED <<i, closed, pending, mdMem, inExc, gotExc, wpc, outcome>>
       [] pc = "reraise" ->      \* the saver thread ends with an exception; the caller looks at got_exception
            /\ ~fail
            /\ outcome' = IF gotExc THEN "raised" ELSE "returned"
            /\ pc' = "end"
            /\ UNCHANGED <<final, temp, i, closed, pending, mdMem, inExc, gotExc, wpc>>
       [] pc = "finish" ->
            /\ ~fail
            /\ outcome' = "returned" /\ pc' = "end"
            /\ UNCHANGED <<final, temp, i, closed, pending, mdMem, inExc, gotExc, wpc>>
       [] OTHER -> FALSE

FaultablePc == pc \notin {"findwrite", "submit", "prune", "prune_drop", "close_wait", "reraise", "finish", "end"}
SaverOK == Step(FALSE) /\ UNCHANGED <<faults, retries, everFailed, rmOrder, clean>>
SaverFail == /\ faults < MaxFaults /\ FaultablePc
             /\ Step(TRUE) /\ faults' = faults + 1 /\ everFailed' = TRUE /\ clean' = FALSE /\ UNCHANGED <<retries, rmOrder>>

\* another stage of the pipeline failed: this saver is closed in exception context
\* (threaded: MailboxKilled raised by its source; single: kill_spies)
ExternalKill ==
  /\ outcome = "running" /\ faults < MaxFaults /\ ~InitPhase /\ ~ClosePhase /\ pc \notin {"reraise", "finish", "end"}
  /\ pc \in {"opentmp", "submit"}      \* noticed between two chunks
  /\ inExc' = TRUE /\ gotExc' = TRUE /\ pc' = "close_wait"
  /\ faults' = faults + 1 /\ clean' = FALSE
  /\ UNCHANGED <<final, temp, i, closed, pending, mdMem, wpc, outcome, retries, everFailed, rmOrder>>

\* The saver object is dropped without ever being closed; its temp directory stays behind.  Happens when
\* get_components fails after this saver was constructed (constructing the next saver raises), and on the
\* single-thread bus when kill_spies itself fails on an earlier spy (closing an already closed saver raises).
ExternalAbandon ==
  /\ outcome = "running" /\ faults < MaxFaults /\ pc \in {"opentmp", "submit", "close_wait"} /\ ~inExc
  /\ outcome' = "raised" /\ pc' = "end" /\ faults' = faults + 1 /\ clean' = FALSE
  /\ UNCHANGED <<final, temp, i, closed, pending, mdMem, inExc, gotExc, wpc, retries, everFailed, rmOrder>>

(* worker threads of the pool: save_file(chunk) *)
Worker(c, fail) ==
  /\ outcome = "running" /\ wpc[c] \in {"opentmp", "writetmp", "renamechunk"}
  /\ IF fail \/ (~temp.exists /\ wpc[c] # "writetmp")     \* the temp directory was renamed away under the worker
     THEN /\ wpc' = [wpc EXCEPT ![c] = "failed"] /\ UNCHANGED temp
     ELSE IF ~temp.exists THEN /\ wpc' = [wpc EXCEPT ![c] = "renamechunk"] /\ UNCHANGED temp   \* writes into the open handle
     ELSE CASE wpc[c] = "opentmp" -> temp' = [temp EXCEPT !.file[c] = "empty"] /\ wpc' = [wpc EXCEPT ![c] = "writetmp"]
            [] wpc[c] = "writetmp" -> temp' = [temp EXCEPT !.file[c] = "tmp"] /\ wpc' = [wpc EXCEPT ![c] = "renamechunk"]
            [] wpc[c] = "renamechunk" -> temp' = [temp EXCEPT !.file[c] = "ok"] /\ wpc' = [wpc EXCEPT ![c] = "done"]
  /\ UNCHANGED <<final, pc, i, closed, pending, mdMem, inExc, gotExc, outcome>>
WorkerOK == \E c \in Chunks : Worker(c, FALSE) /\ UNCHANGED <<faults, retries, everFailed, rmOrder, clean>>
WorkerFail == /\ faults < MaxFaults /\ \E c \in Chunks : Worker(c, TRUE)
              /\ faults' = faults + 1 /\ everFailed' = TRUE /\ clean' = FALSE /\ UNCHANGED <<retries, rmOrder>>

Crash == /\ outcome = "running" /\ faults < MaxFaults /\ pc # "findwrite"
         /\ outcome' = "dead" /\ faults' = faults + 1 /\ clean' = FALSE
         /\ UNCHANGED <<final, temp, pc, i, closed, pending, mdMem, inExc, gotExc, wpc, retries, everFailed, rmOrder>>

\* a later identical request by a fresh process; make() returns at once when the data is found
Retry == /\ outcome \in {"returned", "raised", "dead"} /\ retries < MaxRetry
         /\ retries' = retries + 1 /\ everFailed' = FALSE /\ clean' = TRUE
         /\ IF Stuck THEN outcome' = "raised" /\ pc' = "end" /\ UNCHANGED <<i, closed, pending, mdMem, inExc, gotExc, wpc>>
            ELSE IF Visible THEN outcome' = "returned" /\ pc' = "end" /\ UNCHANGED <<i, closed, pending, mdMem, inExc, gotExc, wpc>>
            ELSE /\ pc' = "findwrite" /\ i' = 1 /\ closed' = FALSE /\ pending' = {} /\ mdMem' = {} /\ inExc' = FALSE
                 /\ gotExc' = FALSE /\ wpc' = [c \in Chunks |-> "idle"] /\ outcome' = "running"
         /\ UNCHANGED <<final, temp, faults>>
         /\ rmOrder' \in {"md_first", "md_last"}

Next == SaverOK \/ SaverFail \/ WorkerOK \/ WorkerFail \/ ExternalKill \/ ExternalAbandon \/ Crash \/ Retry
Spec == Init /\ [][Next]_vars

(* ---------------------------------- P-level (C04) ---------------------------------- *)
TypeOK == /\ pc \in {"findwrite", "rmfinal_md", "rmfinal_files", "rmfinal_dir", "rmtemp", "mktemp", "md_trunc0", "md_write0",
                     "md_trunc", "md_write", "opentmp", "writetmp", "renamechunk", "submit", "prune", "prune_drop", "close_wait", "close_trunc",
                     "close_write", "renamedir", "reraise", "finish", "end"}
          /\ outcome \in {"running", "returned", "raised", "dead"}
\* whatever is reported as stored loads completely and is the correct result; is_stored always answers
VisibleImpliesCorrect == (Visible => Correct) /\ (outcome # "running" => ~Stuck)
\* a save that failed is never reported to the caller as a success
ReportedFailure == ~(outcome = "returned" /\ everFailed)
\* a fault-free identical request makes the data available and correct, without manual cleanup
RetryHeals == (pc = "end" /\ clean) => (outcome = "returned" /\ Visible /\ Correct)
NoTruncFinal == final.exists => ~final.mdTrunc
=============================================================================
