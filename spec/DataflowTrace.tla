---------------------------- MODULE DataflowTrace ----------------------------
(* P-level validation of recorded real outputs: each trace is the stream of chunks a real
   Context.get_iter yielded for `target` under some chunking / processor / parallelism / storage
   configuration (or the chunks of a data type re-read from storage by a fresh context). *)
EXTENDS DataflowP, Json, IOUtils
Traces == JsonDeserialize(IOEnv.TRACE_FILE)
VARIABLE tid
TInit == tid \in 1..Len(Traces)
TSpec == TInit /\ [][UNCHANGED tid]_tid
Covers(out) == out # <<>> /\ out[1].s = 0 /\ out[Len(out)].e = RunEnd
Accepted == TilingLaw(Traces[tid].out, Traces[tid].target) /\ Covers(Traces[tid].out)
=============================================================================
