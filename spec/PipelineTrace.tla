--------------------------- MODULE PipelineTrace ---------------------------
(* Trace validation for Pipeline.tla: recorded executions of the real ThreadedMailboxProcessor on a chain
   of plugins under the deterministic scheduler.  One record per scheduler step: the thread that ran
   (actor) and the projection of the real mailboxes after the step (messages pushed, END pushed, killed,
   force_killed, class of killed_because, _subscribers_have_read, _subscriber_waiting_for, which threads have
   finished, what the caller got).  A step of the real thread may be 0..K actions of that thread in the
   model (it crosses at most one locked section); pcs, local buffers and counters are inferred by TLC.
   Every invariant of the cfg is evaluated in every state along every accepted trace.                   *)
EXTENDS Pipeline, Json, IOUtils, TLCExt

Traces == JsonDeserialize(IOEnv.TRACE_FILE)
NT == Len(Traces)
K == 2 * NChunks + 4      \* a saver may grab all messages at once and save them without another scheduling point

VARIABLES tid, l, budget
tvars == <<vars, tid, l, budget>>

Match(e) ==
  /\ \A m \in Stages :
       /\ sent[m] = e.sent[m] /\ ended[m] = e.ended[m] /\ killed[m] = e.killed[m] /\ force[m] = e.force[m]
       /\ reason[m] = e.reason[m]
       /\ \A r \in Readers(m) : rd[m][r] = e.rd[m][r] /\ waiting[m][r] = e.waiting[m][r]
  /\ \A i \in Stages : e.sdone[i] => spc[i] = "done"
  /\ \A i \in Saved : e.vdone[i] => vpc[i] = "done"
  /\ e.mdone => (mpc = "end" /\ (e.outcome = "any" \/ outcome = e.outcome))

ActorNext(a) == \/ a.kind = "stage" /\ StageNext(a.i)
                \/ a.kind = "saver" /\ a.i \in Saved /\ SaverNext(a.i)
                \/ a.kind = "main" /\ MainNext

Events == Traces[tid].events
TraceInit == /\ tid \in 1..NT /\ l = 1 /\ budget = K
             /\ Init /\ cap = Traces[tid].cap /\ lazy = Traces[tid].lazy /\ fail = Traces[tid].fail
TraceNext ==
  /\ l <= Len(Events) /\ tid' = tid
  /\ \/ budget > 0 /\ ActorNext(Events[l].actor) /\ budget' = budget - 1 /\ l' = l
     \/ Match(Events[l]) /\ l' = l + 1 /\ budget' = K /\ UNCHANGED vars
TraceSpec == TraceInit /\ [][TraceNext]_tvars

ASSUME \A i \in 1..NT : TLCSet(i, 0)
\* highest position reached per trace (needs -workers 1)
Progress == IF l > TLCGet(tid) THEN TLCSet(tid, l) ELSE TRUE
Rejected == {i \in 1..NT : TLCGet(i) # Len(Traces[i].events) + 1}
AllAccepted == IF Rejected = {} THEN TRUE
               ELSE /\ \A i \in Rejected : PrintT(<<"REJECTED trace", i, "at event", TLCGet(i)>>)
                    /\ FALSE
\* along accepted traces
TraceEveryoneStops == (l > Len(Events) /\ mpc = "end") => AllThreadsDone
=============================================================================
