"""Entry point: run_check.py <ID> [--tier quick|thorough] [--replay PATH]"""
import argparse
import importlib
import os
import sys
import traceback

sys.path.insert(0, os.path.dirname(os.path.abspath(__file__)))
import vcommon  # noqa: E402


def main():
    ap = argparse.ArgumentParser()
    ap.add_argument("pid")
    ap.add_argument("--tier", default=os.environ.get("VERIF_TIER", "quick"), choices=["quick", "thorough"])
    ap.add_argument("--replay", default=None)
    a = ap.parse_args()
    seed = int(os.environ.get("VERIF_SEED", "0") or 0)
    pid = a.pid.upper()
    try:
        mod = importlib.import_module(pid.lower())
        chk = vcommon.Check(pid, a.tier, seed)
        if a.replay:
            rc = mod.replay(chk, a.replay)
        else:
            mod.run(chk)
            rc = chk.finish()
    except vcommon.MachineryError as e:
        print("MACHINERY-ERROR:", e)
        vcommon.cleanup()
        sys.exit(2)
    except Exception:
        traceback.print_exc()
        print("MACHINERY-ERROR: unexpected exception in checker")
        vcommon.cleanup()
        sys.exit(2)
    sys.exit(rc)


if __name__ == "__main__":
    main()
