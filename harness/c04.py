"""C04: a crash or I/O failure never leaves wrong data visible as valid.

spec/Storage.tla models the saver protocol at file-system-operation granularity (temp directory,
chunk temp file + rename, metadata rewrite, final directory rename, removal of old data), the
failure routing of both processors, worker-thread writes, process death and retries; TLC checks
VisibleImpliesCorrect / ReportedFailure / RetryHeals over all fault points.
Binding: every file-system operation of a real Context.make is a fault point: the harness injects
an OSError or kills the (forked) process before / after it, then a fresh Context observes what is
visible, and retries.  TLC validates (a) the recorded operation sequence of every saver against
Storage.tla (StorageTrace.tla) and (b) every observation against the P-level (StorageObs.tla).
"""
import json
import os
import re
import shutil
import sys
import tempfile
import logging

import numpy as np
import vcommon as V

logging.disable(logging.CRITICAL)
import strax  # noqa: E402
import fsfault  # noqa: E402
import hplugins as H  # noqa: E402

CHUNKS = [dict(s=0, e=10, rows=[[1, 3, 5], [4, 6, 7]]), dict(s=10, e=20, rows=[[11, 12, 1]]),
          dict(s=20, e=30, rows=[[21, 25, 2], [26, 29, 3]])]
SRC_ROWS = [r for c in CHUNKS for r in c["rows"]]
REF = dict(src=SRC_ROWS, mapped=H.expected_map(SRC_ROWS))
TYPES = ("src", "mapped")


class MPSrc(strax.Plugin):
    """Source of the multiprocess setting (module level: it travels to the worker processes by pickle)."""
    provides = ("src",)
    depends_on = ()
    dtype = H.ROW
    data_kind = "src"
    parallel = "process"
    rechunk_on_save = False
    NCH = 2
    FAIL = None

    def source_finished(self):
        return True

    def is_ready(self, chunk_i):
        return chunk_i < self.NCH

    def compute(self, chunk_i):
        if self.FAIL == ("src", chunk_i):
            raise H.HarnessFailure(f"src fails at chunk {chunk_i}")
        c = CHUNKS[chunk_i]
        return self.chunk(start=c["s"], end=c["e"], data=H.rows_to_array(c["rows"]))


class MPMapped(strax.Plugin):
    provides = ("mapped",)
    depends_on = ("src",)
    dtype = H.ROW
    data_kind = "mapped"
    parallel = "process"
    rechunk_on_save = False
    FAIL = None

    def compute(self, src, start, end):
        if self.FAIL is not None and self.FAIL[0] == "mapped" and start == CHUNKS[self.FAIL[1]]["s"]:
            raise H.HarnessFailure(f"mapped fails at chunk {self.FAIL[1]}")
        return H.rows_to_array(H.expected_map(H.array_to_rows(src)))


def make_ctx(d, nchunks, fail=None, overwrite="if_broken", multiprocess=False):
    if multiprocess:
        MPSrc.NCH = nchunks
        MPSrc.FAIL = MPMapped.FAIL = tuple(fail) if fail else None
        return strax.Context(storage=[strax.DataDirectory(d, overwrite=overwrite)], register=[MPSrc, MPMapped],
                             allow_multiprocess=True, allow_lazy=True, timeout=60)
    src = H.source("src", CHUNKS[:nchunks], fail_at=fail[1] if fail and fail[0] == "src" else None)
    mp = H.rowmap("mapped", "src", fail_at=fail[1] if fail and fail[0] == "mapped" else None, rechunk_on_save=False)
    st = strax.Context(storage=[strax.DataDirectory(d, overwrite=overwrite)], register=[src, mp],
                       allow_multiprocess=False, allow_lazy=True, timeout=60)
    return st


def observe(d, nchunks, multiprocess=False):
    st = make_ctx(d, nchunks, multiprocess=multiprocess)
    res = {}
    for t in TYPES:
        try:
            stored = st.is_stored("0", t)
        except Exception as e:  # noqa
            res[t] = "BROKEN-is_stored:" + type(e).__name__
            continue
        if not stored:
            res[t] = "absent"
            continue
        try:
            x = st.get_array("0", t, progress_bar=False)
            ref = [r for c in CHUNKS[:nchunks] for r in c["rows"]]
            if t == "mapped":
                ref = H.expected_map(ref)
            res[t] = "valid" if H.array_to_rows(x) == ref else "wrong"
        except Exception as e:  # noqa
            res[t] = "unloadable"
    return res


def run_make(d, setting, fault, plugin_fail=None):
    """Run Context.make in a forked child (so that a crash kills everything); returns
    (outcome, event log)."""
    r, w = os.pipe()
    pid = os.fork()
    if pid == 0:
        os.close(r)
        os.setsid()          # own process group: whatever this child leaves behind can be killed with it
        outcome = "returned"
        try:
            # tqdm guards its instance registry with a multiprocessing lock shared by every fork of this process tree: a child that
            # dies (injected death) while one of its threads holds it would block all others for ever.  Process-local lock instead.
            import threading
            import tqdm
            tqdm.tqdm.set_lock(threading.RLock())
            fsfault.install()
            fsfault.STATE.reset(d, fault, md_first=setting.get("md_first", True))
            if setting.get("worker_timing") == "late":
                fsfault.hold_workers()
            if setting.get("multiprocess"):
                # plugins and their savers run in worker processes: one event log for all of them; and this (os.fork'ed) process
                # must be allowed to have process-pool children although it descends from a daemonic pool worker
                import multiprocessing
                multiprocessing.current_process()._config["daemon"] = False
                fsfault.STATE.share(os.path.join(d, "..", os.path.basename(d) + ".fslog"))
            devnull = os.open(os.devnull, os.O_WRONLY)
            os.dup2(devnull, 1)
            os.dup2(devnull, 2)
            try:
                st = make_ctx(d, setting["nchunks"], fail=plugin_fail, multiprocess=bool(setting.get("multiprocess")))
                st.make("0", "mapped", processor=setting["processor"], max_workers=setting["max_workers"],
                        progress_bar=False)
            except BaseException as e:  # noqa
                outcome = "raised:" + type(e).__name__
            log, fired = fsfault.STATE.log, fsfault.STATE.fired
            if fsfault.STATE.shared:
                log = fsfault.STATE.shared_log()
                fired = os.path.exists(fsfault.STATE.shared + ".fired")
                for x in (fsfault.STATE.shared, fsfault.STATE.shared + ".fired"):
                    if os.path.exists(x):
                        os.remove(x)
            msg = json.dumps(dict(outcome=outcome, log=log, fired=fired))
            os.write(w, msg.encode())
        finally:
            os._exit(0)
    os.close(w)
    # read until the child is gone: process-pool workers of a child that died may survive it and keep the pipe's write end open,
    # so end-of-file may never come; they are killed with the child's process group afterwards
    import select
    import signal
    buf = b""
    st = None
    while True:
        ready, _, _ = select.select([r], [], [], 0.2)
        if ready:
            b = os.read(r, 65536)
            if not b:
                break
            buf += b
            continue
        if st is None:
            p_, s_ = os.waitpid(pid, os.WNOHANG)
            if p_ == pid:
                st = s_
        elif not select.select([r], [], [], 0.3)[0]:
            break
    os.close(r)
    if st is None:
        _, st = os.waitpid(pid, 0)
    try:
        os.killpg(pid, signal.SIGKILL)
    except (ProcessLookupError, PermissionError):
        pass
    if os.WIFEXITED(st) and os.WEXITSTATUS(st) == 17:
        return "died", None, True
    if not buf:
        return "died-unexpectedly", None, False
    m = json.loads(buf.decode())
    return m["outcome"], m["log"], m["fired"]


def is_saver_op(label):
    """An operation issued by a saver object that exists (everything except the parent-directory probe
    of FileSytemBackend._saver, which runs before a saver is created)."""
    if label.startswith("makedirs:") and not label.rstrip("/").endswith("_temp"):
        return False
    return True


def scenario(arg):
    setting, fault, plugin_fail, second = arg
    d = tempfile.mkdtemp(prefix="verif_c04_")
    try:
        outcome, log, fired = run_make(d, setting, fault, plugin_fail)
        obs1 = observe(d, setting["nchunks"], bool(setting.get("multiprocess")))
        rec = dict(setting=setting, fault=fault, plugin_fail=plugin_fail, outcome=outcome.split(":")[0],
                   exc=outcome, fired=fired, obs=obs1, log=log, second=second)
        if second is not None:
            o2, log2, fired2 = run_make(d, setting, second, None)
            rec["outcome2"] = o2.split(":")[0]
            rec["fired2"] = fired2
            rec["obs2"] = observe(d, setting["nchunks"], bool(setting.get("multiprocess")))
        # a later identical request, fault free
        o3, log3, _ = run_make(d, setting, None, None)
        rec["retry_outcome"] = o3.split(":")[0]
        rec["retry_exc"] = o3
        rec["retry_obs"] = observe(d, setting["nchunks"], bool(setting.get("multiprocess")))
        rec["retry_log"] = log3
        return rec
    finally:
        shutil.rmtree(d, ignore_errors=True)


def obs_record(rec):
    """The abstract observation judged by StorageObs.tla."""
    f = rec["fault"]
    kind = "none"
    saver_op = False
    if rec["plugin_fail"]:
        kind = "plugin"
    elif f is not None and rec["fired"]:
        kind = "error" if f[2] == "error" else "crash"
        saver_op = is_saver_op(f[0])
    out = dict(kind=kind, saverop=saver_op, outcome=rec["outcome"],
               vis=[rec["obs"][t] for t in TYPES],
               retry=rec["retry_outcome"], after=[rec["retry_obs"][t] for t in TYPES])
    if "obs2" in rec:
        out["vis2"] = [rec["obs2"][t] for t in TYPES]
        out["outcome2"] = rec["outcome2"]
        out["kind2"] = ("error" if rec["second"][2] == "error" else "crash") if rec["fired2"] else "none"
        out["saverop2"] = is_saver_op(rec["second"][0])
    else:
        out["vis2"] = out["vis"]
        out["outcome2"] = "none"
        out["kind2"] = "none"
        out["saverop2"] = False
    return out


# ----------------------------------------------------------------------------- saver event traces (I-level binding)
def saver_traces(rec):
    """Split the global op log into one abstract event sequence per saver (data type):
    events [a: action, c: chunk number (1-based, 0 = n/a), f: this operation was the injected OSError]."""
    out = {}
    if rec["log"] is None or rec["second"] is not None:
        return out
    f = rec["fault"]
    for t in TYPES:
        evs = []
        skip = False
        for label, k in rec["log"]:
            op, _, path = label.partition(":")
            if f"-{t}-" not in path:
                continue
            src_path = path.split(">")[0]
            base = src_path.split("/")[-1]
            m = re.search(r"-(\d{6})(_temp)?$", base)
            hit = bool(f is not None and rec["fired"] and f[2] == "error" and f[0] == label and f[1] == k)
            c = int(m.group(1)) + 1 if m else 0
            if op == "makedirs":
                a = "mktemp" if src_path.endswith("_temp") else "probe"
            elif op == "open_w":
                a = "opentmp" if m else "md_trunc"
            elif op == "write":
                a = "writetmp" if m else "md_write"
            elif op == "rename":
                a = "renamechunk" if m else "renamedir"
            else:
                skip = True      # removal of old data: not covered by the trace specification
                break
            evs.append(dict(a=a, c=c, f=hit, v=""))
        if skip or not evs:
            continue
        own = any(e["f"] for e in evs)
        if own or (f is None and rec["plugin_fail"] is None):
            # the caller's outcome is this saver's business only if the fault (if any) was its own
            evs.append(dict(a="outcome", c=0, f=False, v=rec["outcome"]))
        out[t] = evs
    return out


# ----------------------------------------------------------------------------- TLC
def model_check(chk):
    """Design level: all fault points of the saver protocol (repaired protocol must satisfy the P-level;
    the protocol as found must violate it - a vacuity guard for the invariants)."""
    findings = []
    teeth = []
    quick = chk.tier == "quick"
    for proc, pool in (("single", False), ("threaded", False), ("threaded", True)):
        for repaired in (True, False):
            consts = dict(N=2 if quick else 3, Pool=pool, Proc=proc, MaxFaults=2, MaxRetry=2 if quick else 3, Repaired=repaired,
                          TwoPassPrune=False)
            files = {"Storage.cfg": V.cfg_text(consts, ["TypeOK", "VisibleImpliesCorrect", "ReportedFailure",
                                                        "RetryHeals", "NoTruncFinal"])}
            d = V.stage_spec(["Storage"], files)
            r = V.run_tlc(d, "Storage", "Storage.cfg", workers=4, timeout=900)
            chk.add_tlc(r, f"Storage.tla {consts}")
            V.tlc_must_finish(r, f"Storage {consts}")
            if repaired and r.violated:
                findings.append((consts, r.violated, [a for a, _ in r.trace]))
            if not repaired:
                teeth.append(dict(consts=consts, violated=r.violated))
                if not r.violated:
                    raise V.MachineryError(f"Storage.tla with Repaired=FALSE satisfies every invariant for {consts}: "
                                           "the invariants have no teeth")
    # the first repair of the dropped-worker-failure defect looked at finished futures in one pass and dropped them in a second
    # one: a worker failing in between was lost again (found by the late-worker schedule on the real code); the model must notice
    consts = dict(N=2, Pool=True, Proc="threaded", MaxFaults=2, MaxRetry=2, Repaired=True, TwoPassPrune=True)
    d = V.stage_spec(["Storage"], {"Storage.cfg": V.cfg_text(consts, ["TypeOK", "VisibleImpliesCorrect", "ReportedFailure", "RetryHeals",
                                                                      "NoTruncFinal"])})
    r = V.run_tlc(d, "Storage", "Storage.cfg", workers=4, timeout=900)
    chk.add_tlc(r, f"Storage.tla {consts}")
    V.tlc_must_finish(r, f"Storage {consts}")
    teeth.append(dict(consts=consts, violated=r.violated))
    if not r.violated:
        raise V.MachineryError("Storage.tla with the two-pass prune satisfies every invariant: the invariants have no teeth")
    chk.extra["unrepaired_protocol_violations"] = teeth
    return findings


def validate_obs(chk, recs):
    d = V.stage_spec(["StorageObs"], {"StorageObs.cfg": "SPECIFICATION Spec\nINVARIANT Accepted\nCHECK_DEADLOCK FALSE\n"})
    with open(os.path.join(d, "obs.json"), "w") as f:
        json.dump([obs_record(r) for r in recs], f)
    r = V.run_tlc(d, "StorageObs", workers=1, timeout=900, env={"TRACE_FILE": os.path.join(d, "obs.json")},
                  args=["-continue"])
    chk.add_tlc(r, "P-level validation of observations (StorageObs.tla)")
    if not (r.ok or r.violated):
        raise V.MachineryError("StorageObs failed: " + r.out[-2000:])
    rej = {}
    for m in re.finditer(r"Invariant (\w+) is violated[^\n]*\n(?:[^\n]*\n)*?/?\\? ?tid = (\d+)", r.out):
        pass
    for blk in r.out.split("Error: Invariant ")[1:]:
        m = re.search(r"tid = (\d+)", blk)
        if m:
            rej[int(m.group(1))] = True
    return sorted(rej)


def settings(tier):
    S = [dict(processor="single_thread", max_workers=None, nchunks=2),
         dict(processor="threaded_mailbox", max_workers=None, nchunks=2),
         dict(processor="threaded_mailbox", max_workers=2, nchunks=2),
         # the same, with every pool worker finishing right after the saver found its future unfinished
         dict(processor="threaded_mailbox", max_workers=2, nchunks=2, worker_timing="late"),
         # worker *processes*: process-parallel plugins and their savers inlined into the source (ParallelSourcePlugin); chunk files and
         # per-chunk metadata files are written by the workers, collected by the parent at close
         dict(processor="threaded_mailbox", max_workers=2, nchunks=2, multiprocess=True)]
    if tier == "thorough":
        S += [dict(processor="single_thread", max_workers=None, nchunks=3),
              dict(processor="threaded_mailbox", max_workers=2, nchunks=3)]
    return S


def which_clause(o):
    bad = []
    for tag, vis in (("after the fault", o["vis"]), ("after the second fault", o["vis2"])):
        for t, v in zip(TYPES, vis):
            if v not in ("absent", "valid"):
                bad.append(f"{t} is reported stored but is {v} {tag}")
    if o["kind"] == "error" and o["saverop"] and o["outcome"] == "returned":
        bad.append("a failed save was reported to the caller as success")
    if o["kind2"] == "error" and o["saverop2"] and o["outcome2"] == "returned":
        bad.append("a failed save (second attempt) was reported to the caller as success")
    if o["retry"] != "returned" or o["after"][-1] != "valid":
        bad.append(f"a later identical request did not heal: outcome {o['retry']}, stored state {o['after']}")
    return bad


def fault_label_class(label):
    """Stable class of a fault point (for signatures): operation + path with the hash removed."""
    return re.sub(r"-[a-z0-9]{10}", "", label)


def run(chk):
    chk.level = "model_checking"
    findings = model_check(chk) if os.path.exists(os.path.join(V.SPEC, 'Storage.tla')) else []
    chk.extra["design_level_counterexamples"] = [dict(consts=c, invariant=i, path=p) for c, i, p in findings]
    work = []
    for setting in settings(chk.tier):
        # fault-free run collects the fault points of this setting
        base = scenario((setting, None, None, None))
        if base["outcome"] != "returned" or any(v != "valid" for v in base["obs"].values()):
            raise V.MachineryError(f"fault-free make does not work in the harness: {base['exc']} {base['obs']}")
        points = []
        for lk in base["log"]:
            if tuple(lk) not in points:       # parent and worker processes may number the same label alike
                points.append(tuple(lk))
        sname = (f"{setting['processor']}/{setting['max_workers']}/{setting['nchunks']}" + ("/late-workers" if setting.get("worker_timing") else "")
                 + ("/worker-processes" if setting.get("multiprocess") else ""))
        chk.extra.setdefault("fault_points", {})[sname] = len(points)
        for j, (label, k) in enumerate(points):
            for mode in ("error", "crash_before", "crash_after"):
                if chk.tier == "quick" and mode == "crash_before" and j > 0 and setting["processor"] == "single_thread":
                    continue      # = death just after the previous operation of the (single) thread
                work.append((setting, (label, k, mode), None, None))
        for stage in TYPES:
            for i in range(setting["nchunks"]):
                work.append((setting, None, (stage, i), None))
        # removal of old (broken) data during a retry: death / error at every unlink and the rmdir, both removal orders
        for md_first in (True, False):
            s2 = dict(setting, md_first=md_first)
            first = scenario((s2, None, ("mapped", 1), None))
            o_retry = first["retry_log"] or []
            for (label, k) in o_retry:
                if label.split(":")[0] in ("rmtree", "unlink", "rmdir"):
                    for mode in ("error", "crash_before", "crash_after"):
                        work.append((s2, None, ("mapped", 1), (label, k, mode)))
        if chk.tier == "thorough":
            # fault sequences: a second fault during the retry (which has to remove the leftovers of the first)
            retry_points = None
            for (label, k) in points[::3]:
                for mode in ("error", "crash_after"):
                    first = (label, k, mode)
                    if retry_points is None:
                        retry_points = points
                    for (l2, k2) in retry_points[1::4]:
                        work.append((setting, first, None, (l2, k2, "error")))
                        work.append((setting, first, None, (l2, k2, "crash_before")))
    recs = V.pmap(scenario, work, procs=V.NCPU)
    rejected = validate_obs(chk, recs)
    chk.rule = ("fault point = every file-system operation (makedirs, open-truncate, write, rename, rmtree, remove) issued by "
                "Context.make of a 2-type pipeline x {OSError, death before, death after} + plugin exceptions at every chunk, "
                "for single-thread / threaded / threaded+thread pool (also with late workers) / threaded+process pool with inlined savers; each followed by a fresh-context observation and a fault-free retry "
                "(thorough: a second fault during the retry). non-trivial = the fault fired and changed the outcome")
    chk.exhaustive = True
    for i, rec in enumerate(recs, 1):
        o = obs_record(rec)
        chk.case(key=json.dumps([rec["setting"], rec["fault"], rec["plugin_fail"], rec["second"]]),
                 nontrivial=(rec["outcome"] != "returned"))
        chk.traces += 1
        if i in rejected:
            f = rec["fault"] or ("plugin", rec["plugin_fail"])
            clauses = which_clause(o)
            proc = (f"{rec['setting']['processor']}/workers={rec['setting']['max_workers']}" + ("/late-workers" if rec["setting"].get("worker_timing") else "")
                    + ("/worker-processes" if rec["setting"].get("multiprocess") else ""))
            fl = fault_label_class(f[0]) if rec["fault"] else f"plugin:{rec['plugin_fail'][0]}"
            mode = f[2] if rec["fault"] else "exception"
            if rec["second"]:
                fl += ";then:" + rec["second"][2] + "@" + fault_label_class(rec["second"][0])
            sig = f"C04:{proc}:{mode}@{fl}:{'|'.join(sorted(set(c.split(' after')[0].split(':')[0] for c in clauses)))}"
            chk.violation(sig, f"{proc}, fault {f}: " + "; ".join(clauses) +
                          f" [caller: {rec['exc']}; visible: {rec['obs']}; retry: {rec['retry_exc']} -> {rec['retry_obs']}]",
                          dict(setting=rec["setting"], fault=rec["fault"], plugin_fail=rec["plugin_fail"], second=rec["second"]))
    chk.sample(dict(setting=recs[5]["setting"], fault=recs[5]["fault"], outcome=recs[5]["exc"], visible=recs[5]["obs"],
                    retry=recs[5]["retry_obs"]))
    chk.sample(dict(ops_of_a_fault_free_make=[l for l, _ in recs[0]["log"] or []][:12]))
    # I-level binding: operation sequences of the real savers are behaviours of Storage.tla
    drift = validate_saver_traces(chk, recs) if os.path.exists(os.path.join(V.SPEC, 'StorageTrace.tla')) else []
    chk.drift += drift
    chk.assumptions += ["faults are injected at the Python-level calls strax makes (os.rename, os.makedirs, shutil.rmtree, "
                        "os.remove, open(...,'w'), file.write); partial writes inside one write() call are not modelled",
                        "process death = os._exit in a forked child; the parent observes with a fresh Context"]
    # design-level counterexamples must be reproducible on the real code, otherwise the model is wrong
    if findings and not chk.violations and not chk.known_hit:
        raise V.MachineryError(f"Storage.tla violates {findings[0][1]} but no real fault scenario does: model is wrong")


def validate_saver_traces(chk, recs):
    groups = {}
    for rec in recs:
        if rec["setting"].get("multiprocess"):
            continue          # forked savers follow another protocol (per-chunk metadata files): judged at the P-level only
        for t, evs in saver_traces(rec).items():
            key = (rec["setting"]["processor"], rec["setting"]["max_workers"] == 2, rec["setting"]["nchunks"])
            groups.setdefault(key, []).append((evs, rec["setting"], rec["fault"] or rec["plugin_fail"], t))
    drift = []
    nval = 0
    for (proc, pool, n), items in groups.items():
        consts = dict(N=n, Pool=pool, Proc="single" if proc == "single_thread" else "threaded", MaxFaults=1, MaxRetry=0,
                      Repaired=True, TwoPassPrune=False)
        d = V.stage_spec(["Storage", "StorageTrace"], {"StorageTrace.cfg":
                         V.cfg_text(consts, ["Progress", "VisibleImpliesCorrect", "ReportedFailure", "RetryHeals"],
                                    spec="TraceSpec", extra="POSTCONDITION AllAccepted\n")})
        with open(os.path.join(d, "traces.json"), "w") as f:
            json.dump([dict(events=e) for e, _, _, _ in items], f)
        r = V.run_tlc(d, "StorageTrace", workers=1, timeout=1800,
                      env={"TRACE_FILE": os.path.join(d, "traces.json"),
                           "JAVA_TOOL_OPTIONS": "-Dtlc2.tool.queue.IStateQueue=StateDeque"})
        chk.add_tlc(r, f"saver operation traces vs Storage.tla {consts}")
        rej = {int(m.group(1)): int(m.group(2)) for m in re.finditer(r'"REJECTED trace", (\d+), "at event", (\d+)', r.out)}
        if not (r.ok or rej or r.violated):
            raise V.MachineryError("StorageTrace failed: " + r.out[-2500:])
        if r.violated and r.violated != "AllAccepted":
            drift.append(dict(kind="invariant " + r.violated + " violated along a recorded saver trace", group=consts))
        for i, pos in rej.items():
            evs, s_, f_, t = items[i - 1]
            drift.append(dict(kind="saver-trace-not-a-behaviour-of-Storage.tla", setting=s_, fault=f_, saver=t, at=pos,
                              events=[(e["a"], e["c"], e["f"], e["v"]) for e in evs]))
        nval += len(items) - len(rej)
    chk.extra["saver_traces_validated"] = nval
    chk.traces += nval
    return drift


def replay(chk, path):
    rp = json.load(open(path))["replay"]
    rec = scenario((rp["setting"], tuple(rp["fault"]) if rp["fault"] else None,
                    tuple(rp["plugin_fail"]) if rp["plugin_fail"] else None,
                    tuple(rp["second"]) if rp["second"] else None))
    o = obs_record(rec)
    bad = which_clause(o)
    print("caller:", rec["exc"], "visible:", rec["obs"], "retry:", rec["retry_exc"], rec["retry_obs"])
    print("P-level:", bad or "holds")
    return 1 if bad else 0
