"""C09: overlap-window plugins give chunking-independent results at chunk boundaries.

spec/OverlapWindow.tla transcribes OverlapWindowPlugin.do_compute / cache_beyond / the final flush
and chooses the input chunking nondeterministically; TLC checks the C09 predicates
(spec/OverlapWindowP.tla) on all reachable states and prints every terminal behaviour.  The harness
drives a real OverlapWindowPlugin subclass (window-local computations LocalA / LocalB, the same
integer functions as in the spec) with each chunking; TLC judges every recorded real run against
the P-level (OverlapWindowTrace.tla); the I-level comparison is drift information.
"""
import json
import os
import re
import logging
import numpy as np
import vcommon as V

logging.disable(logging.CRITICAL)
import strax  # noqa: E402
import hplugins as H  # noqa: E402

ROWSETS = {
    "spread": [[1, 2], [3, 4], [5, 7], [8, 9]],
    "tight": [[0, 3], [3, 4], [4, 10], [11, 12]],
    "few": [[2, 3], [6, 7], [7, 8]],
    "dense": [[0, 1], [1, 2], [2, 3], [3, 4], [4, 5], [9, 10]],
    "long": [[0, 8], [9, 10]],
    "none": [],
}
T = 12


def scenarios(tier):
    S = []
    wins = [(0, 0), (1, 1), (2, 2), (0, 2), (2, 0), (3, 1)] if tier == "quick" else \
        [(a, b) for a in range(4) for b in range(4)]
    names = ["spread", "tight", "few", "dense", "long", "none"]
    for rn in names:
        for (wl, wr) in wins:
            for multi in (False, True):
                if tier == "quick" and multi and (wl, wr) in ((0, 0), (2, 0)) and rn in ("long", "none"):
                    continue
                S.append(dict(rows=ROWSETS[rn], rn=rn, WL=wl, WR=wr, Multi=multi,
                              MaxChunks=3 if (tier == "quick" or len(ROWSETS[rn]) > 4) else 4))
    return S


def local_a(t, e, wl, wr):
    return np.array([np.sum((t >= t[i] - wl) & (e <= e[i] + wr)) for i in range(len(t))], dtype=np.int64)


def local_b(t, e, wl, wr):
    keep, v = [], []
    for i in range(len(t)):
        leader = not np.any((t < t[i]) & (t >= t[i] - wl))
        if leader:
            keep.append(i)
            v.append(np.sum((t >= t[i]) & (e <= e[i] + wr)))
    return np.array(keep, dtype=int), np.array(v, dtype=np.int64)


def make_plugin(sc):
    wl, wr, multi = sc["WL"], sc["WR"], sc["Multi"]

    class Src(strax.Plugin):
        provides = "aa"
        depends_on = ()
        dtype = strax.time_fields
        data_kind = "aa"
        save_when = strax.SaveWhen.NEVER

    def rowsa(aa):
        t, e = aa["time"], aa["endtime"]
        r = np.zeros(len(aa), H.ROWDT)
        r["time"], r["endtime"], r["v"] = t, e, local_a(t, e, wl, wr)
        return r

    def rowsb(aa):
        t, e = aa["time"], aa["endtime"]
        keep, v = local_b(t, e, wl, wr)
        r = np.zeros(len(keep), H.ROWDT)
        r["time"], r["endtime"], r["v"] = t[keep], e[keep], v
        return r

    if not multi:
        class OW(strax.OverlapWindowPlugin):
            provides = "oa"
            depends_on = ("aa",)
            dtype = H.ROW
            data_kind = "oa"
            save_when = strax.SaveWhen.NEVER

            def get_window_size(self):
                return (wl, wr) if wl != wr else wl

            def compute(self, aa):
                return rowsa(aa)
    else:
        class OW(strax.OverlapWindowPlugin):
            provides = ("oa", "ob")
            depends_on = ("aa",)
            dtype = dict(oa=H.ROW, ob=H.ROW)
            data_kind = dict(oa="oa", ob="ob")
            save_when = strax.SaveWhen.NEVER

            def get_window_size(self):
                return (wl, wr)

            def compute(self, aa):
                return dict(oa=rowsa(aa), ob=rowsb(aa))
    st = strax.Context(storage=[], register=[Src, OW])
    return st


_CTX = {}


def real_run(sc, src0):
    key = (sc["WL"], sc["WR"], sc["Multi"])
    if key not in _CTX:
        _CTX[key] = make_plugin(sc)
    p = _CTX[key].get_single_plugin("0", "oa")
    chunks = []
    for c in src0:
        a = np.zeros(len(c["rows"]), np.dtype(strax.time_fields))
        for i, r in enumerate(c["rows"]):
            a[i] = (r[0], r[1])
        chunks.append(strax.Chunk(data_type="aa", data_kind="aa", dtype=np.dtype(strax.time_fields), run_id="0",
                                  start=c["s"], end=c["e"], data=a))
    ems, err = [], ""
    try:
        for res in p.iter(dict(aa=iter(chunks))):
            if not isinstance(res, dict):
                res = dict(oa=res)
            ems.append({k[1]: dict(s=ch.start, e=ch.end, rows=H.array_to_rows(ch.data)) for k, ch in res.items()})
    except Exception as e:  # noqa
        err = f"{type(e).__name__}: {e}"[:200]
    return ems, err


def mc_defs(sc):
    return f"RowsDef == {V.to_tla(tuple(tuple(r) for r in sc['rows']))}\n"


def job(sc):
    consts = dict(RunEnd=T, MaxChunks=sc["MaxChunks"], WL=sc["WL"], WR=sc["WR"], Multi=sc["Multi"])
    invs = ["Emit", "NoError", "Contiguous", "Aligned", "NothingDuplicated", "DoneOK"]
    r, cases = V.tlc_cases("OverlapWindow", consts, invs, overrides=dict(Rows="RowsDef"), mc_defs=mc_defs(sc),
                           timeout=3000, heap="4g")
    name = f"{sc['rn']}:w=({sc['WL']},{sc['WR']}):multi={int(sc['Multi'])}"
    res = dict(name=name, tlc=dict(generated=r.generated, distinct=r.distinct, depth=r.depth, ok=r.ok,
                                   violated=r.violated, wall=r.wall), traces=[], drift=[], nontrivial=0,
               machinery=None, model_violation=r.violated, sample=None)
    if not (r.ok or r.violated):
        res["machinery"] = r.out[-1500:]
        return res
    for case in cases:
        ems, err = real_run(sc, case["src0"])
        exp = [{o: dict(s=c["s"], e=c["e"], rows=[list(x) for x in c["rows"]]) for o, c in em.items()} for em in case["emitted"]]
        if ems != exp or bool(err) != bool(case["err"]):
            if len(res["drift"]) < 3:
                res["drift"].append(dict(scenario=name, src0=case["src0"], expected=exp, got=ems, err=err))
        res["traces"].append(dict(emitted=ems, ok=not err, src0=case["src0"], err=err))
        if len(case["src0"]) > 1:
            res["nontrivial"] += 1
        if res["sample"] is None and len(ems) >= 3 and sc["rows"]:
            res["sample"] = dict(scenario=name, src0=case["src0"], emitted=ems)
    return res


def validate(sc, traces):
    files = {"MCT.tla": f"---- MODULE MCT ----\nEXTENDS OverlapWindowTrace\n{mc_defs(sc)}\n====\n",
             "MCT.cfg": V.cfg_text(dict(RunEnd=T, WL=sc["WL"], WR=sc["WR"], Multi=sc["Multi"]), ["Accepted"], spec="TSpec",
                                   overrides=dict(Rows="RowsDef"))}
    d = V.stage_spec([], files)
    with open(os.path.join(d, "traces.json"), "w") as f:
        json.dump([dict(emitted=[{o: c for o, c in em.items()} if sc["Multi"] else dict(a=em.get("a", em.get("oa")))
                                 for em in t["emitted"]], ok=t["ok"]) for t in traces], f)
    r = V.run_tlc(d, "MCT", "MCT.cfg", workers=1, timeout=1800, env={"TRACE_FILE": os.path.join(d, "traces.json")},
                  args=["-continue"], heap="3g")
    rejected = sorted({int(m.group(1)) for m in re.finditer(r"tid = (\d+)", r.out)})
    if not (r.ok or r.violated):
        raise V.MachineryError("OverlapWindowTrace failed: " + r.out[-2000:])
    if r.violated and not rejected:
        raise V.MachineryError("OverlapWindowTrace: violation without trace id: " + r.out[-2000:])
    return dict(generated=r.generated, distinct=r.distinct, depth=r.depth, ok=r.ok, violated=r.violated, wall=r.wall), rejected


def vjob(arg):
    return validate(*arg)


def run(chk):
    S = scenarios(chk.tier)
    chk.rule = ("scenario = row set x window (left, right) x single/multi-output; per scenario TLC enumerates every law-abiding chunking "
                "(incl. empty and zero-duration chunks, chunks shorter than the window, rows longer than the window) and explores "
                "do_compute / cache_beyond; every terminal behaviour is replayed through a real OverlapWindowPlugin and the recorded "
                "emissions are judged by TLC against OverlapWindowP; non-trivial = more than one input chunk")
    chk.exhaustive = True
    real_run(S[0], [dict(s=0, e=T, rows=S[0]["rows"])])
    _CTX.clear()
    results = V.pmap(job, S)
    vwork = []
    mv = []
    for sc, res in zip(S, results):
        if res["machinery"]:
            raise V.MachineryError(res["machinery"])
        chk.states += res["tlc"]["distinct"]
        chk.transitions += res["tlc"]["generated"]
        chk.tlc_runs.append(dict(what=res["name"], **res["tlc"]))
        if res["model_violation"]:
            mv.append((res["name"], res["model_violation"]))
        chk.drift += res["drift"]
        chk.evaluations += len(res["traces"])
        for k in range(res["nontrivial"]):
            chk.nontrivial.add(f"{res['name']}#{k}")
        if res["sample"]:
            chk.sample(res["sample"])
        if res["traces"]:
            vwork.append((sc, res["traces"]))
    for (sc, traces), (tl, rejected) in zip(vwork, V.pmap(vjob, vwork)):
        name = f"{sc['rn']}:w=({sc['WL']},{sc['WR']}):multi={int(sc['Multi'])}"
        chk.tlc_runs.append(dict(what="P-level validation " + name, **tl))
        chk.states += tl["distinct"]
        chk.transitions += tl["generated"]
        chk.traces += len(traces)
        for i in rejected:
            t = traces[i - 1]
            chk.violation(f"C09:{name}:{json.dumps(t['src0'])}",
                          f"real OverlapWindowPlugin run violates C09 for rows {sc['rows']} window ({sc['WL']},{sc['WR']}) "
                          f"multi={sc['Multi']}: chunking {t['src0']} -> {t['emitted']} {t['err']}",
                          dict(scenario=sc, src0=t["src0"]))
    chk.extra["model_violations"] = mv
    if mv and not chk.violations and not chk.known_hit:
        raise V.MachineryError(f"OverlapWindow.tla violates its P-level but the real code does not: {mv[:3]}")
    chk.assumptions += ["inputs are disjoint sorted intervals (sorted by endtime too), as the plugin documents",
                        "the computation is window-local: LocalA / LocalB only look within [t - WL, e + WR]"]


def replay(chk, path):
    rp = json.load(open(path))["replay"]
    sc = rp["scenario"]
    ems, err = real_run(sc, rp["src0"])
    print("emitted:", ems, err)
    tl, rej = validate(sc, [dict(emitted=ems, ok=not err)])
    print("P-level:", "REJECTED" if rej else "accepted")
    return 1 if rej else 0
