"""LagNet.tla bound to the real threaded processor: the diamond with one branch holding back `lag` chunks (pipeline.py, topology
diamond_lag) under the deterministic scheduler.  lagnet(): termination / deadlock per (capacity, lag) - C06; pause_grid(): how far the
source runs after the consumer stopped - C13."""
import json
import re
import vcommon as V
import pipeline as PL


# ----------------------------------------------------------------------------- capacity against chunk lag (LagNet.tla)
def lag_model(arg):
    cap, lag, n = arg
    cfg = (f"SPECIFICATION Spec\nCONSTANTS Cap = {cap} Lag = {lag} N = {n} PauseAt = {n + 1}\nINVARIANT CapInv\nINVARIANT Delivered\nINVARIANT ProvisoSufficient\n"
           "PROPERTY {}\nCHECK_DEADLOCK FALSE\n")
    d = V.stage_spec(["LagNet"], {"LagNet.cfg": cfg.format("Terminates")})
    r = V.run_tlc(d, "LagNet", workers=1, timeout=900, heap="2g")
    verdict, r2 = ("T", None) if r.ok else ("?", None)
    if r.violated == "Terminates":
        # not every schedule terminates: every schedule ends stuck (D), or the outcome depends on the schedule (M)
        d2 = V.stage_spec(["LagNet"], {"LagNet.cfg": cfg.format("AlwaysStuck")})
        r2 = V.run_tlc(d2, "LagNet", workers=1, timeout=900, heap="2g")
        verdict = "D" if r2.ok else "M" if r2.violated == "AlwaysStuck" else "?"
    return dict(cap=cap, lag=lag, n=n, verdict=verdict, violated=r.violated,
                tlc=[dict(what=f"LagNet.tla Cap={cap} Lag={lag} N={n} ({p})", generated=x.generated, distinct=x.distinct, depth=x.depth, ok=x.ok,
                          violated=x.violated, wall_s=round(x.wall, 1)) for x, p in ((r, "Terminates"), (r2, "AlwaysStuck")) if x is not None])


def lag_real(arg):
    cap, lag, n, seeds = arg
    out = []
    for seed in seeds:
        rec = []
        sc = dict(topo="diamond_lag", lag=lag, processor="threaded_mailbox", lazy=False, max_messages=cap, n=n, fail=None, consumer=None,
                  sched="pct" if seed % 3 == 2 else "random")
        obs = PL.run_scenario(sc, schedule_seed=seed, record=rec)
        ok = obs["outcome"] == "returned" and obs["rows"] == PL.whole_run("diamond_lag", n)
        out.append(dict(sc=sc, seed=seed, verdict="T" if ok else "D" if obs["hang"] else "X", detail=f"{obs['outcome']} {obs['exc_type']}: {obs['exc_msg']} hang={obs['hang']}"[:300],
                        schedule=rec[:600]))
    return out


def lagnet(chk):
    """C06's last clause: TLC decides LagNet.tla for every (capacity, lag) of the grid; the real diamond with a branch that holds back
    `lag` chunks runs on the threaded processor (eager) under the deterministic scheduler.  Where the model says every schedule
    terminates the real pipeline must terminate, with the complete result, on every schedule tried - a violation when lag < capacity
    (the property's proviso), drift beyond it; where the model says every schedule deadlocks a real run that returns is drift; where
    the model says the outcome depends on the schedule (M) both are accepted."""
    quick = chk.tier == "quick"
    grid = [(cap, lag, lag + 2 * cap + 5) for cap in ((1, 2) if quick else (1, 2, 3)) for lag in range(0, 2 * cap + 5)]
    models = V.pmap(lag_model, grid, procs=8, warm=False)
    seeds = [chk.seed * 100 + i for i in range(4 if quick else 16)]
    reals = V.pmap(lag_real, [g + (seeds,) for g in grid])
    table, drift = [], []
    for m, rs in zip(models, reals):
        for t in m["tlc"]:
            chk.tlc_runs.append(t)
            chk.states += t["distinct"]
            chk.transitions += t["generated"]
        if m["verdict"] == "?" or m["violated"] not in (None, "Terminates"):
            raise V.MachineryError(f"LagNet.tla Cap={m['cap']} Lag={m['lag']}: TLC did not decide, or an invariant fails ({m['violated']}): {m['tlc']}")
        real = "".join(sorted({r["verdict"] for r in rs}))
        table.append(dict(cap=m["cap"], lag=m["lag"], n=m["n"], model=m["verdict"], real=real))
        for r in rs:
            chk.traces += 1
            chk.case(key=f"lagnet:{m['cap']}:{m['lag']}:{r['seed']}", nontrivial=m["lag"] > 0)
            if r["verdict"] == "T" and m["verdict"] == "D":
                drift.append(dict(cap=m["cap"], lag=m["lag"], seed=r["seed"], model="D", real=r["detail"]))
            if r["verdict"] == "X" or (r["verdict"] != "T" and m["verdict"] == "T"):
                if m["lag"] < m["cap"] or r["verdict"] == "X":
                    chk.violation(f"C06:lag:cap{m['cap']}:lag{m['lag']}:{'hang' if r['verdict'] == 'D' else 'wrong-outcome'}",
                                  f"diamond with a branch holding back {m['lag']} chunks, max_messages={m['cap']} (capacity exceeds the lag), eager, "
                                  f"{m['n']} chunks, schedule seed {r['seed']}: {r['detail']}", dict(sc=r["sc"], seed=r["seed"], sched=r["sc"]["sched"], schedule=r["schedule"]))
                else:
                    drift.append(dict(cap=m["cap"], lag=m["lag"], seed=r["seed"], real=r["detail"]))
    if not any(t["model"] == "D" and "D" in t["real"] for t in table):
        raise V.MachineryError("LagNet: no configuration deadlocks in both the model and the real pipeline - the grid has no teeth: " + str(table))
    chk.extra["lagnet"] = dict(table=table, drift=drift[:5],
                               note="model T / D / M = every schedule terminates / every schedule deadlocks / depends on the schedule (TLC); "
                                    "real = outcomes over the seeded schedules")




# ----------------------------------------------------------------------------- a consumer that stops pulling (C13)
def pause_model(arg):
    cap, lag, n, pause = arg
    cfg = (f"SPECIFICATION Spec\nCONSTANTS Cap = {cap} Lag = {lag} N = {n} PauseAt = {pause}\nINVARIANT CapInv\nINVARIANT Collect\n"
           "POSTCONDITION Report\nCHECK_DEADLOCK FALSE\n")
    d = V.stage_spec(["LagNet"], {"LagNet.cfg": cfg})
    r = V.run_tlc(d, "LagNet", workers=1, timeout=1200, heap="3g")
    m = re.search(r'"MAXSRC", (\d+)', r.out)
    return dict(cap=cap, lag=lag, n=n, pause=pause, maxsrc=int(m.group(1)) if m and r.ok else None, out=r.out[-800:] if not (m and r.ok) else "",
                tlc=dict(what=f"LagNet.tla Cap={cap} Lag={lag} N={n} PauseAt={pause}: largest number of source chunks over all schedules",
                         generated=r.generated, distinct=r.distinct, depth=r.depth, ok=r.ok, violated=r.violated, wall_s=round(r.wall, 1)))


def pause_real(arg):
    cap, lag, n, pause, seeds = arg
    out = []
    for seed in seeds:
        rec = []
        sc = dict(topo="diamond_lag", lag=lag, processor="threaded_mailbox", lazy=False, max_messages=cap, n=n, fail=None,
                  consumer=("pause", pause - 1), sched="pct" if seed % 3 == 2 else "random")
        obs = PL.run_scenario(sc, schedule_seed=seed, record=rec)
        out.append(dict(sc=sc, seed=seed, src_calls=obs["src_calls"], quiescent=bool(obs.get("quiescent")), hang=bool(obs["hang"]),
                        outcome=obs["outcome"], schedule=rec[:600]))
    return out


def pause_grid(chk, pid="C13"):
    """The source of the lagging diamond after the consumer stopped: TLC gives the largest number of source chunks over all schedules
    for a run of N and of 2 N chunks - the same number, a constant of (capacity, lag, pause point) - and no real run (2 N chunks, seeded
    schedules) computes more source chunks than that."""
    quick = chk.tier == "quick"
    cells = [(1, 0, 2), (1, 2, 1), (2, 1, 2), (2, 3, 2)] + ([] if quick else [(1, 3, 2), (2, 0, 1), (2, 5, 1), (3, 2, 2)])
    jobs = []
    for cap, lag, pause in cells:
        n = 4 * cap + lag + pause + 8
        jobs += [(cap, lag, n, pause), (cap, lag, 2 * n, pause)]
    models = V.pmap(pause_model, jobs, procs=8, warm=False)
    seeds = [chk.seed * 100 + i for i in range(5 if quick else 20)]
    reals = V.pmap(pause_real, [(cap, lag, 2 * (4 * cap + lag + pause + 8), pause, seeds) for cap, lag, pause in cells])
    table = []
    for k, (cap, lag, pause) in enumerate(cells):
        m1, m2 = models[2 * k], models[2 * k + 1]
        for m in (m1, m2):
            chk.tlc_runs.append(m["tlc"])
            chk.states += m["tlc"]["distinct"]
            chk.transitions += m["tlc"]["generated"]
            if m["maxsrc"] is None:
                raise V.MachineryError(f"LagNet pause model Cap={cap} Lag={lag}: " + m["out"])
        if m1["maxsrc"] != m2["maxsrc"]:
            raise V.MachineryError(f"LagNet: the source bound grows with the run length in the model itself (Cap={cap} Lag={lag}): {m1['maxsrc']} vs {m2['maxsrc']}")
        rs = reals[k]
        table.append(dict(cap=cap, lag=lag, pause_after=pause, model_max=m1["maxsrc"], real_max=max(r["src_calls"] for r in rs),
                          real_runs=len(rs)))
        for r in rs:
            chk.traces += 1
            chk.case(key=f"lagnet-pause:{cap}:{lag}:{pause}:{r['seed']}", nontrivial=True)
            if r["hang"] or not r["quiescent"] or r["src_calls"] > m1["maxsrc"]:
                chk.violation(f"{pid}:lag-pause:cap{cap}:lag{lag}:pause{pause}:{'hang' if r['hang'] else 'source-ran-past-the-bound'}",
                              f"diamond with a branch holding back {lag} chunks, max_messages={cap}, eager, {r['sc']['n']} chunks, consumer stops after "
                              f"{pause} chunks, schedule seed {r['seed']}: the source computed {r['src_calls']} chunks (hang={r['hang']}, at rest={r['quiescent']}); "
                              f"over all schedules of LagNet.tla it computes at most {m1['maxsrc']}, whatever the run length",
                              dict(sc=r["sc"], seed=r["seed"], sched=r["sc"]["sched"], schedule=r["schedule"]))
    chk.extra["lagnet_pause"] = dict(table=table, note="model_max: largest number of source chunks over all schedules (TLC), equal for N and 2 N chunks")
