"""C17: interval primitives agree with their set-theoretic definitions.

spec/Intervals.tla holds the definitions (quantification over index sets) and transcriptions of
the sweep-line loops; TLC checks transcription = definition on every input of the scope and prints
the expected results; the harness calls the real (numba) functions of strax.processing.general on
the same inputs, in both endtime encodings.
"""
import json
import warnings
import numpy as np
import vcommon as V
import strax

DT_END = np.dtype(strax.time_fields)
DT_LEN = np.dtype(strax.time_dt_fields)


def arr(pairs, enc):
    if enc == 0:
        a = np.zeros(len(pairs), DT_END)
        for i, (t, e) in enumerate(pairs):
            a[i] = (t, e)
    else:
        a = np.zeros(len(pairs), DT_LEN)
        for i, (t, e) in enumerate(pairs):
            a[i]["time"] = t
            a[i]["length"] = e - t
            a[i]["dt"] = 1
    return a


def lst(x):
    """ToJson prints functions over 1..n as arrays and the empty function as []"""
    return x if isinstance(x, list) else [x[k] for k in sorted(x, key=int)]


def check_contain(case):
    bad = []
    th, co = case["things"], case["conts"]
    for enc in (0, 1):
        a, b = arr(th, enc), arr(co, enc)
        with warnings.catch_warnings():
            warnings.simplefilter("ignore")
            try:
                r = strax.fully_contained_in(a, b)
                got = ("ok", [int(x) for x in r])
            except ValueError:
                got = ("reject",)
            except Exception as e:  # noqa
                got = ("exc", repr(e))
        if not case["sorted"]:
            if got[0] != "reject":
                bad.append((f"fully_contained_in:unsorted:{th}:{co}", f"unsorted input {th} / {co} was answered {got} instead of rejected"))
            continue
        if not case["pre"]:
            continue      # overlapping containers: outside the documented preconditions
        exp = ("ok", lst(case["fc"]))
        if got != exp:
            bad.append((f"fully_contained_in:{th}:{co}:enc{enc}", f"fully_contained_in({th}, {co}) = {got}, definition gives {exp}"))
            continue
        with warnings.catch_warnings():
            warnings.simplefilter("ignore")
            try:
                sp = strax.split_by_containment(a, b)
                gsp = [[[int(x["time"]), int(strax.endtime(x))] for x in part] for part in sp]
            except Exception as e:  # noqa
                gsp = repr(e)
        esp = [[th[i] for i in range(len(th)) if exp[1][i] == j] for j in range(len(co))]
        if gsp != esp:
            bad.append((f"split_by_containment:{th}:{co}:enc{enc}", f"split_by_containment({th}, {co}) = {gsp}, definition gives {esp}"))
    return bad, int(bool(th) and bool(co))


def check_touch(case):
    bad = []
    th, co = case["things"], case["conts"]
    res = case["res"]
    for enc in (0, 1):
        a, b = arr(th, enc), arr(co, enc)
        for wk, exp in res.items():
            w = int(wk)
            exp = [list(x) for x in lst(exp)]
            with warnings.catch_warnings():
                warnings.simplefilter("ignore")
                try:
                    r = strax.touching_windows(a, b, window=w)
                    got = [[int(x[0]), int(x[1])] for x in r]
                except Exception as e:  # noqa
                    got = repr(e)
            if not th or not co:
                exp = [[0, 0] for _ in co]
            if got != exp:
                bad.append((f"touching_windows:{th}:{co}:w={w}:enc{enc}", f"touching_windows({th}, {co}, window={w}) = {got}, definition gives {exp}"))
    return bad, int(bool(th) and bool(co))


def check_gaps(case):
    bad = []
    d = case["d"]
    for enc in (0, 1):
        a = arr(d, enc)
        got = [int(x) for x in strax.diff(a)]
        exp = lst(case["diff"]) if len(d) > 1 else []
        if got != exp:
            bad.append((f"diff:{d}:enc{enc}", f"diff({d}) = {got}, definition gives {exp}"))
        if len(d) >= 2:
            for sk, per in case["brk"].items():
                for nbk, ex in per.items():
                    try:
                        g = int(strax.processing.general._find_break_i(a, safe_break=int(sk), not_before=int(nbk)))
                    except strax.NoBreakFound:
                        g = -1
                    except Exception as e:  # noqa
                        g = repr(e)
                    if g != ex:
                        bad.append((f"find_break:{d}:safe={sk}:nb={nbk}:enc{enc}", f"_find_break_i({d}, {sk}, {nbk}) = {g}, definition gives {ex}"))
                    # from_break returns the part left / right of the break and the break time
                    if ex != -1 and g == ex:
                        for left in (True, False):
                            part, bt = strax.from_break(a, safe_break=int(sk), not_before=int(nbk), left=left)
                            ep = d[:ex] if left else d[ex:]
                            gp = [[int(x["time"]), int(strax.endtime(x))] for x in part]
                            if gp != ep or int(bt) != d[ex][0]:
                                bad.append((f"from_break:{d}:safe={sk}:nb={nbk}:left={left}", f"from_break gives {gp}, {bt}; expected {ep}, {d[ex][0]}"))
    return bad, int(len(d) >= 2)


def check_prevnext(case):
    bad = []
    th, iv = case["things"], case["ivs"]
    exp = [list(x) for x in lst(case["res"])]
    for enc in (0, 1):
        a, b = arr(th, enc), arr(iv, enc)
        with warnings.catch_warnings():
            warnings.simplefilter("ignore")
            try:
                p, n = strax.abs_time_to_prev_next_interval(a, b)
                got = [[int(x), int(y)] for x, y in zip(p, n)]
            except Exception as e:  # noqa
                got = repr(e)
        e2 = exp if (th and iv) else [[-1, -1] for _ in th]
        if got != e2:
            bad.append((f"prev_next:{th}:{iv}:enc{enc}", f"abs_time_to_prev_next_interval({th}, {iv}) = {got}, definition gives {e2}"))
    return bad, int(bool(th) and bool(iv))


def check_overlap(case):
    a1, na, b1, nb = case["a"]
    exp = case["res"]
    (s1, e1), (s2, e2) = strax.overlap_indices(a1, na, b1, nb)
    got = [int(s1), int(e1), int(s2), int(e2)]
    if got != exp:
        return [(f"overlap_indices:{case['a']}", f"overlap_indices{tuple(case['a'])} = {got}, definition gives {exp}")], 1
    return [], int(exp != [0, 0, 0, 0])


def check_sort(case):
    x = case["x"]
    dt = np.dtype([("time", np.int64), ("channel", np.int16), ("tag", np.int32)])
    a = np.zeros(len(x), dt)
    for i, (t, ch) in enumerate(x):
        a[i] = (t, ch, i)
    r = strax.sort_by_time(a)
    got = [int(v) for v in r["tag"]]
    exp = lst(case["perm"]) if x else []
    if got != exp:
        return [(f"sort_by_time:{x}", f"sort_by_time({x}) gives order {got}, stable (time, channel) order is {exp}")], 1
    return [], int(len(x) > 1)


CHECK = dict(contain=check_contain, touch=check_touch, gaps=check_gaps, prevnext=check_prevnext, overlap=check_overlap,
             sort=check_sort)


def _job(arg):
    kind, cases = arg
    out, n = [], 0
    f = CHECK[kind]
    for c in cases:
        b, nt = f(c)
        out += b
        n += nt
    return out, n


def run(chk):
    quick = chk.tier == "quick"
    scopes = [dict(G=3 if quick else 4, NT=2, NC=2, ZeroLen=True, Kind="contain"),
              dict(G=4 if quick else 5, NT=2 if quick else 3, NC=2, ZeroLen=False, Kind="touch"),
              dict(G=3, NT=2, NC=2, ZeroLen=True, Kind="touch"),
              dict(G=5 if quick else 6, NT=3 if quick else 4, NC=0, ZeroLen=True, Kind="gaps"),
              dict(G=5 if quick else 6, NT=2 if quick else 3, NC=2 if quick else 3, ZeroLen=True, Kind="prevnext"),
              dict(G=3 if quick else 4, NT=0, NC=0, ZeroLen=True, Kind="overlap"),
              dict(G=2, NT=3 if quick else 4, NC=0, ZeroLen=True, Kind="sort")]
    if not quick:
        scopes += [dict(G=5, NT=3, NC=2, ZeroLen=False, Kind="contain"),
                   dict(G=6, NT=4, NC=3, ZeroLen=False, Kind="prevnext"),
                   dict(G=5, NT=3, NC=3, ZeroLen=False, Kind="touch")]
    # compile the numba functions once in the parent so that forked workers inherit them
    for k, cs in (("contain", dict(things=[[0, 1]], conts=[[0, 2]], sorted=True, pre=True, fc=[0])),
                  ("touch", dict(things=[[0, 1]], conts=[[0, 2]], res={"0": [[0, 1]]})),
                  ("gaps", dict(d=[[0, 1], [2, 3]], diff=[1], brk={"0": {"0": 1}})),
                  ("prevnext", dict(things=[[2, 3]], ivs=[[0, 1]], res=[[1, -1]])),
                  ("overlap", dict(a=[0, 1, 0, 1], res=[0, 1, 0, 1])), ("sort", dict(x=[[0, 0]], perm=[0]))):
        CHECK[k](cs)
    chk.rule = ("every configuration of things x containers (sorted or not, zero-length included) on a small grid, windows -2..3, both "
                "endtime encodings; non-trivial = both arrays non-empty")
    chk.exhaustive = True
    for sc in scopes:
        r, cases = V.tlc_cases("Intervals", sc, ["Laws", "Emit"], timeout=3000)
        chk.add_tlc(r, f"Intervals {sc}")
        if r.violated == "Laws":
            raise V.MachineryError(f"Intervals.tla: transcription differs from definition in the model itself {sc}: " + r.out[-1500:])
        V.tlc_must_finish(r, f"Intervals {sc}")
        if not r.ok or len(cases) != r.distinct:
            raise V.MachineryError(f"Intervals {sc}: {len(cases)} cases for {r.distinct} states\n" + r.out[-1500:])
        res = V.pmap(_job, [(sc["Kind"], ch) for ch in V.chunks_of(cases, V.NCPU * 2)])
        nt = 0
        for bad, n in res:
            nt += n
            for sig, text in bad:
                chk.violation("C17:" + sig, text, dict(scope=sc, signature=sig))
        chk.evaluations += len(cases)
        chk.traces += len(cases)
        for i in range(nt):
            chk.nontrivial.add(f"{sc['Kind']}{sc['G']}{sc['NT']}{sc['NC']}{sc['ZeroLen']}-{i}")
        if cases:
            chk.sample(dict(kind=sc["Kind"], case=cases[len(cases) // 2]))
    random_part(chk)
    chk.assumptions += ["documented preconditions: sorted inputs; non-overlapping containers for containment; non-overlapping things "
                        "and intervals for time-to-neighbour; endtime-sorted things for touching windows",
                        "containment uses half-open semantics: a zero-length thing is the point t and lies in [ct, ce) iff ct <= t < ce"]


def random_part(chk):
    """Larger arrays: random inputs, judged by a direct quadratic evaluation of the same definitions in Python
    (a sampled extension beyond the TLC-enumerated scope; reported separately)."""
    rng = np.random.default_rng(chk.seed)
    n = 300 if chk.tier == "quick" else 5000
    bad = 0
    for _ in range(n):
        k, m = rng.integers(0, 12), rng.integers(0, 6)
        st = np.sort(rng.integers(0, 40, k))
        th = [[int(t), int(t + rng.integers(0, 5))] for t in st]
        th.sort(key=lambda x: (x[0],))
        cs = np.sort(rng.integers(0, 45, 2 * m))
        co = [[int(cs[2 * i]), int(cs[2 * i + 1])] for i in range(m)]
        a, b = arr(th, 0), arr(co, 0)
        with warnings.catch_warnings():
            warnings.simplefilter("ignore")
            r = [int(x) for x in strax.fully_contained_in(a, b)]
        exp = []
        for t, e in th:
            js = [j for j, (ct, ce) in enumerate(co) if ct <= t and e <= ce and ce > t]
            exp.append(js[0] if js else -1)
        chk.evaluations += 1
        if r != exp:
            bad += 1
            chk.violation(f"C17:fully_contained_in:random:{th}:{co}", f"fully_contained_in({th},{co}) = {r}, definition {exp}",
                          dict(things=th, conts=co))
    chk.extra["random_cases"] = n


def replay(chk, path):
    rp = json.load(open(path))
    print(rp["signature"], "\n", rp["text"])
    return 0
