"""C15: loading many runs in parallel equals loading them one by one.

spec/MultiRun.tla models multi_run (bounded outstanding tasks, any completion order, run-id-ordered
result, ignore_errors) and the shared plugin registry with CPython dict semantics at dict-operation
granularity (temporary MergeOnly plugin registered / removed by every worker); TLC explores all
interleavings: the protocol as found reaches a crashed worker, the repaired one does not.
Binding: the real Context.get_array(list of runs, max_workers=k) runs under the deterministic
scheduler with the registry replaced by a dict whose operations are yield points and multi_run's
executor / wait replaced by scheduler-aware ones, for seeded preemptive schedules; TLC judges the
observations (MultiRunObs.tla).  An OS-scheduled stress run with a microsecond switch interval is
reported alongside.
"""
import json
import os
import random
import re
import shutil
import sys
import tempfile
import logging
import warnings
import numpy as np
import vcommon as V
import dsched

logging.disable(logging.CRITICAL)
import strax  # noqa: E402
import strax.utils as su  # noqa: E402
import hplugins as H  # noqa: E402

ACTIVE = [False]


def YP(what):
    s = dsched.SCHED
    if ACTIVE[0] and s is not None and s.cur is not None:
        s.yield_point(("step", what))


class TDict(dict):
    """dict whose operations are scheduler yield points (each operation atomic, as under the GIL)."""

    def __getitem__(self, k):
        YP("get")
        return dict.__getitem__(self, k)

    def __setitem__(self, k, v):
        YP("set")
        return dict.__setitem__(self, k, v)

    def __delitem__(self, k):
        YP("del")
        return dict.__delitem__(self, k)

    def __contains__(self, k):
        YP("in")
        return dict.__contains__(self, k)

    def get(self, k, d=None):
        YP("get")
        return dict.get(self, k, d)

    def _it(self, real):
        it = iter(real)
        while True:
            YP("iternext")
            try:
                x = next(it)
            except StopIteration:
                return
            yield x

    def values(self):
        YP("iterstart")
        return self._it(dict.values(self))

    def items(self):
        YP("iterstart")
        return self._it(dict.items(self))

    def keys(self):
        YP("keys")
        return list(dict.keys(self))

    def __iter__(self):
        YP("iterstart")
        return self._it(dict.keys(self))

    def copy(self):
        YP("copy")
        return TDict(dict.copy(self))


def _fails(fail_run):
    if fail_run is None:
        return set()
    return set(fail_run) if isinstance(fail_run, (list, tuple, set)) else {fail_run}


def classes(fail_run=None):
    failing = _fails(fail_run)
    class Src(strax.Plugin):
        provides = ("src",)
        depends_on = ()
        dtype = H.ROW
        data_kind = "src"
        rechunk_on_save = False

        def source_finished(self):
            return True

        def is_ready(self, chunk_i):
            return chunk_i < 2

        def compute(self, chunk_i):
            r = int(self.run_id)
            if r in failing:
                raise H.HarnessFailure(f"run {r} fails")
            rows = [[10 * chunk_i + 1, 10 * chunk_i + 3, 100 * r + chunk_i], [10 * chunk_i + 5, 10 * chunk_i + 6, 100 * r + 10 + chunk_i]]
            return self.chunk(start=10 * chunk_i, end=10 * (chunk_i + 1), data=H.rows_to_array(rows))
    pa = H.samekind_map("pa", "src", "ab", "va", add=1, rechunk_on_save=False)
    pb = H.samekind_map("pb", "src", "ab", "vb", mul=2, rechunk_on_save=False)
    return [Src, pa, pb]


def expected(runs, targets, fail_run=None, ignore=False):
    out = []
    for r in sorted(runs, key=str):
        if int(r) in _fails(fail_run):
            continue
        for ci in range(2):
            for v in (100 * int(r) + ci, 100 * int(r) + 10 + ci):
                row = [str(r)]
                if "pa" in targets:
                    row.append(v + 1)
                if "pb" in targets:
                    row.append(2 * v)
                out.append(row)
    return out


def observe(x, targets):
    out = []
    for row in x:
        r = [str(row["run_id"])]
        if "pa" in targets:
            r.append(int(row["va"]))
        if "pb" in targets:
            r.append(int(row["vb"]))
        out.append(r)
    return out


def scenario(arg):
    sc, seed, mode = arg
    runs, targets = sc["runs"], sc["targets"]
    d = tempfile.mkdtemp(prefix="verif_c15_") if sc["storage"] else None
    obs = dict(outcome="", exc="", rows_ok=False, hang=False)
    orig_exec, orig_wait = su.ThreadPoolExecutor, su.wait
    try:
        st = strax.Context(storage=[strax.DataDirectory(d)] if d else [], register=classes(sc.get("fail_run")), allow_multiprocess=False)
        if sc["warm"]:
            st.get_array(runs[0], targets if len(targets) > 1 else targets[0], progress_bar=False)
        kw = dict(max_workers=sc["workers"], progress_bar=False, multi_run_progress_bar=False)
        if sc.get("ignore"):
            kw["ignore_errors"] = True
        tg = tuple(targets) if len(targets) > 1 else targets[0]

        def call():
            with warnings.catch_warnings():
                warnings.simplefilter("ignore")
                return st.get_array(list(runs), tg, **kw)
        if mode == "dsched":
            st._plugin_class_registry = TDict(st._plugin_class_registry)
            # the plugin cache is a dict of dicts created inside the context: wrap the inner dicts as they appear
            orig_to_cache = strax.Context._plugins_to_cache

            def to_cache(ctx, plugins):
                orig_to_cache(ctx, plugins)
                c = ctx._fixed_plugin_cache
                if c is not None:
                    for h in list(dict.keys(c)):
                        if not isinstance(c[h], TDict):
                            c[h] = TDict(c[h])
            strax.Context._plugins_to_cache = to_cache
            su.ThreadPoolExecutor = dsched.Executor
            su.wait = dsched.wait
            s = dsched.set_sched(dsched.Sched())
            rng = random.Random(seed)
            res = {}

            def main():
                ACTIVE[0] = True
                try:
                    res["x"] = call()
                except dsched.Abort:
                    raise
                except BaseException as e:  # noqa
                    res["e"] = e
                finally:
                    ACTIVE[0] = False
            s.spawn("main", main)
            try:
                while True:
                    en = s.enabled_tasks()
                    if not en:
                        if not s.all_done():
                            obs["hang"] = True
                        break
                    s.step(rng.choice(en))
                    if s.nsteps > 200000:
                        obs["hang"] = True
                        break
            finally:
                ACTIVE[0] = False
                obs["steps"] = s.nsteps
                s.abort()
                dsched.set_sched(None)
        else:
            old = sys.getswitchinterval()
            sys.setswitchinterval(1e-6)
            res = {}
            try:
                res["x"] = call()
            except BaseException as e:  # noqa
                res["e"] = e
            finally:
                sys.setswitchinterval(old)
        if "x" in res:
            obs["outcome"] = "returned"
            obs["rows_ok"] = observe(res["x"], targets) == expected(runs, targets, sc.get("fail_run"), sc.get("ignore"))
        else:
            e = res.get("e")
            obs["outcome"] = "raised"
            obs["exc"] = f"{type(e).__name__}: {e}"[:150]
            obs["injected"] = isinstance(e, H.HarnessFailure)
        return dict(sc=sc, seed=seed, mode=mode, obs=obs)
    finally:
        su.ThreadPoolExecutor, su.wait = orig_exec, orig_wait
        if "orig_to_cache" in dir():
            strax.Context._plugins_to_cache = orig_to_cache
        if d:
            shutil.rmtree(d, ignore_errors=True)


def to_tla_obs(r):
    sc, o = r["sc"], r["obs"]
    return dict(fail=sc.get("fail_run") is not None, ignore=bool(sc.get("ignore")), outcome=o["outcome"], rows_ok=bool(o["rows_ok"]),
                injected=bool(o.get("injected", False)), hang=bool(o["hang"]))


def run(chk):
    V.quiet_threads()
    quick = chk.tier == "quick"
    # design level
    for multi in (True, False):
        for rep in (True, False):
            for fails, ign in (("{}", False), ("{1}", False), ("{1}", True)):
                files = {"MC.tla": "---- MODULE MC ----\nEXTENDS MultiRun\nRunsDef == <<2, 0, 1, 3>>\n====\n",
                         "MC.cfg": f"SPECIFICATION Spec\nCONSTANTS MaxWorkers = {1 if fails != '{}' else 2} Multi = {V.to_tla(multi)} Fails = {fails} "
                                   f"IgnoreErrors = {V.to_tla(ign)} Repaired = {V.to_tla(rep)} RefillOnSuccessOnly = FALSE\nRuns <- RunsDef\nINVARIANT NoCrash\n"
                                   "INVARIANT RegistryRestored\nINVARIANT ResultOK\nINVARIANT FailureHandling\nINVARIANT Outstanding\n"
                                   "PROPERTY Finishes\nCHECK_DEADLOCK FALSE\n"}
                d = V.stage_spec(["MultiRun"], files)
                r = V.run_tlc(d, "MC", "MC.cfg", workers=4, timeout=900)
                chk.add_tlc(r, f"MultiRun multi={multi} repaired={rep} fails={fails} ignore={ign}")
                V.tlc_must_finish(r, "MultiRun")
                if rep and r.violated:
                    chk.extra.setdefault("design_violations", []).append(r.violated)
                if not rep and multi and fails == "{}" and r.violated != "NoCrash":
                    raise V.MachineryError("MultiRun.tla as found does not reach a crashed worker: no teeth")
    # several ignored failures followed by more runs: every remaining run is still processed (refill per finished future);
    # the variant that refills only after a success must violate ResultOK
    for refill_success_only in (False, True):
        files = {"MC.tla": "---- MODULE MC ----\nEXTENDS MultiRun\nRunsDef == <<0, 1, 2, 3, 4, 5>>\n====\n",
                 "MC.cfg": f"SPECIFICATION Spec\nCONSTANTS MaxWorkers = 1 Multi = FALSE Fails = {{1, 3}} IgnoreErrors = TRUE Repaired = TRUE "
                           f"RefillOnSuccessOnly = {V.to_tla(refill_success_only)}\nRuns <- RunsDef\nINVARIANT NoCrash\nINVARIANT ResultOK\n"
                           "INVARIANT FailureHandling\nINVARIANT Outstanding\nPROPERTY Finishes\nCHECK_DEADLOCK FALSE\n"}
        d = V.stage_spec(["MultiRun"], files)
        r = V.run_tlc(d, "MC", "MC.cfg", workers=4, timeout=900)
        chk.add_tlc(r, f"MultiRun 6 runs, fails {{1, 3}} ignored, refill only on success = {refill_success_only}")
        V.tlc_must_finish(r, "MultiRun")
        if not refill_success_only and r.violated:
            chk.extra.setdefault("design_violations", []).append(r.violated)
        if refill_success_only and r.violated != "ResultOK":
            raise V.MachineryError("MultiRun.tla with refill-on-success-only does not violate ResultOK: no teeth")
    # code level
    S = []
    for nruns in (2, 3) if quick else (2, 3, 4, 6):
        for workers in (2, 3) if quick else (2, 3, 4):
            for targets in (("pa",), ("pa", "pb")):
                for warm in (False, True):
                    for storage in (False, True):
                        if quick and storage and warm:
                            continue
                        S.append(dict(runs=[str(i) for i in range(nruns)][::-1], workers=workers, targets=targets, warm=warm, storage=storage))
    S.append(dict(runs=["0", "1", "2"], workers=2, targets=("pa", "pb"), warm=False, storage=False, fail_run=1))
    S.append(dict(runs=["0", "1", "2"], workers=2, targets=("pa", "pb"), warm=False, storage=False, fail_run=1, ignore=True))
    S.append(dict(runs=["0", "1", "2"], workers=2, targets=("pa",), warm=False, storage=True, fail_run=0, ignore=True))
    # as many ignored failures as tasks in flight (2 * workers), and more runs after them: nothing may be dropped
    S.append(dict(runs=[str(i) for i in range(6)], workers=1, targets=("pa",), warm=False, storage=False, fail_run=[1, 3], ignore=True))
    S.append(dict(runs=[str(i) for i in range(6)], workers=1, targets=("pa",), warm=False, storage=False, fail_run=[0, 1], ignore=True))
    S.append(dict(runs=[str(i) for i in range(8)], workers=2, targets=("pa", "pb"), warm=False, storage=False, fail_run=[0, 1, 2, 4], ignore=True))
    S.append(dict(runs=[str(i) for i in range(6)], workers=1, targets=("pa",), warm=False, storage=True, fail_run=[2, 3], ignore=True))
    nsched = 4 if quick else 25
    work = [(sc, chk.seed * 1000 + i, "dsched") for sc in S for i in range(nsched)]
    work += [(sc, 0, "os-stress") for sc in S[:: 2 if quick else 1]]
    res = V.pmap(scenario, work)
    d = V.stage_spec(["MultiRunObs"], {"MultiRunObs.cfg": "SPECIFICATION Spec\nINVARIANT Accepted\nCHECK_DEADLOCK FALSE\n"})
    det = [r for r in res if r["mode"] == "dsched"]
    with open(os.path.join(d, "obs.json"), "w") as f:
        json.dump([to_tla_obs(r) for r in det], f)
    r = V.run_tlc(d, "MultiRunObs", workers=1, timeout=900, env={"TRACE_FILE": os.path.join(d, "obs.json")}, args=["-continue"])
    chk.add_tlc(r, "P-level validation of multi-run observations (MultiRunObs.tla)")
    if not (r.ok or r.violated):
        raise V.MachineryError("MultiRunObs failed: " + r.out[-2000:])
    rejected = sorted({int(m.group(1)) for m in re.finditer(r"tid = (\d+)", r.out)})
    for i, rr in enumerate(det, 1):
        sc = rr["sc"]
        chk.case(key=json.dumps([sc, rr["seed"]], sort_keys=True), nontrivial=len(sc["targets"]) > 1 or sc.get("fail_run") is not None)
        chk.traces += 1
        if i in rejected:
            o = rr["obs"]
            what = o["exc"].split(":")[0] if o["outcome"] == "raised" else ("hang" if o["hang"] else "wrong result")
            chk.violation(f"C15:{'multi' if len(sc['targets']) > 1 else 'single'}-target:{what}",
                          f"get_array({sc['runs']}, {sc['targets']}, max_workers={sc['workers']}, warm={sc['warm']}, storage={sc['storage']}, "
                          f"fail_run={sc.get('fail_run')}, ignore_errors={sc.get('ignore', False)}) under schedule seed {rr['seed']}: {o}",
                          dict(sc=sc, seed=rr["seed"]))
    stress = [r for r in res if r["mode"] != "dsched"]
    chk.extra["os_stress_runs"] = len(stress)
    chk.extra["os_stress_failures"] = [r["obs"]["exc"] for r in stress if r["obs"]["outcome"] == "raised" and not r["obs"].get("injected")][:5]
    chk.extra["scheduler_steps"] = sum(r["obs"].get("steps", 0) for r in det)
    chk.sample(dict(scenario=det[0]["sc"], seed=det[0]["seed"], observation=det[0]["obs"]))
    chk.sample(dict(scenario=det[-1]["sc"], seed=det[-1]["seed"], observation=det[-1]["obs"]))
    chk.rule = ("scenario = 2..6 runs (given in reverse order) x 2..4 workers x single / multiple same-kind targets x cold / warm plugin cache x "
                "with / without storage, plus failing runs with and without ignore_errors; each under several seeded preemptive schedules at "
                "dict-operation granularity; non-trivial = multiple targets or a failing run")
    chk.assumptions += ["CPython executes single dict operations atomically (GIL); the scheduler preempts only between dict operations, "
                        "executor submissions and future waits", "schedules are sampled (seeded), not enumerated"]


def replay(chk, path):
    rp = json.load(open(path))["replay"]
    sc = rp["sc"]
    sc["targets"] = tuple(sc["targets"])
    r = scenario((sc, rp["seed"], "dsched"))
    print(r["obs"])
    o = to_tla_obs(r)
    bad = o["hang"] or (o["outcome"] == "raised" and not (o["fail"] and not o["ignore"] and o["injected"])) or \
        (o["outcome"] == "returned" and not o["rows_ok"])
    return 1 if bad else 0
