"""Deterministic cooperative scheduler ("dsched").

Every task is a real OS thread parked on a private semaphore; exactly one runs at a time and
control returns to the scheduler at each yield point: lock acquire, condition wait, thread
start / join, future result, executor submit, plus explicit `yield_point(("step", name))`
calls placed in harness-owned code.  Timeouts never fire.  "No enabled task while some task is
unfinished" is a hang (Deadlock).

Install into strax by replacing module attributes (no source change):
    strax.mailbox.threading = dsched.make_threading_shim()
"""
import threading as _rt
import types
from concurrent.futures import Future as _Future


class Deadlock(Exception):
    pass


class StepLimit(Exception):
    pass


class Task:
    def __init__(self, sched, name, fn):
        self.sched = sched
        self.name = name
        self.fn = fn
        self.go = _rt.Semaphore(0)
        self.state = "new"       # ready | running | done
        self.want = None
        self.exc = None
        self.result = None
        self.thread = _rt.Thread(target=self._run, name=name, daemon=True)

    def _run(self):
        self.go.acquire()
        try:
            if not self.sched.aborting:
                self.result = self.fn()
        except BaseException as e:   # noqa
            self.exc = e
        finally:
            self.state = "done"
            self.want = None
            self.sched.ctl.release()

    def __repr__(self):
        return f"<Task {self.name} {self.state} want={self.want and self.want[0]}>"


class Abort(BaseException):
    pass


class Sched:
    def __init__(self):
        self.tasks = []
        self.cur = None
        self.ctl = _rt.Semaphore(0)
        self.trace = []
        self.observer = None
        self.aborting = False
        self.dead = False
        self.nsteps = 0

    # --- called from tasks
    def yield_point(self, want):
        t = self.cur
        if t is None:
            # called from outside the scheduler (e.g. set-up code in the driving thread)
            return
        if self.aborting:
            raise Abort()
        t.want = want
        t.state = "ready"
        self.ctl.release()
        t.go.acquire()
        if self.aborting:
            raise Abort()
        t.want = None

    def spawn(self, name, fn):
        base, k = name, 1
        while any(t.name == name for t in self.tasks):
            k += 1
            name = f"{base}#{k}"
        t = Task(self, name, fn)
        t.want = ("start",)
        t.state = "ready"
        self.tasks.append(t)
        t.thread.start()
        return t

    def enabled(self, t):
        if t.state != "ready":
            return False
        w = t.want
        k = w[0]
        if k in ("start", "step"):
            return True
        if k == "lock":
            L = w[1]
            return L.owner is None or L.owner is t
        if k == "cond":
            return w[1].is_notified(t) and (w[1].lock.owner is None)
        if k == "join":
            return w[1].task is None or w[1].task.state == "done"
        if k == "future":
            return w[1].done()
        if k == "anydone":
            return any(f.done() for f in w[1]) or not w[1]
        if k == "pred":
            return bool(w[1]())
        raise ValueError(w)

    def enabled_tasks(self):
        return [t for t in self.tasks if self.enabled(t)]

    def task(self, name):
        for t in self.tasks:
            if t.name == name:
                return t
        raise KeyError(name)

    def step(self, t):
        assert self.enabled(t), (t.name, t.want)
        self.trace.append((t.name, t.want[0]))
        self.cur = t
        t.state = "running"
        t.go.release()
        self.ctl.acquire()
        self.cur = None
        self.nsteps += 1

    def all_done(self):
        return all(t.state == "done" for t in self.tasks)

    def run(self, chooser, max_steps=200000):
        """Run to completion. chooser(enabled_tasks, sched) -> task. Raises Deadlock on a hang."""
        while True:
            en = self.enabled_tasks()
            if not en:
                if self.all_done():
                    return
                raise Deadlock([(t.name, t.want and t.want[0]) for t in self.tasks if t.state != "done"])
            self.step(chooser(en, self))
            if self.nsteps > max_steps:
                raise StepLimit(self.nsteps)

    def abort(self):
        """Unwind all parked tasks (used after a hang / divergence so threads do not leak)."""
        self.aborting = True
        for t in self.tasks:
            if t.state != "done":
                self.cur = t
                t.go.release()
                self.ctl.acquire()
        self.cur = None
        self.dead = True


SCHED = None


def set_sched(s):
    global SCHED
    SCHED = s
    return s


def _inactive(s):
    """Objects of a finished run may still be touched later (generator finalisers): then they do nothing."""
    return s is None or s.dead or s is not SCHED or s.cur is None


class RLock:
    def __init__(self):
        self.owner = None
        self.count = 0
        self.sched = SCHED

    def acquire(self, blocking=True, timeout=-1):
        s = self.sched
        if _inactive(s):
            return True
        me = s.cur
        if me is None:           # set-up code outside the scheduler
            return True
        if self.owner is me:
            self.count += 1
            return True
        s.yield_point(("lock", self))
        assert self.owner is None
        self.owner = s.cur
        self.count = 1
        return True

    def release(self):
        if _inactive(self.sched):
            return
        if SCHED.aborting:
            self.owner = None
            return
        assert self.owner is SCHED.cur
        self.count -= 1
        if self.count == 0:
            if SCHED.observer:
                SCHED.observer(SCHED.cur, "release")
            self.owner = None

    __enter__ = acquire

    def __exit__(self, *a):
        self.release()

    def locked(self):
        return self.owner is not None

    def __repr__(self):
        return f"<RLock owner={self.owner and self.owner.name}>"


Lock = RLock


class Condition:
    def __init__(self, lock=None):
        self.lock = lock or RLock()
        self.waiters = []     # list of [task, notified]

    def __enter__(self):
        return self.lock.__enter__()

    def __exit__(self, *a):
        return self.lock.__exit__(*a)

    def is_notified(self, t):
        for w in self.waiters:
            if w[0] is t:
                return w[1]
        return True

    def wait(self, timeout=None):
        s = SCHED
        if _inactive(self.lock.sched):
            return True
        me = s.cur
        assert self.lock.owner is me
        saved = self.lock.count
        rec = [me, False]
        self.waiters.append(rec)
        self.lock.owner = None
        self.lock.count = 0
        try:
            s.yield_point(("cond", self))
        finally:
            self.waiters.remove(rec)
        assert self.lock.owner is None
        self.lock.owner = me
        self.lock.count = saved
        return True

    def wait_for(self, predicate, timeout=None):
        if _inactive(self.lock.sched):
            return predicate()
        result = predicate()
        while not result:
            self.wait(timeout)
            result = predicate()
        return result

    def notify_all(self):
        for w in self.waiters:
            w[1] = True

    def notify(self, n=1):
        for w in self.waiters:
            if not w[1] and n > 0:
                w[1] = True
                n -= 1


class Thread:
    def __init__(self, target=None, name=None, args=(), kwargs=None, daemon=None, group=None):
        self.target = target
        self.name = name or "thread"
        self.args = args
        self.kwargs = kwargs or {}
        self.task = None
        self.daemon = daemon

    def start(self):
        self.task = SCHED.spawn(self.name, lambda: self.target(*self.args, **self.kwargs))
        self.name = self.task.name

    def join(self, timeout=None):
        if self.task is not None and self.task.state != "done":
            SCHED.yield_point(("join", self))

    def is_alive(self):
        return self.task is not None and self.task.state != "done"


class DFuture(_Future):
    """A real Future whose .result() is a scheduler yield point (always)."""

    def result(self, timeout=None):
        s = SCHED
        if s is not None and s.cur is not None:
            s.yield_point(("future", self))
        return _Future.result(self, timeout=0)


class Executor:
    """ThreadPoolExecutor replacement: every submit spawns a dsched task."""

    def __init__(self, max_workers=None, **kw):
        self.n = 0
        self.futures = []

    def submit(self, fn, *a, **k):
        f = DFuture()
        self.n += 1

        def job():
            SCHED.yield_point(("step", "job"))
            try:
                f.set_result(fn(*a, **k))
            except BaseException as e:  # noqa
                f.set_exception(e)
        SCHED.spawn(f"job{self.n}", job)
        self.futures.append(f)
        return f

    def shutdown(self, wait=True, **kw):
        if wait:
            for f in self.futures:
                if not f.done():
                    SCHED.yield_point(("future", f))

    def __enter__(self):
        return self

    def __exit__(self, *a):
        self.shutdown()


def wait(fs, timeout=None, return_when="ALL_COMPLETED"):
    fs = list(fs)
    if return_when == "FIRST_COMPLETED":
        if fs and not any(f.done() for f in fs):
            SCHED.yield_point(("anydone", fs))
    else:
        for f in fs:
            if not f.done():
                SCHED.yield_point(("future", f))
    done = {f for f in fs if f.done()}
    return done, set(fs) - done


def make_threading_shim():
    m = types.ModuleType("threading_shim")
    m.RLock = RLock
    m.Lock = RLock
    m.Condition = Condition
    m.Thread = Thread
    m.current_thread = _rt.current_thread
    m.enumerate = _rt.enumerate
    m.main_thread = _rt.main_thread
    m.get_ident = _rt.get_ident
    return m
