"""C19: peak clustering, merging and the waveform helpers conserve hits, area and time.

spec/Peaks.tla defines gap-threshold clustering of hits into peaks (with extensions, duration, area
and channel cuts), merging, replacing merged peaks, the symmetric moving average and the
area-fraction index with exact rational arithmetic; TLC enumerates every input of the scope, checks
the conservation laws (area and hit count conserved, peaks ordered and disjoint, replacing keeps all
other peaks untouched and ordered) and prints the expected results, which are compared with the
real numba functions.
"""
import json
from fractions import Fraction
import numpy as np
import vcommon as V
import strax


def lst(x):
    return x if isinstance(x, list) else [x[k] for k in sorted(x, key=int)]


def make_hits(hs):
    h = np.zeros(len(hs), dtype=strax.hit_dtype)
    for i, (t, l, ch, ar) in enumerate(hs):
        h[i]["time"], h[i]["length"], h[i]["dt"], h[i]["channel"], h[i]["area"] = t, l, 1, ch, ar
    return h


def check_findpeaks(case):
    bad = []
    hits = case["hits"]
    for (gap, ext, maxdur), (exp_all, exp_cut) in zip(case["params"], case["peaks"]):
        for (minarea, minch), exp in (((0, 1), exp_all), ((3, 2), exp_cut)):
            shift = 10          # keep times positive after subtracting the left extension
            h = make_hits([(t + shift, l, ch, ar) for (t, l, ch, ar) in hits])
            try:
                p = strax.find_peaks(h, adc_to_pe=np.ones(2), gap_threshold=gap, left_extension=ext[0], right_extension=ext[1],
                                     min_area=minarea, min_channels=minch, max_duration=maxdur, result_dtype=strax.peak_dtype(n_channels=2))
                got = [dict(time=int(x["time"]) - shift, length=int(x["length"]), nhits=int(x["n_hits"]), area=float(x["area"]),
                            apc=[float(v) for v in x["area_per_channel"]]) for x in p]
            except Exception as e:  # noqa
                got = repr(e)
            want = [dict(time=e["time"], length=e["length"], nhits=e["nhits"], area=float(e["area"]), apc=[float(v) for v in lst(e["apc"])])
                    for e in exp]
            if got != want:
                bad.append((f"find_peaks:{hits}:gap={gap}:ext={ext}:maxdur={maxdur}:cuts={minarea},{minch}",
                            f"find_peaks({hits}, gap={gap}, ext={ext}, max_duration={maxdur}, min_area={minarea}, min_channels={minch}) = {got}, "
                            f"definition {want}"))
    return bad, int(len(hits) > 1)


def make_peaks(ps):
    p = np.zeros(len(ps), dtype=strax.peak_dtype(n_channels=2))
    for i, (t, e, ar) in enumerate(ps):
        p[i]["time"], p[i]["length"], p[i]["dt"], p[i]["area"] = t, e - t, 1, ar
        p[i]["data"][: e - t] = ar / (e - t)
        p[i]["area_per_channel"][0] = ar
        p[i]["n_hits"] = 1
    return p


def check_merge(case):
    bad = []
    ps = case["peaks"]
    for (a, b), m, rep in zip(case["windows"], case["merged"], case["replaced"]):
        p = make_peaks(ps)
        try:
            mp = strax.merge_peaks(p, np.array([a]), np.array([b]), max_buffer=200)
            got_m = [int(mp[0]["time"]), int(strax.endtime(mp)[0]), float(mp[0]["area"])]
            wf = float(mp[0]["data"][: mp[0]["length"]].sum())
            r = strax.replace_merged(p, mp)
            got_r = [[int(x["time"]), int(strax.endtime(x)), float(x["area"])] for x in r]
        except Exception as e:  # noqa
            got_m, wf, got_r = repr(e), None, None
        want_m = [m[0], m[1], float(m[2])]
        want_r = [[x[0], x[1], float(x[2])] for x in rep]
        if got_m != want_m or got_r != want_r or (wf is not None and abs(wf - m[2]) > 1e-4) or (wf is not None and int(mp[0]["n_hits"]) != b - a):
            bad.append((f"merge:{ps}:window={a},{b}", f"merge_peaks / replace_merged on {ps} window [{a},{b}): merged {got_m} (waveform sum {wf}) "
                        f"replaced {got_r}; definition merged {want_m} replaced {want_r}"))
    return bad, 1


def check_sma(case):
    bad = []
    w = case["w"]
    for k, exp in (case["sma"].items() if isinstance(case["sma"], dict) else enumerate(case["sma"])):
        wing = int(k)
        a = np.array(w, dtype=np.float64)
        got = strax.processing.peak_splitting.symmetric_moving_average(a, wing)
        want = [float(Fraction(n, d)) for n, d in lst(exp)]
        if not np.allclose(got, want, atol=1e-9):
            bad.append((f"symmetric_moving_average:{w}:wing={wing}", f"symmetric_moving_average({w}, {wing}) = {[round(float(x), 4) for x in got]}, "
                        f"definition {[round(x, 4) for x in want]}"))
    return bad, int(len(w) > 1)


def check_iof(case):
    bad = []
    w = case["w"]
    p = np.zeros(1, dtype=strax.peak_dtype(n_channels=2))
    p[0]["length"], p[0]["dt"] = len(w), 1
    p[0]["data"][: len(w)] = w
    p[0]["area"] = sum(w)
    fr = np.array([float(Fraction(a, b)) for a, b in case["fracs"]])
    got = strax.index_of_fraction(p, fr)[0]
    want = [float(Fraction(n, d)) for n, d in case["idx"]]
    if not np.allclose(got, want, atol=1e-4):
        bad.append((f"index_of_fraction:{w}", f"index_of_fraction({w}, {case['fracs']}) = {[round(float(x), 4) for x in got]}, definition "
                    f"{[round(x, 4) for x in want]}"))
    return bad, 1


CHECK = dict(findpeaks=check_findpeaks, merge=check_merge, sma=check_sma, iof=check_iof)


def _job(arg):
    kind, cases = arg
    out, n = [], 0
    for c in cases:
        b, nt = CHECK[kind](c)
        out += b
        n += nt
    return out, n


def run(chk):
    quick = chk.tier == "quick"
    scopes = [dict(G=4 if quick else 5, NH=3, Kind="findpeaks"), dict(G=5 if quick else 6, NH=3 if quick else 4, Kind="merge"),
              dict(G=0, NH=5 if quick else 7, Kind="sma"), dict(G=0, NH=5 if quick else 6, Kind="iof")]
    for sc in scopes:
        r, cases = V.tlc_cases("Peaks", sc, ["Laws", "Emit"], timeout=3000, workers=1)
        chk.add_tlc(r, f"Peaks {sc}")
        if r.violated == "Laws":
            raise V.MachineryError("Peaks.tla: a conservation law fails in the model itself: " + r.out[-1500:])
        V.tlc_must_finish(r, f"Peaks {sc}")
        if not r.ok or len(cases) != r.distinct:
            raise V.MachineryError(f"Peaks {sc}: {len(cases)} cases for {r.distinct} states\n" + r.out[-1500:])
        kind = sc["Kind"]
        if quick and kind == "findpeaks":
            rng = __import__("random").Random(chk.seed)
            cases = [c for c in cases if rng.random() < 0.3]
        CHECK[kind](cases[0])
        res = V.pmap(_job, [(kind, ch) for ch in V.chunks_of(cases, V.NCPU * 2)])
        nt = 0
        for bad, n in res:
            nt += n
            for sig, text in bad:
                chk.violation("C19:" + sig, text, dict(kind=kind, signature=sig))
        chk.evaluations += len(cases)
        chk.traces += len(cases)
        for i in range(nt):
            chk.nontrivial.add(f"{kind}-{i}")
        chk.sample(dict(kind=kind, case=cases[len(cases) // 3]))
    chk.exhaustive = not quick
    chk.rule = ("every sorted hit list of <= 3 hits (time, length, channel, area) x five (gap threshold, extensions, max duration) settings x "
                "with / without area and channel cuts; every disjoint peak list of <= 4 peaks x every merge window; every waveform of <= 7 "
                "samples over {0..3} x wing 0..3 for the moving average and x seven area fractions for the fraction index; non-trivial = more "
                "than one hit / sample")
    chk.assumptions += ["not covered by the specification: split_peaks, natural_breaks_gof, highest_density_region, down-sampling of summed "
                        "waveforms (sum_waveform)", "floats compared with tolerance 1e-4 (float32 fields) / 1e-9 (float64)"]


def replay(chk, path):
    rp = json.load(open(path))
    print(rp["signature"], "\n", rp["text"])
    return 0
