"""C19: peak clustering, merging and the waveform helpers conserve hits, area and time.

spec/Peaks.tla defines gap-threshold clustering of hits into peaks (with extensions, duration, area
and channel cuts), merging, replacing merged peaks, the symmetric moving average and the
area-fraction index with exact rational arithmetic; TLC enumerates every input of the scope, checks
the conservation laws (area and hit count conserved, peaks ordered and disjoint, replacing keeps all
other peaks untouched and ordered) and prints the expected results, which are compared with the
real numba functions.
"""
import json
from fractions import Fraction
import numpy as np
import vcommon as V
import strax


def lst(x):
    return x if isinstance(x, list) else [x[k] for k in sorted(x, key=int)]


def make_hits(hs):
    h = np.zeros(len(hs), dtype=strax.hit_dtype)
    for i, (t, l, ch, ar) in enumerate(hs):
        h[i]["time"], h[i]["length"], h[i]["dt"], h[i]["channel"], h[i]["area"] = t, l, 1, ch, ar
    return h


def check_findpeaks(case):
    bad = []
    hits = case["hits"]
    for (gap, ext, maxdur), (exp_all, exp_cut) in zip(case["params"], case["peaks"]):
        for (minarea, minch), exp in (((0, 1), exp_all), ((3, 2), exp_cut)):
            shift = 10          # keep times positive after subtracting the left extension
            h = make_hits([(t + shift, l, ch, ar) for (t, l, ch, ar) in hits])
            try:
                p = strax.find_peaks(h, adc_to_pe=np.ones(2), gap_threshold=gap, left_extension=ext[0], right_extension=ext[1],
                                     min_area=minarea, min_channels=minch, max_duration=maxdur, result_dtype=strax.peak_dtype(n_channels=2))
                got = [dict(time=int(x["time"]) - shift, length=int(x["length"]), nhits=int(x["n_hits"]), area=float(x["area"]),
                            apc=[float(v) for v in x["area_per_channel"]]) for x in p]
            except Exception as e:  # noqa
                got = repr(e)
            want = [dict(time=e["time"], length=e["length"], nhits=e["nhits"], area=float(e["area"]), apc=[float(v) for v in lst(e["apc"])])
                    for e in exp]
            if got != want:
                bad.append((f"find_peaks:{hits}:gap={gap}:ext={ext}:maxdur={maxdur}:cuts={minarea},{minch}",
                            f"find_peaks({hits}, gap={gap}, ext={ext}, max_duration={maxdur}, min_area={minarea}, min_channels={minch}) = {got}, "
                            f"definition {want}"))
    return bad, int(len(hits) > 1)


def make_peaks(ps):
    p = np.zeros(len(ps), dtype=strax.peak_dtype(n_channels=2))
    for i, (t, e, ar) in enumerate(ps):
        p[i]["time"], p[i]["length"], p[i]["dt"], p[i]["area"] = t, e - t, 1, ar
        p[i]["data"][: e - t] = ar / (e - t)
        p[i]["area_per_channel"][0] = ar
        p[i]["n_hits"] = 1
    return p


def check_merge(case):
    bad = []
    ps = case["peaks"]
    for (a, b), m, rep in zip(case["windows"], case["merged"], case["replaced"]):
        p = make_peaks(ps)
        try:
            mp = strax.merge_peaks(p, np.array([a]), np.array([b]), max_buffer=200)
            got_m = [int(mp[0]["time"]), int(strax.endtime(mp)[0]), float(mp[0]["area"])]
            wf = float(mp[0]["data"][: mp[0]["length"]].sum())
            r = strax.replace_merged(p, mp)
            got_r = [[int(x["time"]), int(strax.endtime(x)), float(x["area"])] for x in r]
        except Exception as e:  # noqa
            got_m, wf, got_r = repr(e), None, None
        want_m = [m[0], m[1], float(m[2])]
        want_r = [[x[0], x[1], float(x[2])] for x in rep]
        if got_m != want_m or got_r != want_r or (wf is not None and abs(wf - m[2]) > 1e-4) or (wf is not None and int(mp[0]["n_hits"]) != b - a):
            bad.append((f"merge:{ps}:window={a},{b}", f"merge_peaks / replace_merged on {ps} window [{a},{b}): merged {got_m} (waveform sum {wf}) "
                        f"replaced {got_r}; definition merged {want_m} replaced {want_r}"))
    return bad, 1


def check_merge2(case):
    """several groups merged in one merge_peaks call, peaks with a buffer of 3 samples (merged peaks are down-sampled)"""
    bad = []
    ps = case["peaks"]
    dt3 = strax.peak_dtype(n_channels=2, n_sum_wv_samples=3)
    for g, outs in zip(case["groups"], case["out"]):
        outs = lst(outs)
        p = np.zeros(len(ps), dtype=dt3)
        for i, (t, e, ar) in enumerate(ps):
            p[i]["time"], p[i]["length"], p[i]["dt"], p[i]["area"] = t, e - t, 1, ar
            p[i]["data"][0] = ar
            p[i]["area_per_channel"][0] = ar
            p[i]["n_hits"] = 1
        starts = [g[0]] + ([g[2]] if g[2] < g[3] else [])
        ends = [g[1]] + ([g[3]] if g[2] < g[3] else [])
        try:
            mp = strax.merge_peaks(p, np.array(starts), np.array(ends), max_buffer=16)
            got = [dict(time=int(m["time"]), endtime=int(strax.endtime(m)), area=float(m["area"]), nhits=int(m["n_hits"]), dt=int(m["dt"]),
                        length=int(m["length"]), data=[float(x) for x in m["data"][: m["length"]]]) for m in mp]
        except Exception as e:  # noqa
            got = repr(e)[:150]
        want = [dict(time=o["time"], endtime=o["endtime"], area=float(o["area"]), nhits=o["nhits"], dt=o["dt"], length=o["length"],
                     data=[float(x) for x in lst(o["data"])] if o["length"] else []) for o in outs]
        if got != want:
            bad.append((f"merge2:{ps}:groups={g}", f"merge_peaks on {ps} (area in the first sample, buffer of 3 samples), groups {list(zip(starts, ends))} "
                        f"merged in one call gives {got}, definition {want}"))
        else:
            for m, o in zip(got, outs):
                if abs(sum(m["data"]) - m["area"]) > 1e-6 or m["endtime"] != o["lastend"]:
                    bad.append((f"merge:downsampling-shortens-the-merged-peak:{ps}:groups={g}",
                                f"merge_peaks on {ps}, groups {list(zip(starts, ends))}: the merged peak covers [{m['time']}, {m['endtime']}) where the last "
                                f"constituent ends at {o['lastend']}, and stores waveform {m['data']} (dt {m['dt']}) integrating to {sum(m['data'])} for an "
                                f"area of {m['area']} (the trailing {(o['lastend'] - m['time']) % m['dt']} sample(s) do not fill a down-sampling group and are dropped)"))
                    break
    return bad, 1


def check_sma(case):
    bad = []
    w = case["w"]
    for k, exp in (case["sma"].items() if isinstance(case["sma"], dict) else enumerate(case["sma"])):
        wing = int(k)
        a = np.array(w, dtype=np.float64)
        got = strax.processing.peak_splitting.symmetric_moving_average(a, wing)
        want = [float(Fraction(n, d)) for n, d in lst(exp)]
        if not np.allclose(got, want, atol=1e-9):
            bad.append((f"symmetric_moving_average:{w}:wing={wing}", f"symmetric_moving_average({w}, {wing}) = {[round(float(x), 4) for x in got]}, "
                        f"definition {[round(x, 4) for x in want]}"))
    return bad, int(len(w) > 1)


def check_iof(case):
    bad = []
    w = case["w"]
    p = np.zeros(1, dtype=strax.peak_dtype(n_channels=2))
    p[0]["length"], p[0]["dt"] = len(w), 1
    p[0]["data"][: len(w)] = w
    p[0]["area"] = sum(w)
    fr = np.array([float(Fraction(a, b)) for a, b in case["fracs"]])
    got = strax.index_of_fraction(p, fr)[0]
    want = [float(Fraction(n, d)) for n, d in case["idx"]]
    if not np.allclose(got, want, atol=1e-4):
        bad.append((f"index_of_fraction:{w}", f"index_of_fraction({w}, {case['fracs']}) = {[round(float(x), 4) for x in got]}, definition "
                    f"{[round(x, 4) for x in want]}"))
    return bad, 1


def _peak_with_wave(w, n_buffer=None, t0=100):
    p = np.zeros(1, dtype=strax.peak_dtype(n_channels=2, n_sum_wv_samples=n_buffer or 8))
    p[0]["time"], p[0]["length"], p[0]["dt"] = t0, len(w), 1
    p[0]["data"][: len(w)] = w
    p[0]["area"] = sum(w)
    return p


def _real_cuts(splitter, p, args_options):
    """Children made by the real PeakSplitter._split_peaks, as cut indices relative to the parent (None: it raised)."""
    import strax.processing.peak_splitting as ps
    is_split = np.zeros(len(p), dtype=bool)
    try:
        new = splitter._split_peaks(split_finder=splitter.find_split_points, peaks=p, is_split=is_split, orig_dt=1, min_area=0,
                                    args_options=args_options, result_dtype=p.dtype)
    except Exception as e:  # noqa
        return None, repr(e)[:120]
    kids = [(int(x["time"]) - int(p[0]["time"]), int(x["length"])) for x in new]
    return kids, None


def check_split(case):
    """Local-minimum splitting: the real children = the transcription's cuts (and hence tile the parent); natural-breaks
    splitting: recorded for the P-level judgement by TLC (TilesParent)."""
    import strax.processing.peak_splitting as ps
    bad = []
    w = case["w"]
    obs = []
    for (mh, mr), cuts in zip(case["params"], case["cuts"]):
        p = _peak_with_wave([float(x) for x in w])
        kids, err = _real_cuts(ps.LocalMinimumSplitter(), p, (float(mh), float(mr)))
        starts = [0] + list(cuts[:-1])
        want = [(a, b - a) for a, b in zip(starts, cuts)]
        if err or kids != want:
            bad.append((f"split:local_minimum:{w}:min_height={mh}:min_ratio={mr}",
                        f"LocalMinimumSplitter on waveform {w} (min_height={mh}, min_ratio={mr}) gives children (start, length) {kids if not err else err}, "
                        f"definition {want}"))
    for thr in (0.1, 0.4):
        for norm, low in ((False, False), (True, False), (False, True)):
            p = _peak_with_wave([float(x) for x in w])
            kids, err = _real_cuts(ps.NaturalBreaksSplitter(), p, (np.array([thr]), norm, low, 0))
            obs.append(dict(alg="natural_breaks", w=w, thr=thr, normalize=norm, split_low=low, n=len(w),
                            kids=[list(k) for k in kids] if kids is not None else [], err=err or ""))
    return bad, 1, obs


def check_sumwf(case):
    bad = []
    recs = case["recs"]
    S = len(recs[0])
    r = np.zeros(2, dtype=strax.record_dtype(S))
    for ch in (0, 1):
        r[ch]["time"], r[ch]["length"], r[ch]["dt"], r[ch]["channel"] = 0, S, 1, ch
        r[ch]["data"][:S] = recs[ch]
    hits = strax.find_hits(r, min_amplitude=1)
    hits = strax.sort_by_time(hits)
    rlinks = strax.record_links(r)
    to_pe = np.array([1.0, 2.0])
    for (pt, pl), outs in zip(case["windows"], case["out"]):
        for nb, exp in zip(case["nbs"], outs):
            p = np.zeros(1, dtype=strax.peak_dtype(n_channels=2, n_sum_wv_samples=nb))
            p[0]["time"], p[0]["length"], p[0]["dt"] = pt, pl, 1
            hh = hits[np.argsort(hits["record_i"], kind="stable")] if len(hits) else hits
            if not len(hits):
                continue
            try:
                strax.sum_waveform(p, hits, r, rlinks, to_pe)
                got = dict(area=float(p[0]["area"]), apc=[float(x) for x in p[0]["area_per_channel"]], dt=int(p[0]["dt"]), length=int(p[0]["length"]),
                           data=[float(x) for x in p[0]["data"][: p[0]["length"]]])
            except Exception as e:  # noqa
                got = repr(e)[:150]
            want = dict(area=float(exp["area"]), apc=[float(x) for x in lst(exp["apc"])], dt=exp["dt"], length=exp["length"],
                        data=[float(x) for x in lst(exp["data"])] if exp["length"] else [])
            if got != want:
                bad.append((f"sum_waveform:{recs}:peak={pt},{pl}:buffer={nb}", f"sum_waveform on records {recs} (to_pe 1, 2), peak [{pt}, {pt + pl}), buffer of {nb} "
                            f"samples gives {got}, definition {want}"))
            elif isinstance(got, dict) and abs(sum(got["data"]) - got["area"]) > 1e-6:
                # the property: the stored waveform integrates to the area, also after down-sampling
                bad.append((f"sum_waveform:downsampling-loses-area:{recs}:peak={pt},{pl}:buffer={nb}",
                            f"records {recs}, peak [{pt}, {pt + pl}), buffer {nb}: stored waveform {got['data']} (dt {got['dt']}) integrates to {sum(got['data'])}, "
                            f"area is {got['area']} (the trailing {pl % got['dt']} sample(s) do not fill a down-sampling group and are dropped)"))
    return bad, 1


def check_widths(case):
    bad = []
    w = case["w"]
    p = _peak_with_wave([float(x) for x in w])
    _, width, decile = strax.compute_widths(p)
    got_w = [float(x) for x in width[0]]
    got_d = [float(x) for x in decile[0]]
    want_w = [float(Fraction(n, d)) for n, d in lst(case["width"])]
    want_d = [float(Fraction(n, d)) for n, d in lst(case["decile"])]
    if not np.allclose(got_w, want_w, atol=1e-3) or not np.allclose(got_d, want_d, atol=1e-3):
        bad.append((f"compute_widths:{w}", f"compute_widths({w}): width {[round(x, 3) for x in got_w]} / definition {[round(x, 3) for x in want_w]}; "
                    f"area_decile_from_midpoint {[round(x, 3) for x in got_d]} / definition {[round(x, 3) for x in want_d]}"))
    return bad, 1


def check_hdr(case):
    bad = []
    w = case["w"]
    fr = np.array([float(Fraction(a, b)) for a, b in case["fracs"]])
    try:
        res, amp = strax.highest_density_region(np.array(w, dtype=np.float64), fr)
        got = []
        for k in range(len(fr)):
            iv = [[int(l), int(r)] for l, r in zip(res[k, 0], res[k, 1]) if r > l]
            got.append((iv, float(amp[k])))
    except Exception as e:  # noqa
        got = repr(e)[:150]
    want = [([list(x) for x in lst(e["intervals"])], float(Fraction(e["amp"][0], e["amp"][1]))) for e in case["hdr"]]
    ok = isinstance(got, list) and all(g[0] == x[0] and abs(g[1] - x[1]) < 1e-4 for g, x in zip(got, want))
    if not ok:
        bad.append((f"highest_density_region:{w}", f"highest_density_region({w}, {case['fracs']}) = {got}, definition {want}"))
    return bad, 1


CHECK = dict(hdr=check_hdr, findpeaks=check_findpeaks, merge=check_merge, merge2=check_merge2, sma=check_sma, iof=check_iof, split=check_split, sumwf=check_sumwf,
             widths=check_widths)


def _job(arg):
    kind, cases = arg
    out, n, obs = [], 0, []
    for c in cases:
        res = CHECK[kind](c)
        out += res[0]
        n += res[1]
        if len(res) > 2:
            obs += res[2]
    return out, n, obs


def _enumerate(sc):
    r, cases = V.tlc_cases("Peaks", sc, ["Laws", "Emit"], timeout=3000, workers=1)
    r.trace = []
    if r.ok:
        r.out = ""           # the printed cases are parsed already; do not ship the text back through the pool
    return r, cases


def run(chk):
    quick = chk.tier == "quick"
    scopes = [dict(G=4 if quick else 5, NH=3, Kind="findpeaks"), dict(G=5 if quick else 7, NH=3, Kind="merge"), dict(G=7 if quick else 9, NH=4, Kind="merge2"),
              dict(G=0, NH=5 if quick else 7, Kind="sma"), dict(G=0, NH=5 if quick else 6, Kind="iof"),
              dict(G=0, NH=5 if quick else 7, Kind="split"), dict(G=0, NH=4 if quick else 5, Kind="sumwf"),
              dict(G=0, NH=5 if quick else 6, Kind="widths"), dict(G=0, NH=5 if quick else 6, Kind="hdr")]
    split_obs = []
    # the enumerations of all scopes run side by side (TLC prints the cases one by one: the larger scopes take minutes)
    enum = V.pmap(_enumerate, scopes, procs=8, warm=False)
    for sc, (r, cases) in zip(scopes, enum):
        chk.add_tlc(r, f"Peaks {sc}")
        if r.violated == "Laws":
            raise V.MachineryError("Peaks.tla: a conservation law fails in the model itself: " + r.out[-1500:])
        V.tlc_must_finish(r, f"Peaks {sc}")
        if not r.ok or len(cases) != r.distinct:
            raise V.MachineryError(f"Peaks {sc}: {len(cases)} cases for {r.distinct} states\n" + r.out[-1500:])
        kind = sc["Kind"]
        if quick and kind == "findpeaks":
            rng = __import__("random").Random(chk.seed)
            cases = [c for c in cases if rng.random() < 0.3]
        CHECK[kind](cases[0])
        res = V.pmap(_job, [(kind, ch) for ch in V.chunks_of(cases, V.NCPU * 2)])
        nt = 0
        for bad, n, obs in res:
            nt += n
            split_obs += obs
            for sig, text in bad:
                chk.violation("C19:" + sig, text, dict(kind=kind, signature=sig))
        chk.evaluations += len(cases)
        chk.traces += len(cases)
        for i in range(nt):
            chk.nontrivial.add(f"{kind}-{i}")
        chk.sample(dict(kind=kind, case=cases[len(cases) // 3]))
    # natural-breaks splits: the P-level (children tile the parent, no exception) judged by TLC on the recorded observations
    if split_obs:
        import os
        d = V.stage_spec(["Peaks"], {"Peaks.cfg": V.cfg_text(dict(G=0, NH=1, Kind="splitobs"), ["Laws"])})
        with open(os.path.join(d, "obs.json"), "w") as f:
            json.dump([dict(n=o["n"], kids=o["kids"], err=o["err"]) for o in split_obs], f)
        r = V.run_tlc(d, "Peaks", "Peaks.cfg", workers=1, timeout=1800, env={"TRACE_FILE": os.path.join(d, "obs.json")}, args=["-continue"])
        chk.add_tlc(r, f"P-level (TilesParent) on {len(split_obs)} observed natural-breaks splits")
        if not (r.ok or r.violated):
            raise V.MachineryError("Peaks splitobs failed: " + r.out[-2000:])
        import re
        for k in sorted({int(m.group(1)) for m in re.finditer(r"c = (\d+)", r.out)}):
            o = split_obs[k - 1]
            what = "raises" if o["err"] else "children-do-not-tile-the-parent"
            chk.violation(f"C19:split:natural_breaks:{what}:{o['w']}:thr={o['thr']}:normalize={o['normalize']}:split_low={o['split_low']}",
                          f"NaturalBreaksSplitter on waveform {o['w']} (threshold {o['thr']}, normalize={o['normalize']}, split_low={o['split_low']}): "
                          + (f"raised {o['err']}" if o["err"] else f"children (start, length) {o['kids']} do not tile the parent's {o['n']} samples"),
                          dict(kind="split", signature=str(o)))
        chk.traces += len(split_obs)
        chk.extra["natural_breaks_splits_observed"] = len([o for o in split_obs if o["kids"]])
    chk.exhaustive = not quick
    chk.rule = ("every sorted hit list of <= 3 hits (time, length, channel, area) x five (gap threshold, extensions, max duration) settings x "
                "with / without area and channel cuts; every disjoint peak list of <= 4 peaks x every merge window; every waveform of <= 7 "
                "samples over {0..3} x wing 0..3 for the moving average, x seven area fractions for the fraction index, x eleven widths / deciles, "
                "x four (min_height, min_ratio) settings for local-minimum splitting and x six (threshold, normalize, split_low) settings for "
                "natural-breaks splitting; every pair of short records (two channels) x every peak window x three buffer sizes for the summed "
                "waveform and its down-sampling; non-trivial = more than one hit / sample")
    chk.assumptions += ["not covered by the specification: the value of natural_breaks_gof (float computation; only the tiling of its splits is "
                        "decided), highest_density_region with only_upper_part=True", "floats compared with tolerance 1e-4 (float32 fields) / 1e-9 (float64)"]


def replay(chk, path):
    rp = json.load(open(path))
    print(rp["signature"], "\n", rp["text"])
    return 0
