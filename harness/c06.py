"""C06: failures reach the caller and never hang the pipeline.

Design level: spec/Mailbox.tla with kill actions (MailboxKill configuration) is model-checked and
bound to the real strax.Mailbox by lock-step replay (shared with C05); spec/Pipeline.tla models the
exception relay of the threaded processor.  Code level: every (topology, stage, chunk) failure
position, consumer failure / abandonment and the failure-free case is executed on the real
processors - the threaded one under the deterministic scheduler for many schedules - and TLC judges
every observation against the P-level (spec/PipelineObs.tla).
"""
import itertools
import json
import os
import re
import vcommon as V
import pipeline as PL
import hplugins as H

STAGES = {
    "chain": ["src", "pa", "pb", "save:src", "save:pa", "save:pb", "load:src", "load:pa"],
    "diamond": ["src", "pa", "pb", "pc", "save:pa", "save:pc", "load:src"],
    "multi_saved": ["src", "mx", "pz", "save:mx", "save:my", "save:pz", "load:mx"],
    "multi_discard": ["src", "mx", "pz", "save:mx", "save:pz"],
    "multi_unsaved": ["src", "mx", "pz", "save:pz"],
}


def scenarios(tier):
    S = []
    n = PL.NCHUNKS
    ks = (0, n - 1) if tier == "quick" else tuple(range(n))
    for topo in PL.TOPOLOGIES:
        for proc in ("single_thread", "threaded_mailbox"):
            modes = [(True, 4)] if proc == "single_thread" else ([(True, 4), (False, 2)] if tier == "quick" else
                                                                [(True, 4), (False, 2), (False, 4), (True, 2)])
            for lazy, mm in modes:
                base = dict(topo=topo, processor=proc, lazy=lazy, max_messages=mm, n=n)
                S.append(dict(base, fail=None, consumer=None))
                for st in STAGES[topo]:
                    for k in ks:
                        S.append(dict(base, fail=(st, k), consumer=None))
                for st in STAGES[topo]:
                    if st.startswith("save:"):      # failure while the saver is being closed (metadata flush / rename)
                        S.append(dict(base, fail=("close:" + st[5:], 0), consumer=None))
                for k in ks:
                    S.append(dict(base, fail=None, consumer=("raise", k)))
                    S.append(dict(base, fail=None, consumer=("close", k)))
    return S


def expected_msg(sc):
    if sc["fail"]:
        st, k = sc["fail"]
        if st == "mx":
            return f"mx/my fails at chunk {k}"
        return f"{st} fails at chunk {k}"
    if sc["consumer"] and sc["consumer"][0] == "raise":
        return f"consumer fails at chunk {sc['consumer'][1]}"
    return None


def job(arg):
    sc, seeds = arg
    out = []
    for seed in seeds:
        sched = "pct" if seed % 3 == 2 else "random"
        rec = []
        tracer = None
        if sc["topo"] == "chain" and sc["processor"] == "threaded_mailbox":
            tracer = PL.RelayTracer(("src", "pa", "pb"), sc)
            with tracer:
                obs = PL.run_scenario(dict(sc, sched=sched), schedule_seed=seed, record=rec, tracer=tracer)
        else:
            obs = PL.run_scenario(dict(sc, sched=sched), schedule_seed=seed, record=rec)
        whole = PL.whole_run(sc["topo"], sc["n"])
        rows = obs["rows"]
        msg = expected_msg(sc)
        inject = "none"
        if sc["fail"]:
            inject = "stage"
        elif sc["consumer"]:
            inject = "consumer_" + sc["consumer"][0]
        o = dict(inject=inject, outcome=obs["outcome"],
                 orig=bool(obs["exc_type"] == "HarnessFailure" and msg is not None and obs["exc_msg"] == msg),
                 hang=bool(obs["hang"]), live=int(obs["live"]),
                 complete=bool(rows is not None and rows == whole),
                 prefix=bool(rows is not None and rows == whole[:len(rows)]))
        out.append(dict(sc=sc, seed=seed, sched=sched, o=o, detail=dict(exc=f"{obs['exc_type']}: {obs['exc_msg']}", hang=obs["hang"],
                                                                         steps=obs["steps"], nrows=None if rows is None else len(rows)),
                        schedule=rec if (obs["hang"] or len(rec) < 400) else rec[:400],
                        relay=relay_record(sc, tracer, o) if tracer is not None and tracer.proc is not None else None))
        if sc["processor"] != "threaded_mailbox":
            break
    return out


def model_fail(sc):
    """The scenario's injected failure in the vocabulary of spec/Pipeline.tla."""
    stages = ("src", "pa", "pb")
    if sc["fail"]:
        st, k = sc["fail"]
        for pre, kind in (("save:", "saver"), ("close:", "close"), ("load:", "stage"), ("", "stage")):
            if st.startswith(pre):
                return [kind, stages.index(st[len(pre):]) + 1, k]
    if sc["consumer"]:
        return [dict(raise_="consumer", close="stop", pause="pause")[sc["consumer"][0].replace("raise", "raise_")], 0, sc["consumer"][1] + 1]
    return ["none", 0, 0]


def relay_record(sc, tracer, o):
    evs = tracer.events
    cls = "any" if sc["consumer"] else ("returned" if o["outcome"] == "returned" else "orig" if o["orig"] else "other")
    for e in evs:
        e["outcome"] = cls
    return dict(cap=sc["max_messages"], lazy=bool(sc["lazy"]), fail=model_fail(sc), saved=tracer.saved(), events=evs)


def relay_validate(chk, results, pid="C06"):
    """Trace validation of the recorded chain runs against spec/Pipeline.tla (PipelineTrace.tla), one TLC run per (saved set, run length)."""
    groups = {}
    for r in results:
        if r.get("relay"):
            groups.setdefault((tuple(r["relay"]["saved"]), r["sc"].get("n", PL.NCHUNKS)), []).append(r)
    nok = 0
    for (saved, nchunks), rs in sorted(groups.items()):
        fails = sorted({tuple(r["relay"]["fail"]) for r in rs})
        caps = sorted({r["relay"]["cap"] for r in rs})
        mc = (f"---- MODULE MCT ----\nEXTENDS PipelineTrace\nFailDef == {V.to_tla(set(fails))}\nSavedDef == {V.to_tla(set(saved))}\n"
              f"CapDef == {V.to_tla(set(caps))}\n====\n")
        cfg = (f"SPECIFICATION TraceSpec\nCONSTANTS NS = 3 NChunks = {nchunks} MainKills = TRUE Backpressure = TRUE LazySet = {{TRUE, FALSE}}\n"
               "CONSTANT FailSet <- FailDef\nCONSTANT Saved <- SavedDef\nCONSTANT CapSet <- CapDef\n"
               "INVARIANT Progress\nINVARIANT EagerCap\nINVARIANT TraceEveryoneStops\nINVARIANT CallerOutcome\nINVARIANT PauseBound\n"
               "POSTCONDITION AllAccepted\nCHECK_DEADLOCK FALSE\n")
        d = V.stage_spec(["Pipeline", "PipelineTrace"], {"MCT.tla": mc, "MCT.cfg": cfg})
        with open(os.path.join(d, "traces.json"), "w") as f:
            json.dump([dict(cap=r["relay"]["cap"], lazy=r["relay"]["lazy"], fail=r["relay"]["fail"], events=r["relay"]["events"]) for r in rs], f)
        r = V.run_tlc(d, "MCT", "MCT.cfg", workers=1, timeout=3000, env={"TRACE_FILE": os.path.join(d, "traces.json")}, heap="4g")
        chk.add_tlc(r, f"trace validation of {len(rs)} real chain runs ({nchunks} source chunks) against Pipeline.tla, saved={saved}")
        rej = {int(a): int(b) for a, b in re.findall(r'REJECTED trace", (\d+), "at event", (\d+)', r.out)}
        if not r.ok and not rej and not r.violated:
            raise V.MachineryError("PipelineTrace failed to run: " + r.out[-2000:])
        if r.violated and not rej and r.violated != "AllAccepted":
            rej = {int(m.group(1)): -1 for m in re.finditer(r"tid = (\d+)", r.out)}
        nok += len(rs) - len(rej)
        for t, ev in sorted(rej.items()):
            rr = rs[t - 1]
            sc = rr["sc"]
            inj = f"{sc['fail'][0]}:{sc['fail'][1]}" if sc["fail"] else (f"consumer_{sc['consumer'][0]}:{sc['consumer'][1]}" if sc["consumer"] else "none")
            evs = rr["relay"]["events"]
            if ev < 0:
                # a P-level invariant of Pipeline.tla fails in a state the real run went through: a verdict
                chk.violation(f"{pid}:relay-trace:{'lazy' if sc['lazy'] else 'eager'}:mm{sc['max_messages']}:{inj}:{r.violated}",
                              f"real run of the chain ({inj}, lazy={sc['lazy']}, max_messages={sc['max_messages']}, schedule seed {rr['seed']}): "
                              f"{r.violated} is violated along the recorded trace", dict(sc=sc, seed=rr["seed"], sched=rr["sched"], relay_event=ev))
            else:
                # the real run departs from the I-level model (internal mailbox state): reported as drift, not a verdict -
                # the P-level judgement of the same run (PipelineObs / BackpressureObs) decides
                chk.drift.append(dict(kind="real chain run is not a behaviour of Pipeline.tla", scenario=f"{inj} lazy={sc['lazy']} max_messages={sc['max_messages']} seed={rr['seed']}",
                                      at=ev, of=len(evs), event=evs[ev - 1] if 0 < ev <= len(evs) else None))
    chk.traces += nok
    chk.extra["relay_traces_validated"] = nok


def which(o):
    bad = []
    if o["hang"] or o["live"]:
        bad.append("pipeline hangs / threads left alive")
    if o["inject"] in ("stage", "consumer_raise") and not (o["outcome"] == "raised" and o["orig"]):
        bad.append("the caller did not receive the original exception")
    if o["inject"] == "none" and not (o["outcome"] == "returned" and o["complete"]):
        bad.append("failure-free processing did not return the complete result")
    if o["outcome"] == "returned" and o["inject"] != "consumer_close" and not o["complete"]:
        bad.append("silently truncated data")
    return bad


def validate(chk, results):
    d = V.stage_spec(["PipelineObs"], {"PipelineObs.cfg": "SPECIFICATION Spec\nINVARIANT Accepted\nCHECK_DEADLOCK FALSE\n"})
    with open(os.path.join(d, "obs.json"), "w") as f:
        json.dump([r["o"] for r in results], f)
    r = V.run_tlc(d, "PipelineObs", workers=1, timeout=900, env={"TRACE_FILE": os.path.join(d, "obs.json")}, args=["-continue"])
    chk.add_tlc(r, "P-level validation of pipeline observations (PipelineObs.tla)")
    if not (r.ok or r.violated):
        raise V.MachineryError("PipelineObs failed: " + r.out[-2000:])
    return sorted({int(m.group(1)) for m in re.finditer(r"tid = (\d+)", r.out)})


def model_job(arg):
    ns, nch, caps, saved, fails, mainkills = arg[:6]
    mode = arg[6] if len(arg) > 6 else "full"        # full: exhaustive + liveness; safety: exhaustive, invariants only; simulate: random behaviours
    mc = (f"---- MODULE MC ----\nEXTENDS Pipeline\nFailDef == {V.to_tla(set(tuple(f) for f in fails))}\nSavedDef == {V.to_tla(set(saved))}\n"
          f"CapDef == {V.to_tla(set(caps))}\n====\n")
    cfg = (f"SPECIFICATION Spec\nCONSTANTS NS = {ns} NChunks = {nch} MainKills = {V.to_tla(mainkills)} Backpressure = TRUE LazySet = {{TRUE, FALSE}}\n"
           "CONSTANT FailSet <- FailDef\nCONSTANT Saved <- SavedDef\nCONSTANT CapSet <- CapDef\n"
           "INVARIANT NoDeadlock\nINVARIANT EveryoneStops\nINVARIANT CallerOutcome\n"
           "INVARIANT EagerCap\n" + ("PROPERTY Terminates\n" if mode == "full" else "") + "CHECK_DEADLOCK FALSE\n")
    d = V.stage_spec(["Pipeline"], {"MC.tla": mc, "MC.cfg": cfg})
    args = ["-simulate", "num=30000", "-depth", "300"] if mode == "simulate" else []
    r = V.run_tlc(d, "MC", "MC.cfg", workers=4, timeout=3000, heap="3g", args=args)
    return dict(arg=arg, generated=r.generated, distinct=r.distinct, depth=r.depth, ok=r.ok, violated=r.violated or ("deadlock" if r.deadlock else None),
                wall=r.wall, out=None if (r.ok or r.violated or r.deadlock) else r.out[-1500:])


def fail_positions(ns, nch, saved):
    fails = [("none", 0, 0)]
    fails += [("stage", i, k) for i in range(1, ns + 1) for k in range(nch)]
    fails += [("saver", i, k) for i in saved for k in range(nch)] + [("close", i, 0) for i in saved]
    fails += [("consumer", 0, k) for k in range(1, nch + 1)] + [("stop", 0, k) for k in range(1, nch + 1)]
    return fails


def model_check(chk):
    """Design level: the exception relay of the threaded processor (spec/Pipeline.tla), all schedules, every failure
    position, eager and lazy, every capacity of the tier (one TLC run per (stages, chunks, saved set))."""
    quick = chk.tier == "quick"
    work = []
    if quick:
        for saved in [(), (1, 2)]:
            work.append((2, 2, (1, 2), saved, fail_positions(2, 2, saved), True, "full"))
    else:
        for nch in (2, 3):
            for saved in [(), (1,), (2,), (1, 2)]:
                work.append((2, nch, (1, 2, 3), saved, fail_positions(2, nch, saved), True, "full"))
        # three stages: exhaustive for safety (no liveness), failure positions in groups to bound each run
        for saved in [(), (2,), (1, 2, 3)]:
            fp = fail_positions(3, 2, saved)
            for k in range(0, len(fp), 4):
                work.append((3, 2, (1, 2), saved, fp[k:k + 4], True, "safety"))
        # three stages x three chunks: random behaviours
        work.append((3, 3, (1, 2, 3), (1, 2, 3), fail_positions(3, 3, (1, 2, 3)), True, "simulate"))
    # vacuity guard: without the main thread's kill-all an eager pipeline must be able to hang
    work.append((2, 4, (1,), (1, 2), [("saver", 2, 0)], False, "full"))
    res = V.pmap(model_job, work)
    for r in res:
        if r["out"]:
            raise V.MachineryError("Pipeline.tla failed to run: " + r["out"])
        chk.states += r["distinct"]
        chk.transitions += r["generated"]
        a = r["arg"]
        chk.tlc_runs.append(dict(what=f"Pipeline.tla NS={a[0]} NChunks={a[1]} caps={a[2]} saved={a[3]} failure positions={len(a[4])} MainKills={a[5]} mode={a[6]}",
                                 generated=r["generated"], distinct=r["distinct"], depth=r["depth"],
                                 ok=r["ok"], violated=r["violated"], wall_s=round(r["wall"], 1)))
        if a[5] and r["violated"]:
            chk.extra.setdefault("design_violations", []).append(dict(config=[a[0], a[1], a[2], a[3]], violated=r["violated"]))
        if not a[5] and not r["violated"]:
            raise V.MachineryError("Pipeline.tla without the main thread's kill-all still satisfies every property: no teeth")
    chk.extra["pipeline_model_configurations"] = sum(len(w[4]) * 2 * len(w[2]) for w in work)


def mailbox_kill(chk):
    """Condition-variable level: spec/Mailbox.tla with a killer thread (kill(upstream=True) at an arbitrary moment) is model-checked
    over all schedules - every thread finds its way out (NoDeadlock, Termination), deliveries stay in order - and every edge of the
    TLC graph is replayed lock-step on the real strax.Mailbox (the bisimulation of C05, extended to kills)."""
    import c05
    quick = chk.tier == "quick"
    cs = []
    for nsub in (1, 2):
        for nmsg in ((1, 2) if quick else (0, 1, 2, 3)):
            for cap in ((1,) if quick else (1, 2)):
                cs.append(dict(NMsg=nmsg, NSub=nsub, Cap=cap, Lazy=False, Drive=[True] * nsub, Mode="iter", Perm=[], Fut=[], Kill=True))
            for mask in ([[True] * nsub] if quick else [list(m) for m in __import__("itertools").product([True, False], repeat=nsub) if any(m)]):
                cs.append(dict(NMsg=nmsg, NSub=nsub, Cap=1, Lazy=True, Drive=mask, Mode="iter", Perm=[], Fut=[], Kill=True))
    if not quick:
        cs.append(dict(NMsg=2, NSub=2, Cap=2, Lazy=False, Drive=[True, True], Mode="iter", Perm=[], Fut=[0], Kill=True))
    res = V.pmap(c05.job, [(c, chk.tier, chk.seed, 1200 if quick else 5000) for c in cs])
    steps = 0
    for r in res:
        if r.get("machinery"):
            raise V.MachineryError(r["machinery"])
        chk.states += r["states"]
        chk.transitions += r["transitions"]
        chk.tlc_runs.append(dict(what="Mailbox.tla with killer thread " + r["name"], **r["tlc"]))
        chk.traces += r["paths"] + r["random_runs"]
        steps += r["steps"]
        for dr in r["drift"]:
            chk.drift.append(dr)
        for v in r["violations"]:
            chk.violation(v["sig"].replace("C05:", "C06:mailbox-kill:"), f"mailbox {r['name']} with a kill at an arbitrary moment: " + v["text"], dict(mailbox=v["replay"]))
    chk.extra["mailbox_kill_configurations"] = len(cs)
    chk.extra["mailbox_kill_lockstep_steps"] = steps


def run(chk):
    V.quiet_threads()
    mailbox_kill(chk)
    model_check(chk)
    import lagnet
    lagnet.lagnet(chk)
    S = scenarios(chk.tier)
    nsched = 6 if chk.tier == "quick" else 40
    work = [(sc, [chk.seed * 1000 + i for i in range(nsched)]) for sc in S]
    res = [x for out in V.pmap(job, work) for x in out]
    rejected = validate(chk, res)
    relay_validate(chk, res)
    chk.rule = ("scenario = topology (chain, diamond, multi-output with saved / discarded side output) x processor x lazy/eager x "
                "capacity x failure position (every stage kind: source, plugins, savers, loaders; first..last chunk) or consumer "
                "failure / abandonment or none; threaded scenarios run under the deterministic scheduler for several seeded schedules "
                "(uniform random and priority-based); non-trivial = a failure or abandonment was injected")
    for i, r in enumerate(res, 1):
        sc = r["sc"]
        chk.case(key=json.dumps([sc, r["seed"]], sort_keys=True, default=str), nontrivial=(r["o"]["inject"] != "none"))
        chk.traces += 1
        if i in rejected:
            clauses = which(r["o"])
            what = sc["fail"] or sc["consumer"] or "none"
            sig = (f"C06:{sc['topo']}:{sc['processor']}:{'lazy' if sc['lazy'] else 'eager'}:{what[0] if what != 'none' else 'none'}:"
                   + "|".join(clauses))
            chk.violation(sig, f"{sc['topo']} / {sc['processor']} / lazy={sc['lazy']} / max_messages={sc['max_messages']} / inject={what} "
                          f"/ schedule seed {r['seed']} ({r['sched']}): " + "; ".join(clauses) + f" [{r['detail']}]",
                          dict(sc=sc, seed=r["seed"], sched=r["sched"], schedule=r["schedule"]))
    chk.sample(dict(scenario=res[3]["sc"], observation=res[3]["o"], detail=res[3]["detail"]))
    chk.sample(dict(scenario=res[-1]["sc"], observation=res[-1]["o"], detail=res[-1]["detail"]))
    chk.extra["scenarios"] = len(S)
    chk.extra["schedules_per_threaded_scenario"] = nsched
    chk.extra["scheduler_steps"] = sum(r["detail"]["steps"] for r in res)
    chk.assumptions += ["timeouts never fire: a state in which only a timeout could make progress counts as a hang",
                        "in the failure scenarios the capacity (max_messages 2 / 4) exceeds the chunk lag of every harness plugin; the lag clause itself is checked on the LagNet grid",
                        "schedules of the real threaded pipeline are sampled (seeded), not enumerated exhaustively"]


def replay(chk, path):
    rp = json.load(open(path))["replay"]
    if "mailbox" in rp:
        import c05
        m = rp["mailbox"]
        bad, _ = c05.run_schedule(m["cfg"], lambda en: en[0], prefix=m.get("schedule", []))
        print(bad or "holds")
        return 1 if bad else 0
    sc = rp["sc"]
    if sc.get("fail"):
        sc["fail"] = tuple(sc["fail"])
    if sc.get("consumer"):
        sc["consumer"] = tuple(sc["consumer"])
    out = job((dict(sc), [rp["seed"]]))
    if "relay_event" in rp:
        n0 = len(chk.violations)
        relay_validate(chk, out)
        evs = out[0]["relay"]["events"] if out[0].get("relay") else []
        rej = len(chk.violations) > n0
        if rej:
            ev = chk.violations[-1][2]["relay_event"]
            for e in evs[max(0, ev - 4):ev]:
                print("   ", json.dumps(e))
        print(f"relay trace of {len(evs)} events ->", "rejected" if rej else "accepted")
        return 1 if rej else 0
    bad = which(out[0]["o"])
    print(out[0]["o"], out[0]["detail"], "->", bad or "holds")
    return 1 if bad else 0
