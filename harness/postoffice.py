"""Lock-step binding of spec/PostOffice.tla to strax.processors.post_office.PostOffice (the bus of the single-thread processor).

For each configuration (a small plugin topology wired the way SingleThreadProcessor wires it, external readers that pull in any
order, optionally a producer that raises at a given item) TLC checks the invariants / termination of PostOffice.tla exhaustively and
dumps the state graph; every node of the graph is reached on a *real* PostOffice by replaying the pulls of its path, and the
office's state (numbers of the retained mail, last produced / received message per topic and reader, exhausted topics, finished
readers, what every spy received and how often it was closed, what every external reader got) must equal the node's; every edge
out of the node is taken as well.  A difference is drift; the verdict on a drifting configuration is by the P-level clauses evaluated
on the real observations (got / spy / closed / outcome).
"""
import os
import re
import vcommon as V

import strax  # noqa: E402
from strax.processors.post_office import PostOffice, Spy  # noqa: E402


class Boom(Exception):
    pass


def cfg(producers, ext, n=3, loaded=(), spied=None, fail=None, name=""):
    """producers: {name: (prov tuple, deps tuple, mode)} in registration order (sources / loaders first)"""
    topics = [t for p in producers.values() for t in p[0]]
    topics = sorted(set(topics), key=topics.index)
    return dict(name=name, producers=producers, ext=[list(e) for e in ext], n=n, loaded=list(loaded),
                spied=list(spied if spied is not None else topics), fail=dict(fail or {}), topics=topics)


def base_configs():
    diamond = dict(src=(("a",), (), "source"), pb=(("b",), ("a",), "one"), pc=(("c",), ("a",), "two"), pj=(("j",), ("b", "c"), "join"))
    multi = dict(src=(("a",), (), "source"), pm=(("x", "y"), ("a",), "one"), pk=(("k",), ("x", "y"), "join"))
    multi_loaded = dict(src=(("a",), (), "source"), ly=(("y",), (), "source"), pm=(("x", "y"), ("a",), "one"), pk=(("k",), ("x", "y"), "join"))
    unread = dict(src=(("a",), (), "source"), pm=(("x", "y"), ("a",), "one"), pz=(("z",), ("x",), "two"))
    chain = dict(src=(("a",), (), "source"), pb=(("b",), ("a",), "two"), pc=(("c",), ("b",), "one"))
    return [
        cfg(diamond, [("F", "j"), ("G", "a"), ("H", "b")], name="diamond"),
        cfg(diamond, [("F", "j"), ("G", "j"), ("H", "c")], n=4, name="diamond-two-final"),
        cfg(multi, [("F", "k"), ("G", "x"), ("H", "y")], name="multi"),
        cfg(multi_loaded, [("F", "k"), ("G", "y")], loaded=("y",), name="multi-loaded"),
        cfg(multi_loaded, [("F", "k"), ("G", "x"), ("H", "y")], loaded=("y",), name="multi-loaded-3"),
        cfg(unread, [("F", "z"), ("G", "x")], name="multi-sibling-unread"),
        cfg(chain, [("F", "c"), ("G", "a"), ("H", "a")], n=4, name="chain-three-lags"),
    ]


def fail_configs(c):
    """the same configuration with one failing producer, at every position"""
    out = []
    for p, (prov, deps, mode) in c["producers"].items():
        if mode not in ("source", "one"):
            continue
        nmax = c["n"]
        for k in range(nmax + 1):
            d = dict(c, fail={p: k}, name=f"{c['name']}/fail-{p}@{k}")
            out.append(d)
    return out


# ----------------------------------------------------------------------------- TLC side
def tla_str_seq(xs):
    return "<<" + ", ".join(f'"{x}"' for x in xs) + ">>"


def mc_files(c, as_found=False):
    ps = list(c["producers"])
    case = lambda f: " [] ".join(f'p = "{p}" -> {f(p)}' for p in ps)   # noqa
    pulls = "\n".join(f'Pull_{e[0]} == Pull(<<"{e[0]}", "{e[1]}">>)' for e in c["ext"])
    mc = f"""---- MODULE MC ----
EXTENDS PostOffice
MCProducers == {{{", ".join(f'"{p}"' for p in ps)}}}
MCProv == [p \\in MCProducers |-> CASE {case(lambda p: tla_str_seq(c["producers"][p][0]))}]
MCDeps == [p \\in MCProducers |-> CASE {case(lambda p: tla_str_seq(c["producers"][p][1]))}]
MCMode == [p \\in MCProducers |-> CASE {case(lambda p: '"' + c["producers"][p][2] + '"')}]
MCExt == {{{", ".join(f'<<"{e[0]}", "{e[1]}">>' for e in c["ext"])}}}
MCFail == [p \\in MCProducers |-> CASE {case(lambda p: str(c["fail"].get(p, -1)))}]
MCLoaded == {{{", ".join(f'"{t}"' for t in c["loaded"])}}}
MCSpied == {{{", ".join(f'"{t}"' for t in c["spied"])}}}
{pulls}
MCNext == {" \\/ ".join(f"Pull_{e[0]}" for e in c["ext"])} \\/ KillSpies
MCSpec == Init /\\ [][MCNext]_vars /\\ WF_vars(MCNext)
====
"""
    invs = ["InOrderOnce", "Complete", "SpyInOrderOnce", "SpyComplete", "ClosedOnce", "SavedExact", "AllDoneEmpty",
            "RaisedOnlyIfFailing", "KilledClosesAll", "NoStall"]
    cfgt = ("SPECIFICATION MCSpec\nCONSTANTS\n Producers <- MCProducers\n Prov <- MCProv\n Deps <- MCDeps\n Mode <- MCMode\n"
            f" N = {c['n']}\n Loaded <- MCLoaded\n Spied <- MCSpied\n Ext <- MCExt\n FailAt <- MCFail\n AsFound = {'TRUE' if as_found else 'FALSE'}\n"
            + "".join(f"INVARIANT {i}\n" for i in invs) + "PROPERTY Terminates\nCHECK_DEADLOCK FALSE\n")
    return {"MC.tla": mc, "MC.cfg": cfgt}


# ----------------------------------------------------------------------------- real side
class LogSpy(Spy):
    def __init__(self):
        self.got = []
        self.closed = 0

    def receive(self, msg):
        self.got.append(msg)

    def close(self):
        self.closed += 1


class PoRun:
    """A real PostOffice wired like SingleThreadProcessor.__init__: loaders (sources) first, then every plugin producer with one
    reader per dependency named after the producer, `registered` = the loaders' topics, then the spies, then the external readers."""

    def __init__(self, c):
        self.c = c
        po = self.po = PostOffice()
        n, fail = c["n"], c["fail"]
        loaders = [t for p, (prov, deps, mode) in c["producers"].items() if mode == "source" for t in prov]

        def wrap(prov, v):
            return v if len(prov) == 1 else {t: v for t in prov}

        def source(p, prov):
            for k in range(n + 1):
                if fail.get(p, -1) == k:
                    raise Boom(p)
                if k < n:
                    yield wrap(prov, k + 1)

        def one(p, prov, it):
            k = 0
            for m in it:
                if fail.get(p, -1) == k:
                    raise Boom(p)
                k += 1
                yield wrap(prov, m)

        def two(p, prov, it):
            while True:
                try:
                    a = next(it)
                except StopIteration:
                    return
                try:
                    b = next(it)
                except StopIteration:
                    yield wrap(prov, a)
                    continue
                yield wrap(prov, b)

        def join(p, prov, it1, it2):
            jc = 0
            while True:
                try:
                    a = next(it1)
                except StopIteration:
                    try:
                        next(it2)
                    except StopIteration:
                        return
                    raise Boom(p + ": second input has leftovers")
                while jc < a:
                    try:
                        jc = next(it2)
                    except StopIteration:
                        raise Boom(p + ": second input ended early")
                yield wrap(prov, a)
        for p, (prov, deps, mode) in c["producers"].items():
            if mode == "source":
                po.register_producer(source(p, prov), topic=tuple(prov))
        for p, (prov, deps, mode) in c["producers"].items():
            if mode == "source":
                continue
            its = [po.get_iter(d, p) for d in deps]
            g = dict(one=one, two=two, join=join)[mode](p, prov, *its)
            po.register_producer(g, topic=tuple(prov), registered=tuple(loaders))
        self.spies = {}
        for t in c["spied"]:
            self.spies[t] = LogSpy()
            po.register_spy(self.spies[t], t)
        self.ext = {e[0]: po.get_iter(e[1], e[0]) for e in c["ext"]}
        self.got = {e[0]: [] for e in c["ext"]}
        self.ended = {e[0]: False for e in c["ext"]}
        self.outcome = ""
        self.error = None

    def enabled(self):
        if self.outcome == "raised":
            return ["KillSpies"]
        if self.outcome:
            return []
        return sorted("Pull_" + e for e in self.ext if not self.ended[e])

    def step(self, a):
        if a == "KillSpies":
            self.po.kill_spies()
            self.outcome = "killed"
            return
        e = a[len("Pull_"):]
        try:
            self.got[e].append(next(self.ext[e]))
        except StopIteration:
            self.ended[e] = True
        except Boom as ex:
            self.outcome, self.error = "raised", repr(ex)
        except Exception as ex:   # noqa  (AssertionError / RuntimeError of the office itself)
            self.outcome, self.error = "raised", repr(ex)

    def project(self):
        po, c = self.po, self.c
        topics = c["topics"]
        return dict(
            prod={t: po._last_msg_produced[t] + 1 for t in topics},
            exh={t: t in po._exhausted_topics for t in topics},
            saved={t: frozenset(k for k, _ in po._saved_mail[t]) for t in topics},
            rpos={(t, r): v + 1 for t in topics for r, v in po._last_msg_read[t].items()},
            rdone={t: frozenset(po._readers_done[t]) for t in topics},
            spy={t: tuple(self.spies[t].got) if t in self.spies else () for t in topics},
            closed={t: self.spies[t].closed if t in self.spies else 0 for t in topics},
            got={(e[0], e[1]): tuple(self.got[e[0]]) for e in c["ext"]},
            ended={(e[0], e[1]): self.ended[e[0]] for e in c["ext"]},
            outcome=self.outcome)


def norm(v):
    """parsed TLA value -> comparable python value"""
    if isinstance(v, dict):
        return {(tuple(k) if isinstance(k, (list, tuple)) else k): norm(x) for k, x in v.items()}
    if isinstance(v, (set, frozenset)):
        return frozenset(norm(x) for x in v)
    if isinstance(v, (list, tuple)):
        return tuple(norm(x) for x in v)
    return v


def compare(spec_state, run):
    pr = run.project()
    diffs = []
    for k, v in pr.items():
        sv = norm(spec_state[k])
        if k in ("spy", "got"):
            sv = {kk: tuple(x) if not isinstance(x, dict) else tuple(x[i] for i in sorted(x)) for kk, x in sv.items()}
        if k in ("saved", "rdone"):
            sv = {kk: frozenset(x) if not isinstance(x, dict) else frozenset() for kk, x in sv.items()}
        if sv != v:
            diffs.append(f"{k}: impl={v} spec={sv}")
    return diffs


def expected(c, t):
    for p, (prov, deps, mode) in c["producers"].items():
        if t in prov and not (len(prov) > 1 and t in c["loaded"]):
            if mode == "source":
                return list(range(1, c["n"] + 1))
            x = expected(c, deps[0])
            if mode == "two":
                return [x[i + 1] if i + 1 < len(x) else x[i] for i in range(0, len(x), 2)]
            return x
    raise KeyError(t)


def p_judge(c, run, final):
    """the P-level clauses of PostOffice.tla on the real observations"""
    bad = []
    nofail = not c["fail"]
    for e in c["ext"]:
        exp = expected(c, e[1])
        g = run.got[e[0]]
        if g != exp[:len(g)]:
            bad.append(f"InOrderOnce: reader {e[0]} of {e[1]} received {g}, the topic's messages are {exp}")
        if run.ended[e[0]] and not run.outcome and nofail and g != exp:
            bad.append(f"Complete: reader {e[0]} of {e[1]} stopped after {g}, the topic's messages are {exp}")
    for t, s in run.spies.items():
        exp = expected(c, t)
        if s.got != exp[:len(s.got)]:
            bad.append(f"SpyInOrderOnce: the spy of {t} received {s.got}, the topic's messages are {exp}")
        ex = t in run.po._exhausted_topics
        if not run.outcome and s.closed != (1 if ex else 0):
            bad.append(f"ClosedOnce: the spy of {t} was closed {s.closed} times, topic exhausted: {ex}")
        if ex and nofail and s.got != exp:
            bad.append(f"SpyComplete: topic {t} is exhausted, its spy received {s.got} of {exp}")
        if run.outcome == "killed" and s.closed < 1:
            bad.append(f"KilledClosesAll: the spy of {t} was not closed by kill_spies")
    if run.outcome and nofail:
        bad.append(f"RaisedOnlyIfFailing: {run.error}")
    if final and not run.outcome and not all(run.ended.values()):
        bad.append("Terminates: no step possible but a reader has not stopped")
    return bad


def job(c):
    res = dict(name=c["name"], states=0, transitions=0, nodes=0, edges=0, steps=0, drift=[], violations=[], machinery=None, tlc=None,
               sample=None, depth=0)
    d = V.stage_spec(["PostOffice"], mc_files(c))
    dot = os.path.join(d, "g.dot")
    r = V.run_tlc(d, "MC", "MC.cfg", workers=1, args=["-dump", "dot,actionlabels", dot], timeout=900, heap="2g")
    res["tlc"] = dict(what=f"PostOffice.tla {c['name']}", generated=r.generated, distinct=r.distinct, depth=r.depth, ok=r.ok,
                      violated=r.violated, wall_s=round(r.wall, 1))
    res["states"], res["transitions"], res["depth"] = r.distinct, r.generated, r.depth
    if r.violated:
        # the design itself breaks a clause on this configuration: the counterexample is replayed on the real office and judged there
        path = ["Pull_" + m.group(2) if m.group(2) else m.group(1)
                for m in re.finditer(r'State \d+: <(\w+)(?:\(<<"(\w+)")?', r.out) if m.group(1) != "Initial"]
        bad, pr = replay_one(c, path)
        if bad:
            res["violations"].append(dict(sig=f"C01:postoffice:{c['name']}:{bad[0].split(':')[0]}",
                                          text=f"pulls {path} (counterexample of TLC to {r.violated}): " + "; ".join(bad), replay=dict(cfg=c, path=path)))
        else:
            res["machinery"] = f"PostOffice.tla violates {r.violated} on {c['name']} but the real office does not follow the counterexample {path}: {pr}"
        return res
    if not r.ok:
        res["machinery"] = "TLC failed: " + r.out[-1500:]
        return res
    nodes, edges, inits = V.load_dot_graph(dot)
    os.remove(dot)

    def act(label):      # 'Pull(<<"F", "j">>)' -> 'Pull_F'
        m = re.match(r'Pull\(<<"(\w+)"', label)
        return "Pull_" + m.group(1) if m else label
    edges = {k: [(act(a), m) for a, m in v] for k, v in edges.items()}
    edges = __import__("collections").defaultdict(list, edges)
    parent, order = V.bfs_tree(edges, inits)
    for nd in order:
        path = V.path_to(parent, nd)
        run = PoRun(c)
        for a in path:
            run.step(a)
            res["steps"] += 1
        diffs = compare(nodes[nd], run)
        en_s = sorted(set(a for a, _ in edges[nd]))
        if not diffs and run.enabled() != en_s:
            diffs = [f"enabled: impl={run.enabled()} spec={en_s}"]
        res["nodes"] += 1
        bad = p_judge(c, run, final=not run.enabled())
        if bad:
            res["violations"].append(dict(sig=f"C01:postoffice:{c['name']}:{bad[0].split(':')[0]}", text=f"pulls {path}: " + "; ".join(bad),
                                          replay=dict(cfg=c, path=path)))
            break
        if diffs:
            res["drift"].append(dict(cfg=c["name"], path=path, diffs=diffs[:4]))
            if len(res["drift"]) >= 3:
                break
            continue
        # every edge out of this node, on the real office
        for a, m in edges[nd]:
            if parent.get(m) == (nd, a):
                continue      # tree edge: covered when m is visited
            run2 = PoRun(c)
            for b in path + [a]:
                run2.step(b)
                res["steps"] += 1
            d2 = compare(nodes[m], run2)
            res["edges"] += 1
            if d2:
                res["drift"].append(dict(cfg=c["name"], path=path + [a], diffs=d2[:4]))
        if res["sample"] is None and len(path) >= 5:
            res["sample"] = dict(cfg=c["name"], pulls=path, spec_state={k: str(v) for k, v in nodes[nd].items()})
    if res["drift"] and not res["violations"]:
        v = real_search(c)
        if v:
            res["violations"].append(v)
    return res


def real_search(c, limit=4000):
    """every pull order on the real office (states identified by their projection), judged by the P-level clauses"""
    seen = set()
    stack = [[]]
    n = 0
    while stack and n < limit:
        path = stack.pop()
        run = PoRun(c)
        for a in path:
            run.step(a)
        key = repr(sorted((k, repr(v)) for k, v in run.project().items()))
        if key in seen:
            continue
        seen.add(key)
        n += 1
        en = run.enabled()
        bad = p_judge(c, run, final=not en)
        if bad:
            return dict(sig=f"C01:postoffice:{c['name']}:{bad[0].split(':')[0]}", text=f"pulls {path}: " + "; ".join(bad), replay=dict(cfg=c, path=path))
        for a in en:
            stack.append(path + [a])
    return None


def guard_as_found(c):
    """vacuity guard: the office as found (a finishing multi-output producer also exhausts the topics its loader-fed siblings) must
    violate the P-level in the model"""
    d = V.stage_spec(["PostOffice"], mc_files(c, as_found=True))
    r = V.run_tlc(d, "MC", "MC.cfg", workers=1, timeout=600, heap="2g")
    return dict(what=f"PostOffice.tla {c['name']} as found (must violate RaisedOnlyIfFailing or Complete)", generated=r.generated,
                distinct=r.distinct, depth=r.depth, ok=r.ok, violated=r.violated, wall_s=round(r.wall, 1))


def replay_one(c, path):
    run = PoRun(c)
    for a in path:
        run.step(a)
    return p_judge(c, run, final=not run.enabled()), run.project()


def log_self_test(chk):
    """the log judge has teeth: a real log is accepted; with one event dropped (of each kind), a spy closed twice or two receipts swapped
    it is rejected (demonstrates the binding; a failure here is a machinery error, not a verdict)"""
    import copy
    c = [x for x in base_configs() if x["name"] == "multi"][0]
    with Tracer() as tr:
        run = PoRun(c)
        while run.enabled():
            run.step(run.enabled()[0])
    good = tr.observations(True)[0]
    muts = []
    for kind in "paxsc":
        m = copy.deepcopy(good)
        idx = [j for j, e in enumerate(m["ev"]) if e["k"] == kind]
        del m["ev"][idx[min(1, len(idx) - 1)]]
        muts.append(dict(obs=m, key="drop-" + kind))
    m = copy.deepcopy(good)
    m["ev"].append(dict(m["ev"][[j for j, e in enumerate(m["ev"]) if e["k"] == "c"][0]]))
    muts.append(dict(obs=m, key="double-close"))
    m = copy.deepcopy(good)
    a = [j for j, e in enumerate(m["ev"]) if e["k"] == "a" and e["r"] == "G"]
    m["ev"][a[0]]["n"], m["ev"][a[1]]["n"] = 1, 0
    muts.append(dict(obs=m, key="swap"))

    class Probe:
        def __init__(self):
            self.traces, self.extra, self.rejected, self.runs = 0, {}, [], []

        def add_tlc(self, r, what):
            self.runs.append((r, what))

        def violation(self, sig, text, rp):
            self.rejected.append(sig.split(":")[-1])
    pr = Probe()
    validate_observations(pr, [dict(obs=good, key="good")] + muts, "self-test of the log judge")
    for r, what in pr.runs:
        chk.add_tlc(r, what)
    if sorted(pr.rejected) != sorted(x["key"] for x in muts):
        raise V.MachineryError(f"PostOfficeObs self-test: rejected {pr.rejected}, expected exactly the corrupted logs")
    chk.extra["postoffice_log_self_test"] = "1 real log accepted, 7 corrupted copies rejected"


def run_part(chk, pid="C01"):
    log_self_test(chk)
    quick = chk.tier == "quick"
    base = base_configs()
    confs = list(base)
    for c in base:
        fc = fail_configs(c)
        confs += fc[::3] if quick else fc
    res = V.pmap(job, confs, warm=False)
    drift = []
    for c, r in zip(confs, res):
        if r["machinery"]:
            raise V.MachineryError(f"PostOffice {c['name']}: {r['machinery']}")
        chk.states += r["states"]
        chk.transitions += r["transitions"]
        chk.tlc_runs.append(r["tlc"])
        chk.traces += r["nodes"]
        chk.case(key=f"postoffice:{c['name']}", nontrivial=r["depth"] >= 4)
        for v in r["violations"]:
            chk.violation(v["sig"].replace("C01:", pid + ":"), f"post office configuration {c['name']}: {v['text']}", dict(postoffice=v["replay"]))
        drift += r["drift"]
        if r["sample"] and "postoffice_sample" not in chk.extra:
            chk.extra["postoffice_sample"] = r["sample"]
    g2 = guard_as_found([c for c in base if c["name"] == "multi-loaded-3"][0])
    chk.tlc_runs.append(g2)
    if g2["violated"] not in ("RaisedOnlyIfFailing", "Complete", "ClosedOnce", "SpyComplete"):
        raise V.MachineryError("PostOffice guard: the as-found exhaustion rule should violate the P-level, TLC says " + str(g2))
    chk.extra["postoffice"] = dict(configurations=len(confs), with_failing_producer=len(confs) - len(base),
                                   nodes_replayed=sum(r["nodes"] for r in res), extra_edges_replayed=sum(r["edges"] for r in res),
                                   real_pulls=sum(r["steps"] for r in res), drift=drift[:5],
                                   guard="the exhaustion rule as found (a finishing multi-output producer exhausts its loader-fed siblings too) violates " + str(g2["violated"]) + " in the model")
    return drift


# ----------------------------------------------------------------------------- traces of real single-thread runs (PostOfficeObs.tla)
class Tracer:
    """Records what every PostOffice created inside the `with` block does (harness-side wrappers, nothing in /repo): one event per
    message produced / received by a reader / received by a spy, per exhaustion and per spy close - in program order."""

    def __init__(self):
        self.logs = []

    def __enter__(self):
        tr = self
        P = PostOffice
        self._orig = {k: getattr(P, k) for k in ("__init__", "_ack_msg_produced", "_ack_reader_recieved", "_ack_topic_exhausted", "register_spy",
                                                 "get_iter", "kill_spies")}
        orig = self._orig

        def init(po, *a, **k):
            po._vlog = dict(ev=[], readers=[], spies=[], killed=False)
            tr.logs.append(po._vlog)
            orig["__init__"](po, *a, **k)

        def prod(po, msg, topic):
            orig_len = po._last_msg_produced[topic]
            po._vlog["ev"].append(dict(k="p", t=topic, r="", n=orig_len + 1))
            orig["_ack_msg_produced"](po, msg, topic)

        def ack(po, reader, topic, msg_number):
            orig["_ack_reader_recieved"](po, reader, topic, msg_number)
            po._vlog["ev"].append(dict(k="a", t=topic, r=reader, n=msg_number))

        def exh(po, topic):
            po._vlog["ev"].append(dict(k="x", t=topic, r="", n=0))
            orig["_ack_topic_exhausted"](po, topic)

        def reg_spy(po, spy, topic):
            i = sum(1 for s in po._vlog["spies"] if s[0] == topic)
            name = f"spy{i}"
            po._vlog["spies"].append([topic, name])
            cnt = dict(n=0)
            o_recv, o_close = spy.receive, spy.close

            def recv(msg):
                po._vlog["ev"].append(dict(k="s", t=topic, r=name, n=cnt["n"]))
                cnt["n"] += 1
                return o_recv(msg)

            def close():
                po._vlog["ev"].append(dict(k="c", t=topic, r=name, n=0))
                return o_close()
            spy.receive, spy.close = recv, close
            orig["register_spy"](po, spy, topic)

        def get_iter(po, topic, reader):
            po._vlog["readers"].append([topic, reader])
            return orig["get_iter"](po, topic, reader)

        def kill(po, reason=None):
            po._vlog["killed"] = True
            return orig["kill_spies"](po, reason)
        P.__init__, P._ack_msg_produced, P._ack_reader_recieved, P._ack_topic_exhausted = init, prod, ack, exh
        P.register_spy, P.get_iter, P.kill_spies = reg_spy, get_iter, kill
        return self

    def __exit__(self, *a):
        for k, v in self._orig.items():
            setattr(PostOffice, k, v)

    def observations(self, completed):
        return [dict(ev=lg["ev"], readers=lg["readers"], spies=lg["spies"], completed=bool(completed) and not lg["killed"]) for lg in self.logs
                if lg["readers"]]


def validate_observations(chk, obs, what, pid="C01"):
    """TLC judges every recorded office log against the P-level of PostOffice.tla, restated over logs (spec/PostOfficeObs.tla)."""
    import json
    if not obs:
        return
    d = V.stage_spec(["PostOfficeObs"], {"PostOfficeObs.cfg": "SPECIFICATION Spec\nINVARIANT Accepted\nCHECK_DEADLOCK FALSE\n"})
    with open(os.path.join(d, "obs.json"), "w") as f:
        json.dump([o["obs"] for o in obs], f)
    r = V.run_tlc(d, "PostOfficeObs", workers=4, timeout=1800, env={"TRACE_FILE": os.path.join(d, "obs.json")}, args=["-continue"])
    chk.add_tlc(r, f"P-level of PostOffice.tla on {len(obs)} office logs recorded from real single-thread runs ({what})")
    if not (r.ok or r.violated):
        raise V.MachineryError("PostOfficeObs failed: " + r.out[-2000:])
    for k in sorted({int(m.group(1)) for m in re.finditer(r"\btid = (\d+)", r.out)}):
        o = obs[k - 1]
        chk.violation(f"{pid}:postoffice-log:{o['key']}", f"single-thread run {o['key']}: the recorded PostOffice log violates the P-level of PostOffice.tla "
                      f"(every reader / spy gets every message of its topic once, in order; exhausted and closed once): {json.dumps(o['obs'])[:1500]}",
                      o.get("replay", {}))
    chk.traces += len(obs)
    chk.extra.setdefault("postoffice_logs_validated", 0)
    chk.extra["postoffice_logs_validated"] += len(obs)
