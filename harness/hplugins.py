"""Harness plugin library: small strax plugins whose computations are integer functions that the
TLA+ specifications define as well.  Rows are (time, endtime, v)."""
import numpy as np
import strax
from immutabledict import immutabledict

ROW = [(("start time", "time"), np.int64), (("exclusive end time", "endtime"), np.int64),
       (("payload", "v"), np.int64)]
ROWDT = np.dtype(ROW)


def rows_to_array(rows, dtype=ROWDT, vname="v"):
    a = np.zeros(len(rows), dtype=dtype)
    for i, r in enumerate(rows):
        a[i]["time"] = r[0]
        a[i]["endtime"] = r[1]
        if len(r) > 2 and vname in a.dtype.names:
            a[i][vname] = r[2]
    return a


def array_to_rows(a, vname="v"):
    if vname in a.dtype.names:
        return [[int(x["time"]), int(strax.endtime(x)), int(x[vname])] for x in a]
    return [[int(x["time"]), int(strax.endtime(x))] for x in a]


class HarnessFailure(Exception):
    """Raised by harness plugins that are told to fail at a given chunk."""


class Recorder:
    """Shared record of compute calls: (plugin name, chunk_i / start, end, n rows)."""

    def __init__(self):
        self.calls = []

    def add(self, *a):
        self.calls.append(a)

    def count(self, name):
        return sum(1 for c in self.calls if c[0] == name)


def source(name, chunks, kind=None, fail_at=None, save_when=strax.SaveWhen.ALWAYS, rechunk_on_save=False,
           rec=None, version="0.0.0", step_hook=None):
    """A plugin without dependencies producing the given chunks [{s, e, rows}]."""
    chunks = [dict(c) for c in chunks]

    class Src(strax.Plugin):
        depends_on = ()
        dtype = ROW
        parallel = False

        def source_finished(self):
            return True

        def is_ready(self, chunk_i):
            return chunk_i < len(chunks)

        def compute(self, chunk_i):
            if step_hook is not None:
                step_hook(name, chunk_i)
            if rec is not None:
                rec.add(name, chunk_i)
            if fail_at is not None and chunk_i == fail_at:
                raise HarnessFailure(f"{name} fails at chunk {chunk_i}")
            c = chunks[chunk_i]
            return self.chunk(start=c["s"], end=c["e"], data=rows_to_array(c["rows"]))

    Src.__name__ = "Src_" + name
    Src.provides = (name,)
    Src.data_kind = kind or name
    Src.save_when = save_when
    Src.rechunk_on_save = rechunk_on_save
    Src.__version__ = version
    return Src


def rowmap(name, dep, kind=None, fail_at=None, mul=3, add=1, save_when=strax.SaveWhen.ALWAYS, rechunk_on_save=True,
           rec=None, version="0.0.0", step_hook=None):
    """Row-wise map to a new data type: v' = mul*v + add, same intervals."""
    state = dict(i=0)

    class Map(strax.Plugin):
        dtype = ROW
        parallel = False

        def compute(self, **kw):
            (x,) = [v for k, v in kw.items() if k not in ("start", "end", "chunk_i")]
            i = state["i"]
            state["i"] += 1
            if step_hook is not None:
                step_hook(name, i)
            if rec is not None:
                rec.add(name, i, len(x))
            if fail_at is not None and i == fail_at:
                raise HarnessFailure(f"{name} fails at chunk {i}")
            r = np.zeros(len(x), dtype=ROWDT)
            r["time"] = x["time"]
            r["endtime"] = strax.endtime(x)
            r["v"] = mul * x["v"] + add
            return r

    Map.__name__ = "Map_" + name
    Map.provides = (name,)
    Map.depends_on = (dep,)
    Map.data_kind = kind or name
    Map.save_when = save_when
    Map.rechunk_on_save = rechunk_on_save
    Map.__version__ = version
    return Map


def expected_map(rows, mul=3, add=1):
    return [[r[0], r[1], mul * r[2] + add] for r in rows]


def row_dtype(vname="v"):
    return [(("start time", "time"), np.int64), (("exclusive end time", "endtime"), np.int64),
            ((f"payload {vname}", vname), np.int64)]


def samekind_map(name, dep, kind, vname, mul=1, add=0, fail_at=None, save_when=strax.SaveWhen.ALWAYS, rec=None,
                 step_hook=None, rechunk_on_save=True):
    """Row-wise map producing a data type of a shared data kind with its own payload field (for same-kind merging)."""
    state = dict(i=0)

    class SK(strax.Plugin):
        parallel = False

        def compute(self, **kw):
            (x,) = [v for k, v in kw.items() if k not in ("start", "end", "chunk_i")]
            i = state["i"]
            state["i"] += 1
            if step_hook is not None:
                step_hook(name, i)
            if rec is not None:
                rec.add(name, i, len(x))
            if fail_at is not None and i == fail_at:
                raise HarnessFailure(f"{name} fails at chunk {i}")
            r = np.zeros(len(x), dtype=np.dtype(row_dtype(vname)))
            r["time"] = x["time"]
            r["endtime"] = strax.endtime(x)
            r[vname] = mul * x["v"] + add
            return r

    SK.__name__ = "SK_" + name
    SK.provides = (name,)
    SK.depends_on = (dep,)
    SK.data_kind = kind
    SK.dtype = row_dtype(vname)
    SK.save_when = save_when
    SK.rechunk_on_save = rechunk_on_save
    return SK


def lagged(cls, lag):
    """The same plugin, holding back `lag` result chunks: result k is delivered only after result k + lag has been computed (what a
    plugin that looks ahead does to the chunk flow); everything held is delivered when the input ends."""
    class Lagged(cls):
        def iter(self, iters, executor=None):
            held = []
            for out in super().iter(iters, executor=executor):
                held.append(out)
                if len(held) > lag:
                    yield held.pop(0)
            yield from held
    Lagged.__name__ = cls.__name__ + f"_lag{lag}"
    return Lagged


def combine(name, deps, vnames, fail_at=None, save_when=strax.SaveWhen.ALWAYS, rec=None, step_hook=None,
            rechunk_on_save=True):
    """Depends on several same-kind data types (merged by strax): v = sum of their payload fields."""
    state = dict(i=0)

    class Comb(strax.Plugin):
        dtype = ROW
        parallel = False

        def compute(self, **kw):
            (x,) = [v for k, v in kw.items() if k not in ("start", "end", "chunk_i")]
            i = state["i"]
            state["i"] += 1
            if step_hook is not None:
                step_hook(name, i)
            if rec is not None:
                rec.add(name, i, len(x))
            if fail_at is not None and i == fail_at:
                raise HarnessFailure(f"{name} fails at chunk {i}")
            r = np.zeros(len(x), dtype=ROWDT)
            r["time"] = x["time"]
            r["endtime"] = strax.endtime(x)
            r["v"] = sum(x[vn] for vn in vnames)
            return r

    Comb.__name__ = "Comb_" + name
    Comb.provides = (name,)
    Comb.depends_on = tuple(deps)
    Comb.data_kind = name
    Comb.save_when = save_when
    Comb.rechunk_on_save = rechunk_on_save
    return Comb


def pair(name, depa, depb, save_when=strax.SaveWhen.ALWAYS, rec=None, step_hook=None, rechunk_on_save=False):
    """Depends on two data types of different kinds: one output row per row of depa, v = its v + number of depb rows in the chunk."""
    state = dict(i=0)

    class Pair(strax.Plugin):
        dtype = ROW
        parallel = False

        def compute(self, **kw):
            xa, xb = kw[depa], kw[depb]
            i = state["i"]
            state["i"] += 1
            if step_hook is not None:
                step_hook(name, i)
            if rec is not None:
                rec.add(name, i, len(xa))
            r = np.zeros(len(xa), dtype=ROWDT)
            r["time"], r["endtime"], r["v"] = xa["time"], strax.endtime(xa), xa["v"] + len(xb)
            return r

    Pair.__name__ = "Pair_" + name
    Pair.provides = (name,)
    Pair.depends_on = (depa, depb)
    Pair.data_kind = name
    Pair.save_when = save_when
    Pair.rechunk_on_save = rechunk_on_save
    return Pair


def multi(names, dep, fail_at=None, save_when=None, rec=None, step_hook=None, rechunk_on_save=False):
    """Multi-output plugin: names[0] = row-wise map (v' = 2v), names[1] = rows with odd v only (v' = v + 10)."""
    state = dict(i=0)
    a, b = names

    class Multi(strax.Plugin):
        parallel = False

        def compute(self, **kw):
            (x,) = [v for k, v in kw.items() if k not in ("start", "end", "chunk_i")]
            i = state["i"]
            state["i"] += 1
            if step_hook is not None:
                step_hook(a, i)
            if rec is not None:
                rec.add(a, i, len(x))
            if fail_at is not None and i == fail_at:
                raise HarnessFailure(f"{a}/{b} fails at chunk {i}")
            ra = np.zeros(len(x), dtype=ROWDT)
            ra["time"], ra["endtime"], ra["v"] = x["time"], strax.endtime(x), 2 * x["v"]
            y = x[x["v"] % 2 == 1]
            rb = np.zeros(len(y), dtype=ROWDT)
            rb["time"], rb["endtime"], rb["v"] = y["time"], strax.endtime(y), y["v"] + 10
            return {a: ra, b: rb}

    Multi.__name__ = "Multi_" + a
    Multi.provides = (a, b)
    Multi.depends_on = (dep,)
    Multi.data_kind = immutabledict({a: a, b: b})
    Multi.dtype = {a: ROW, b: ROW}
    Multi.save_when = immutabledict(save_when or {a: strax.SaveWhen.ALWAYS, b: strax.SaveWhen.ALWAYS})
    Multi.rechunk_on_save = rechunk_on_save
    return Multi


def filt(name, dep, rec=None, step_hook=None, save_when=strax.SaveWhen.ALWAYS, rechunk_on_save=True):
    """Filtering plugin to a new data kind: rows with odd v, v' = v + 10."""
    class Filt(strax.Plugin):
        dtype = ROW
        parallel = False

        def compute(self, **kw):
            (x,) = [v for k, v in kw.items() if k not in ("start", "end", "chunk_i")]
            if rec is not None:
                rec.add(name, len(x))
            y = x[x["v"] % 2 == 1]
            r = np.zeros(len(y), dtype=ROWDT)
            r["time"], r["endtime"], r["v"] = y["time"], strax.endtime(y), y["v"] + 10
            return r
    Filt.__name__ = "Filt_" + name
    Filt.provides = (name,)
    Filt.depends_on = (dep,)
    Filt.data_kind = name
    Filt.save_when = save_when
    Filt.rechunk_on_save = rechunk_on_save
    return Filt


def loop(name, base_dep, things_dep, base_kind, things_kind, rec=None, save_when=strax.SaveWhen.ALWAYS, rechunk_on_save=True):
    """LoopPlugin over base intervals: v = number of things fully contained in the base interval."""
    class Loop(strax.LoopPlugin):
        dtype = ROW
        parallel = False
        loop_over = base_kind

        def compute_loop(self, base, **kw):
            (things,) = kw.values()
            return dict(time=base["time"], endtime=base["endtime"], v=len(things))
    Loop.__name__ = "Loop_" + name
    Loop.provides = (name,)
    Loop.depends_on = (base_dep, things_dep)
    Loop.data_kind = name
    Loop.save_when = save_when
    Loop.rechunk_on_save = rechunk_on_save
    return Loop


def overlap(name, dep, wl, wr, rec=None, save_when=strax.SaveWhen.ALWAYS, rechunk_on_save=True):
    """OverlapWindowPlugin: v = number of rows lying wholly within [t - wl, e + wr]."""
    class OW(strax.OverlapWindowPlugin):
        dtype = ROW

        def get_window_size(self):
            return (wl, wr)

        def compute(self, **kw):
            (x,) = [v for k, v in kw.items() if k not in ("start", "end", "chunk_i")]
            t, e = x["time"], strax.endtime(x)
            r = np.zeros(len(x), dtype=ROWDT)
            r["time"], r["endtime"] = t, e
            r["v"] = [np.sum((t >= t[i] - wl) & (e <= e[i] + wr)) for i in range(len(x))]
            return r
    OW.__name__ = "OW_" + name
    OW.provides = (name,)
    OW.depends_on = (dep,)
    OW.data_kind = name
    OW.save_when = save_when
    OW.rechunk_on_save = rechunk_on_save
    return OW


def down(name, dep, vname="v", rec=None, save_when=strax.SaveWhen.ALWAYS, rechunk_on_save=False):
    """DownChunkingPlugin: identity on the rows, every input chunk is cut in two at an admissible time near the middle."""
    class Down(strax.DownChunkingPlugin):
        dtype = ROW

        def compute(self, start, end, **kw):
            (x,) = kw.values()
            r = np.zeros(len(x), dtype=ROWDT)
            r["time"], r["endtime"], r["v"] = x["time"], strax.endtime(x), x[vname]
            mid = (start + end) // 2
            ok = [u for u in range(start, end + 1) if not np.any((r["time"] < u) & (r["endtime"] > u))]
            cut = min(ok, key=lambda u: abs(u - mid))
            yield self.chunk(start=start, end=cut, data=r[r["endtime"] <= cut])
            yield self.chunk(start=cut, end=end, data=r[r["time"] >= cut])
    Down.__name__ = "Down_" + name
    Down.provides = (name,)
    Down.depends_on = (dep,)
    Down.data_kind = name
    Down.save_when = save_when
    Down.rechunk_on_save = rechunk_on_save
    return Down


def exhaust(name, dep, vname="v", rec=None, save_when=strax.SaveWhen.ALWAYS, rechunk_on_save=False):
    """ExhaustPlugin: a global function of the whole run: every row gets v = total number of rows."""
    class Exh(strax.ExhaustPlugin):
        dtype = ROW

        def compute(self, **kw):
            (x,) = [v for k, v in kw.items() if k not in ("start", "end", "chunk_i")]
            if rec is not None:
                rec.add(name, 0, len(x))
            r = np.zeros(len(x), dtype=ROWDT)
            r["time"], r["endtime"], r["v"] = x["time"], strax.endtime(x), len(x)
            return r
    Exh.__name__ = "Exh_" + name
    Exh.provides = (name,)
    Exh.depends_on = (dep,)
    Exh.data_kind = name
    Exh.save_when = save_when
    Exh.rechunk_on_save = rechunk_on_save
    return Exh
