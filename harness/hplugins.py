"""Harness plugin library: small strax plugins whose computations are integer functions that the
TLA+ specifications define as well.  Rows are (time, endtime, v)."""
import numpy as np
import strax
from immutabledict import immutabledict

ROW = [(("start time", "time"), np.int64), (("exclusive end time", "endtime"), np.int64),
       (("payload", "v"), np.int64)]
ROWDT = np.dtype(ROW)


def rows_to_array(rows, dtype=ROWDT, vname="v"):
    a = np.zeros(len(rows), dtype=dtype)
    for i, r in enumerate(rows):
        a[i]["time"] = r[0]
        a[i]["endtime"] = r[1]
        if len(r) > 2 and vname in a.dtype.names:
            a[i][vname] = r[2]
    return a


def array_to_rows(a, vname="v"):
    if vname in a.dtype.names:
        return [[int(x["time"]), int(strax.endtime(x)), int(x[vname])] for x in a]
    return [[int(x["time"]), int(strax.endtime(x))] for x in a]


class HarnessFailure(Exception):
    """Raised by harness plugins that are told to fail at a given chunk."""


class Recorder:
    """Shared record of compute calls: (plugin name, chunk_i / start, end, n rows)."""

    def __init__(self):
        self.calls = []

    def add(self, *a):
        self.calls.append(a)

    def count(self, name):
        return sum(1 for c in self.calls if c[0] == name)


def source(name, chunks, kind=None, fail_at=None, save_when=strax.SaveWhen.ALWAYS, rechunk_on_save=False,
           rec=None, version="0.0.0", step_hook=None):
    """A plugin without dependencies producing the given chunks [{s, e, rows}]."""
    chunks = [dict(c) for c in chunks]

    class Src(strax.Plugin):
        depends_on = ()
        dtype = ROW
        parallel = False

        def source_finished(self):
            return True

        def is_ready(self, chunk_i):
            return chunk_i < len(chunks)

        def compute(self, chunk_i):
            if step_hook is not None:
                step_hook(name, chunk_i)
            if rec is not None:
                rec.add(name, chunk_i)
            if fail_at is not None and chunk_i == fail_at:
                raise HarnessFailure(f"{name} fails at chunk {chunk_i}")
            c = chunks[chunk_i]
            return self.chunk(start=c["s"], end=c["e"], data=rows_to_array(c["rows"]))

    Src.__name__ = "Src_" + name
    Src.provides = (name,)
    Src.data_kind = kind or name
    Src.save_when = save_when
    Src.rechunk_on_save = rechunk_on_save
    Src.__version__ = version
    return Src


def rowmap(name, dep, kind=None, fail_at=None, mul=3, add=1, save_when=strax.SaveWhen.ALWAYS, rechunk_on_save=True,
           rec=None, version="0.0.0", step_hook=None):
    """Row-wise map to a new data type: v' = mul*v + add, same intervals."""
    state = dict(i=0)

    class Map(strax.Plugin):
        dtype = ROW
        parallel = False

        def compute(self, **kw):
            (x,) = [v for k, v in kw.items() if k not in ("start", "end", "chunk_i")]
            i = state["i"]
            state["i"] += 1
            if step_hook is not None:
                step_hook(name, i)
            if rec is not None:
                rec.add(name, i, len(x))
            if fail_at is not None and i == fail_at:
                raise HarnessFailure(f"{name} fails at chunk {i}")
            r = np.zeros(len(x), dtype=ROWDT)
            r["time"] = x["time"]
            r["endtime"] = strax.endtime(x)
            r["v"] = mul * x["v"] + add
            return r

    Map.__name__ = "Map_" + name
    Map.provides = (name,)
    Map.depends_on = (dep,)
    Map.data_kind = kind or name
    Map.save_when = save_when
    Map.rechunk_on_save = rechunk_on_save
    Map.__version__ = version
    return Map


def expected_map(rows, mul=3, add=1):
    return [[r[0], r[1], mul * r[2] + add] for r in rows]


def row_dtype(vname="v"):
    return [(("start time", "time"), np.int64), (("exclusive end time", "endtime"), np.int64),
            ((f"payload {vname}", vname), np.int64)]


def samekind_map(name, dep, kind, vname, mul=1, add=0, fail_at=None, save_when=strax.SaveWhen.ALWAYS, rec=None,
                 step_hook=None, rechunk_on_save=True):
    """Row-wise map producing a data type of a shared data kind with its own payload field (for same-kind merging)."""
    state = dict(i=0)

    class SK(strax.Plugin):
        parallel = False

        def compute(self, **kw):
            (x,) = [v for k, v in kw.items() if k not in ("start", "end", "chunk_i")]
            i = state["i"]
            state["i"] += 1
            if step_hook is not None:
                step_hook(name, i)
            if rec is not None:
                rec.add(name, i, len(x))
            if fail_at is not None and i == fail_at:
                raise HarnessFailure(f"{name} fails at chunk {i}")
            r = np.zeros(len(x), dtype=np.dtype(row_dtype(vname)))
            r["time"] = x["time"]
            r["endtime"] = strax.endtime(x)
            r[vname] = mul * x["v"] + add
            return r

    SK.__name__ = "SK_" + name
    SK.provides = (name,)
    SK.depends_on = (dep,)
    SK.data_kind = kind
    SK.dtype = row_dtype(vname)
    SK.save_when = save_when
    SK.rechunk_on_save = rechunk_on_save
    return SK


def combine(name, deps, vnames, fail_at=None, save_when=strax.SaveWhen.ALWAYS, rec=None, step_hook=None,
            rechunk_on_save=True):
    """Depends on several same-kind data types (merged by strax): v = sum of their payload fields."""
    state = dict(i=0)

    class Comb(strax.Plugin):
        dtype = ROW
        parallel = False

        def compute(self, **kw):
            (x,) = [v for k, v in kw.items() if k not in ("start", "end", "chunk_i")]
            i = state["i"]
            state["i"] += 1
            if step_hook is not None:
                step_hook(name, i)
            if rec is not None:
                rec.add(name, i, len(x))
            if fail_at is not None and i == fail_at:
                raise HarnessFailure(f"{name} fails at chunk {i}")
            r = np.zeros(len(x), dtype=ROWDT)
            r["time"] = x["time"]
            r["endtime"] = strax.endtime(x)
            r["v"] = sum(x[vn] for vn in vnames)
            return r

    Comb.__name__ = "Comb_" + name
    Comb.provides = (name,)
    Comb.depends_on = tuple(deps)
    Comb.data_kind = name
    Comb.save_when = save_when
    Comb.rechunk_on_save = rechunk_on_save
    return Comb


def multi(names, dep, fail_at=None, save_when=None, rec=None, step_hook=None, rechunk_on_save=False):
    """Multi-output plugin: names[0] = row-wise map (v' = 2v), names[1] = rows with odd v only (v' = v + 10)."""
    state = dict(i=0)
    a, b = names

    class Multi(strax.Plugin):
        parallel = False

        def compute(self, **kw):
            (x,) = [v for k, v in kw.items() if k not in ("start", "end", "chunk_i")]
            i = state["i"]
            state["i"] += 1
            if step_hook is not None:
                step_hook(a, i)
            if rec is not None:
                rec.add(a, i, len(x))
            if fail_at is not None and i == fail_at:
                raise HarnessFailure(f"{a}/{b} fails at chunk {i}")
            ra = np.zeros(len(x), dtype=ROWDT)
            ra["time"], ra["endtime"], ra["v"] = x["time"], strax.endtime(x), 2 * x["v"]
            y = x[x["v"] % 2 == 1]
            rb = np.zeros(len(y), dtype=ROWDT)
            rb["time"], rb["endtime"], rb["v"] = y["time"], strax.endtime(y), y["v"] + 10
            return {a: ra, b: rb}

    Multi.__name__ = "Multi_" + a
    Multi.provides = (a, b)
    Multi.depends_on = (dep,)
    Multi.data_kind = immutabledict({a: a, b: b})
    Multi.dtype = {a: ROW, b: ROW}
    Multi.save_when = immutabledict(save_when or {a: strax.SaveWhen.ALWAYS, b: strax.SaveWhen.ALWAYS})
    Multi.rechunk_on_save = rechunk_on_save
    return Multi
