"""C16: copying, rechunking, recompressing and per-chunk merging preserve the data.

Operations on stored data - Context.copy_to_frontend, the stand-alone strax.rechunker (compressor x
target size x serial / thread / process x replace / new location), rechunking on load, and building
a data type chunk by chunk followed by merge_per_chunk_storage - are executed on real storage for
the matrix of the property; for each operation the source before / after and the destination are
read back with the real loader and the observation is judged by TLC against spec/StorageRT.tla
(rows identical and in order, contiguous valid chunks, same overall range, boundaries at written
boundaries or row-free gaps, metadata consistent with the new files, source intact unless
replacement was requested).
"""
import glob
import itertools
import json
import os
import re
import shutil
import tempfile
import logging
import warnings
import numpy as np
import vcommon as V

logging.disable(logging.CRITICAL)
import strax  # noqa: E402
import hplugins as H  # noqa: E402

UNIT = 400
COMPRESSORS = ["blosc", "zstd", "lz4", "bz2"]


def src_chunks(n, gap=3):
    """Source layout `n`: n < 10 -> n chunks of three rows; 10 + n / 20 + n / 30 + n -> the same with the middle / first / last chunk
    holding no rows (stored layouts with row-free chunks); 40 + n -> every chunk starts with a long row that encloses the two short rows
    after it (the gap between the short rows is wide enough to cut at, but covered by the long row)."""
    variant, n = divmod(n, 10)
    empty = {0: None, 1: n // 2, 2: 0, 3: n - 1, 4: None}[variant]
    out = []
    t = 0
    for i in range(n):
        rows = [[t + 1, t + 2, 10 * i + 1], [t + 2 + gap, t + 3 + gap, 10 * i + 2], [t + 3 + gap, t + 5 + gap, 10 * i + 3]]
        if variant == 4:
            rows = [[t + 1, t + 5 + gap, 10 * i + 1], [t + 2, t + 3, 10 * i + 2], [t + 3 + gap, t + 4 + gap, 10 * i + 3]]
        out.append(dict(s=t, e=t + 6 + gap + (gap if i % 2 else 0), rows=[] if i == empty else rows))
        t = out[-1]["e"]
    return [dict(s=c["s"] * UNIT, e=c["e"] * UNIT, rows=[[r[0] * UNIT, r[1] * UNIT, r[2]] for r in c["rows"]]) for c in out]


def ctx(dirs, n, rechunk_on_load=False, source_mb=None, **kw):
    src = H.source("src", src_chunks(n), rechunk_on_save=False)
    mp = H.rowmap("mapped", "src", rechunk_on_save=False)
    if rechunk_on_load:
        mp.rechunk_on_load = True
        mp.chunk_source_size_mb = source_mb
    return strax.Context(storage=[strax.DataDirectory(d) for d in dirs], register=[src, mp], allow_multiprocess=False,
                         timeout=120, **kw)


def read_dir(dirname):
    """Load a data directory with the real backend: (chunks, metadata record, array)."""
    be = strax.FileSytemBackend()
    chunks = list(be.loader(dirname))
    meta = be.get_metadata(dirname)
    files = set(os.path.basename(x) for x in glob.glob(dirname + "/*"))
    arr = np.concatenate([c.data for c in chunks]) if chunks else None
    cs = [dict(s=c.start, e=c.end, rows=[[int(r["time"]), int(strax.endtime(r))] for r in c.data]) for c in chunks]
    md = dict(chunks=[dict(i=m["chunk_i"], n=m["n"], s=m["start"], e=m["end"], run=m["run_id"], nb=m["nbytes"],
                           ft=m.get("first_time", -1), fe=m.get("first_endtime", -1), lt=m.get("last_time", -1),
                           le=m.get("last_endtime", -1), file=bool(m.get("filename") in files)) for m in meta["chunks"]],
              start=meta.get("start", -1), end=meta.get("end", -1), ended="writing_ended" in meta, exc="exception" in meta)
    return cs, md, arr, meta


def find_dir(d, dtype):
    xs = [x for x in glob.glob(os.path.join(d, f"0-{dtype}-*")) if not x.endswith("_temp")]
    return xs[0] if xs else None


def observe(op, src_before, src_after, dst_dir, replace):
    cs, md, arr, meta = read_dir(dst_dir)
    same = bool(arr is not None and src_before[2] is not None and arr.dtype == src_before[2].dtype
                and arr.tobytes() == src_before[2].tobytes())
    srcok = True
    if not replace:
        srcok = bool(src_after is not None and src_after[0] == src_before[0] and src_after[1] == src_before[1]
                     and src_after[2].tobytes() == src_before[2].tobytes())
    return dict(inp=src_before[0], out=cs, md=md, rechunk=True, itemsize=int(arr.dtype.itemsize) if arr is not None else 0,
                same=same, run="0", srcok=srcok), meta


def op_copy(arg):
    """copy_to_frontend into one named frontend (which = 0), or - with three frontends and no target_frontend_id - into every other
    frontend at once, observing destination number `which` (1, 2)"""
    comp, rechunk, target_rows, n = arg[:4]
    which = arg[4] if len(arg) > 4 else 0
    d1, d2, d3 = (tempfile.mkdtemp(prefix=f"verif_c16{x}_") for x in "abc")
    try:
        st = ctx([d1], n)
        st.make("0", "mapped", progress_bar=False)
        st = ctx([d1, d2] + ([d3] if which else []), n)
        sdir = find_dir(d1, "mapped")
        before = read_dir(sdir)
        kw = dict(target_frontend_id=None if which else 1, target_compressor=comp, rechunk=rechunk)
        if rechunk:
            kw["rechunk_to_mb"] = (target_rows * H.ROWDT.itemsize + 4) * 1e-6
        with warnings.catch_warnings():
            warnings.simplefilter("ignore")
            st.copy_to_frontend("0", "mapped", **kw)
        after = read_dir(sdir)
        dd = d3 if which == 2 else d2
        name = f"copy_to_frontend(compressor={comp}, rechunk={rechunk}, target_rows={target_rows}" + (f", to every other frontend: destination {which} of 2)" if which else ")")
        ddir = find_dir(dd, "mapped")
        if ddir is None:
            return dict(op=name, o=None, extra=[], err="the destination frontend holds no copy afterwards")
        o, meta = observe("copy", before, after, ddir, False)
        extra = []
        if comp and meta["compressor"] != comp:
            extra.append(f"destination compressor is {meta['compressor']}, requested {comp}")
        # and it loads through a context that only has the destination
        x = ctx([dd], n).get_array("0", "mapped", progress_bar=False)
        if x.tobytes() != before[2].tobytes():
            extra.append("get_array from the destination frontend differs from the source")
        return dict(op=name, o=o, extra=extra, err=None)
    except Exception as e:  # noqa
        return dict(op=f"copy_to_frontend{arg}", o=None, extra=[], err=f"{type(e).__name__}: {e}"[:200])
    finally:
        for d in (d1, d2, d3):
            shutil.rmtree(d, ignore_errors=True)


def op_rechunker(arg):
    comp, target_rows, parallel, replace, n = arg
    d1, d2 = tempfile.mkdtemp(prefix="verif_c16a_"), tempfile.mkdtemp(prefix="verif_c16b_")
    try:
        st = ctx([d1], n)
        st.make("0", "mapped", progress_bar=False)
        sdir = find_dir(d1, "mapped")
        before = read_dir(sdir)
        import contextlib
        import io
        with warnings.catch_warnings(), contextlib.redirect_stdout(io.StringIO()), contextlib.redirect_stderr(io.StringIO()):
            warnings.simplefilter("ignore")
            strax.rechunker(source_directory=sdir, dest_directory=None if replace else d2, replace=replace, compressor=comp,
                            target_size_mb=None if target_rows is None else (target_rows * H.ROWDT.itemsize + 4) * 1e-6,
                            rechunk=target_rows is not None, progress_bar=True, parallel=parallel, max_workers=2, _timeout=120)
        if replace:
            ddir, after = sdir, None
        else:
            ddir, after = os.path.join(d2, os.path.basename(sdir)), read_dir(sdir)
        o, meta = observe("rechunker", before, after, ddir, replace)
        extra = []
        if comp and meta["compressor"] != comp:
            extra.append(f"destination compressor is {meta['compressor']}, requested {comp}")
        x = ctx([d1 if replace else d2], n).get_array("0", "mapped", progress_bar=False)
        if x.tobytes() != before[2].tobytes():
            extra.append("get_array on the rewritten data differs from the original")
        return dict(op=f"rechunker(compressor={comp}, target_rows={target_rows}, parallel={parallel}, replace={replace})", o=o,
                    extra=extra, err=None)
    except Exception as e:  # noqa
        return dict(op=f"rechunker{arg}", o=None, extra=[], err=f"{type(e).__name__}: {e}"[:200])
    finally:
        shutil.rmtree(d1, ignore_errors=True)
        shutil.rmtree(d2, ignore_errors=True)


def op_rechunk_on_load(arg):
    source_rows, processor, max_workers, n = arg
    d1 = tempfile.mkdtemp(prefix="verif_c16a_")
    try:
        st = ctx([d1], n)
        st.make("0", "mapped", progress_bar=False)
        ref = st.get_array("0", "mapped", progress_bar=False)
        st2 = ctx([d1], n, rechunk_on_load=True, source_mb=(source_rows * H.ROWDT.itemsize + 4) * 1e-6)
        with warnings.catch_warnings():
            warnings.simplefilter("ignore")
            chunks = list(st2.get_iter("0", "mapped", processor=processor, max_workers=max_workers, progress_bar=False))
        x = np.concatenate([c.data for c in chunks])
        extra = []
        if x.tobytes() != ref.tobytes():
            extra.append("rows loaded with rechunk_on_load differ from the stored rows")
        if any(a.end != b.start for a, b in zip(chunks, chunks[1:])):
            extra.append("chunks loaded with rechunk_on_load are not contiguous")
        return dict(op=f"rechunk_on_load(source_rows={source_rows}, {processor}, max_workers={max_workers})", o=None, extra=extra, err=None,
                    nchunks=len(chunks))
    except Exception as e:  # noqa
        return dict(op=f"rechunk_on_load(source_rows={arg[0]}, {arg[1]}, max_workers={arg[2]})", o=None, extra=[],
                    err=f"{type(e).__name__}: {e}"[:200])
    finally:
        shutil.rmtree(d1, ignore_errors=True)


def op_per_chunk(arg):
    groups, processor, n = arg
    d1, d2 = tempfile.mkdtemp(prefix="verif_c16a_"), tempfile.mkdtemp(prefix="verif_c16b_")
    try:
        ref_st = ctx([d2], n)
        ref = ref_st.get_array("0", "mapped", progress_bar=False)
        ref_dir = find_dir(d2, "mapped")
        before = read_dir(ref_dir)
        st = ctx([d1], n)
        with warnings.catch_warnings():
            warnings.simplefilter("ignore")
            st.make("0", "src", progress_bar=False)
            for g in groups:
                st.make("0", "mapped", chunk_number={"src": list(g)}, processor=processor, progress_bar=False)
            st.merge_per_chunk_storage("0", "mapped", "src", chunk_number_group=[list(g) for g in groups], rechunk=False)
        # the merged data lives under the plain key (the per-chunk pieces stay next to it under their own keys)
        ddir = os.path.join(d1, str(st.key_for("0", "mapped")))
        o, meta = observe("per_chunk", before, before, ddir, False)
        extra = []
        x = ctx([d1], n).get_array("0", "mapped", progress_bar=False)
        if x.tobytes() != ref.tobytes():
            extra.append("per-chunk built + merged data differs from the directly made data")
        return dict(op=f"make per chunk groups {groups} + merge_per_chunk_storage ({processor})", o=o, extra=extra, err=None)
    except Exception as e:  # noqa
        return dict(op=f"per_chunk{arg}", o=None, extra=[], err=f"{type(e).__name__}: {e}"[:200])
    finally:
        shutil.rmtree(d1, ignore_errors=True)
        shutil.rmtree(d2, ignore_errors=True)


def dispatch(w):
    return dict(copy=op_copy, rechunker=op_rechunker, onload=op_rechunk_on_load, perchunk=op_per_chunk)[w[0]](w[1])


def contiguous_groupings(n):
    """All ways to group chunks 0..n-1 into consecutive groups."""
    out = []
    for cuts in itertools.product([0, 1], repeat=n - 1):
        g, cur = [], [0]
        for i, c in enumerate(cuts, 1):
            if c:
                g.append(cur)
                cur = [i]
            else:
                cur.append(i)
        g.append(cur)
        out.append(g)
    return out


# ----------------------------------------------------------------------------- operation histories (StoreOps.tla)
def canon_rows(n):
    """(time, endtime, v) of every row of `mapped`, in order: row id = position + 1."""
    return [(r[0], r[1], 3 * r[2] + 1) for c in src_chunks(n) for r in c["rows"]]


def project(d, n):
    """Image of one data directory in the vocabulary of StoreOps.tla (read back with the real backend)."""
    sdir = find_dir(d, "mapped")
    if sdir is None:
        return dict(present=False, edges=[], rows=[], md=[], comp="none", start=0, end=0, ended=False, exc=False)
    be = strax.FileSytemBackend()
    try:
        chunks = list(be.loader(sdir))
        meta = be.get_metadata(sdir)
    except Exception as e:  # noqa   a directory that is there but does not load: present, with nothing in it (no action of the model writes that)
        return dict(present=True, edges=[], rows=[], md=[], comp="unloadable: " + f"{type(e).__name__}: {e}"[:120], start=0, end=0, ended=False, exc=True)
    files = set(os.path.basename(x) for x in glob.glob(sdir + "/*"))
    ids = {r: i + 1 for i, r in enumerate(canon_rows(n))}
    rows = [[ids.get((int(r["time"]), int(strax.endtime(r)), int(r["v"])), 0) for r in c.data] for c in chunks]
    edges = [int(c.start) for c in chunks] + [int(chunks[-1].end)]
    md = [dict(i=m["chunk_i"], n=m["n"], s=m["start"], e=m["end"], nb=m["nbytes"], ft=m.get("first_time", -1), fe=m.get("first_endtime", -1),
               lt=m.get("last_time", -1), le=m.get("last_endtime", -1), file=bool(m.get("filename") in files)) for m in meta["chunks"]]
    return dict(present=True, edges=edges, rows=rows, md=md, comp=meta["compressor"], start=meta.get("start", -1), end=meta.get("end", -1),
                ended="writing_ended" in meta, exc="exception" in meta)


def gen_history(rng, n, length):
    """A random applicable operation sequence (the abstract preconditions of StoreOps.tla decide applicability)."""
    present = {"A": False, "B": False, "C": False}
    first = rng.choice("AB")
    ops = [dict(op="make", a=first, b=first, c="same", rc=False)]
    present[first] = True
    while len(ops) < length:
        kind = rng.choice(["copy", "copyall", "rewrite", "rewrite", "load"])
        have = [k for k in "ABC" if present[k]]
        a = rng.choice(have)
        other = rng.choice([k for k in "ABC" if k != a])
        c = rng.choice(["same"] + COMPRESSORS)
        tr = rng.choice([None, 1, 2, 4, 100])
        if kind == "copy":
            if present[other]:
                continue
            ops.append(dict(op="copy", a=a, b=other, c=c, rc=tr is not None, tr=tr))
            present[other] = True
        elif kind == "copyall":
            if all(present.values()):
                continue
            ops.append(dict(op="copyall", a=a, b=a, c=c, rc=tr is not None, tr=tr))
            present = {k: True for k in present}
        elif kind == "rewrite":
            inplace = present[other] or rng.random() < 0.5
            ops.append(dict(op="rewrite", a=a, b=a if inplace else other, c=c, rc=tr is not None, tr=tr,
                            par=rng.choice([False, "thread"])))
            present[a if inplace else other] = True
        else:
            ops.append(dict(op="load", a=a, b=a, c="same", rc=False, rol=rng.choice([None, 1, 4]),
                            proc=rng.choice(["single_thread", "threaded_mailbox"])))
    return ops


def run_history(arg):
    n, ops = arg
    import contextlib
    import io
    dirs = {k: tempfile.mkdtemp(prefix=f"verif_c16{k}_") for k in "ABC"}
    events = []
    ids = {r: i + 1 for i, r in enumerate(canon_rows(n))}
    err = None
    try:
        for op in ops:
            ev = dict(op=op["op"], a=op["a"], b=op["b"], c=op["c"], rc=bool(op["rc"]), loaded=[], contig=True)
            try:
                with warnings.catch_warnings(), contextlib.redirect_stdout(io.StringIO()), contextlib.redirect_stderr(io.StringIO()):
                    warnings.simplefilter("ignore")
                    mb = None if op.get("tr") is None else (op["tr"] * H.ROWDT.itemsize + 4) * 1e-6
                    if op["op"] == "make":
                        ctx([dirs[op["a"]]], n).make("0", "mapped", progress_bar=False)
                        shutil.rmtree(find_dir(dirs[op["a"]], "src"))        # only `mapped` is the subject
                    elif op["op"] == "copy":
                        st = ctx([dirs[op["a"]], dirs[op["b"]]], n)
                        kw = dict(target_frontend_id=1, target_compressor=None if op["c"] == "same" else op["c"], rechunk=bool(op["rc"]))
                        if op["rc"]:
                            kw["rechunk_to_mb"] = mb
                        st.copy_to_frontend("0", "mapped", **kw)
                    elif op["op"] == "copyall":
                        st = ctx([dirs[op["a"]]] + [dirs[k] for k in "ABC" if k != op["a"]], n)
                        kw = dict(target_compressor=None if op["c"] == "same" else op["c"], rechunk=bool(op["rc"]))
                        if op["rc"]:
                            kw["rechunk_to_mb"] = mb
                        st.copy_to_frontend("0", "mapped", **kw)
                    elif op["op"] == "rewrite":
                        sdir = find_dir(dirs[op["a"]], "mapped")
                        replace = op["a"] == op["b"]
                        strax.rechunker(source_directory=sdir, dest_directory=None if replace else dirs[op["b"]], replace=replace,
                                        compressor=None if op["c"] == "same" else op["c"], target_size_mb=mb, rechunk=bool(op["rc"]),
                                        progress_bar=True, parallel=op.get("par", False), max_workers=2, _timeout=120)
                    else:
                        st = ctx([dirs[op["a"]]], n, rechunk_on_load=op.get("rol") is not None,
                                 source_mb=None if op.get("rol") is None else (op["rol"] * H.ROWDT.itemsize + 4) * 1e-6)
                        chunks = list(st.get_iter("0", "mapped", processor=op["proc"], progress_bar=False))
                        ev["loaded"] = [ids.get((int(r["time"]), int(strax.endtime(r)), int(r["v"])), 0) for c in chunks for r in c.data]
                        ev["contig"] = all(a.end == b.start for a, b in zip(chunks, chunks[1:]))
            except Exception as e:  # noqa
                err = f"{op}: {type(e).__name__}: {e}"[:300]
                break
            ev["state"] = {k: project(dirs[k], n) for k in "ABC"}
            events.append(ev)
        return dict(n=n, ops=ops, events=events, err=err)
    finally:
        for d in dirs.values():
            shutil.rmtree(d, ignore_errors=True)


def storeops_constants(n):
    rows = canon_rows(n)
    cs = src_chunks(n)
    return dict(Rows=[dict(s=r[0], e=r[1]) for r in rows], Edges0=[cs[0]["s"]] + [c["e"] for c in cs], Half=int(strax.DEFAULT_CHUNK_SPLIT_NS // 2),
                Comps=set(COMPRESSORS), DefaultComp="blosc", Locs={"A", "B", "C"})


def tla_consts(c, maxops):
    rows = "<<" + ", ".join(f"[s |-> {r['s']}, e |-> {r['e']}]" for r in c["Rows"]) + ">>"
    mc = (f"RowsDef == {rows}\nEdges0Def == {V.to_tla(tuple(c['Edges0']))}\nCompsDef == {V.to_tla(c['Comps'])}\nLocsDef == {V.to_tla(c['Locs'])}\n")
    cfg = (f"CONSTANTS Half = {c['Half']} DefaultComp = \"{c['DefaultComp']}\" MaxOps = {maxops}\nCONSTANT Rows <- RowsDef\nCONSTANT Edges0 <- Edges0Def\n"
           "CONSTANT Comps <- CompsDef\nCONSTANT Locs <- LocsDef\n")
    return mc, cfg


def histories(chk):
    """spec/StoreOps.tla model-checked; random applicable operation histories executed on real storage and validated
    by TLC against it (StoreOpsTrace.tla)."""
    import random
    quick = chk.tier == "quick"
    n = 2
    c = storeops_constants(n)
    # quick: three locations, histories of <= 3 operations; thorough adds two locations with <= 4 operations (three locations with
    # four operations and the action that copies everywhere at once is beyond TLC in the time of a check)
    for locs, maxops in ((("A", "B", "C"), 3),) + (() if quick else ((("A", "B"), 4),)):
        mc, cfg = tla_consts(dict(c, Comps={"blosc", "zstd"}, Locs=set(locs)), maxops)
        d = V.stage_spec(["StoreOps"], {"MC.tla": "---- MODULE MC ----\nEXTENDS StoreOps\n" + mc + "====\n",
                                        "MC.cfg": "SPECIFICATION Spec\n" + cfg + "INVARIANT AllCopiesComplete\nPROPERTY SourceIntact\nCHECK_DEADLOCK FALSE\n"})
        r = V.run_tlc(d, "MC", "MC.cfg", workers=4, timeout=3000)
        chk.add_tlc(r, f"StoreOps.tla: all operation histories of <= {maxops} operations over locations {locs} (AllCopiesComplete, SourceIntact)")
        V.tlc_must_finish(r, "StoreOps")
        if r.violated:
            raise V.MachineryError(f"StoreOps.tla violates {r.violated}")
    rng = random.Random(chk.seed)
    res = []
    for lay in (n, 13):                      # the 2-chunk layout, and a 3-chunk layout whose middle chunk has no rows
        c = storeops_constants(lay)
        rng = random.Random(chk.seed + lay)
        hs = [(lay, gen_history(rng, lay, rng.choice([3, 4, 5]))) for _ in range((16 if lay == n else 10) if quick else 120)]
        part = V.pmap(run_history, hs, procs=8)
        validate_histories(chk, c, part)
        res += part
    chk.extra["operation_histories"] = len(res)


def validate_histories(chk, c, res):
    mc, cfg = tla_consts(c, 10)
    d = V.stage_spec(["StoreOps", "StoreOpsTrace"], {"MCT.tla": "---- MODULE MCT ----\nEXTENDS StoreOpsTrace\n" + mc + "====\n",
                                                     "MCT.cfg": "SPECIFICATION TraceSpec\n" + cfg + "INVARIANT Progress\nINVARIANT AllCopiesComplete\n"
                                                                "POSTCONDITION AllAccepted\nCHECK_DEADLOCK FALSE\n"})
    with open(os.path.join(d, "traces.json"), "w") as f:
        json.dump([dict(itemsize=int(H.ROWDT.itemsize), events=rr["events"]) for rr in res], f)
    r = V.run_tlc(d, "MCT", "MCT.cfg", workers=1, timeout=1800, env={"TRACE_FILE": os.path.join(d, "traces.json")})
    chk.add_tlc(r, f"trace validation of {len(res)} real operation histories against StoreOps.tla")
    rej = {int(a): int(b) for a, b in re.findall(r'REJECTED trace", (\d+), "at event", (\d+)', r.out)}
    if not r.ok and not rej:
        raise V.MachineryError("StoreOpsTrace failed to run: " + r.out[-2000:])
    for i, rr in enumerate(res, 1):
        chk.case(key=json.dumps(rr["ops"], sort_keys=True), nontrivial=len(rr["ops"]) > 2)
        ops_txt = " ; ".join(f"{o['op']}({o['a']}->{o['b']},{o['c']},tr={o.get('tr')})" for o in rr["ops"])
        if rr["err"]:
            chk.violation(f"C16:history:raises:{rr['err'].split(':')[-2].strip() if ':' in rr['err'] else rr['err']}:{ops_txt}",
                          f"operation history {ops_txt} raised: {rr['err']}", dict(history=[rr["n"], rr["ops"]]))
        elif i in rej:
            ev = rej[i]
            bad = rr["events"][ev - 1] if 0 < ev <= len(rr["events"]) else None
            chk.violation(f"C16:history:rejected:{ops_txt}:event{ev}",
                          f"real operation history {ops_txt} is not a behaviour of spec/StoreOps.tla: rejected at event {ev}: {json.dumps(bad)[:1500]}",
                          dict(history=[rr["n"], rr["ops"]]))
        else:
            chk.traces += 1


def run(chk):
    V.quiet_threads()
    quick = chk.tier == "quick"
    n = 3
    work = []
    for comp in [None] + COMPRESSORS:
        for rechunk, tr in ((False, None), (True, 1), (True, 4), (True, 100)):
            if quick and comp in ("lz4", "bz2") and tr == 4:
                continue
            work.append(("copy", (comp, rechunk, tr, n)))
            if comp in (None, "zstd"):
                work.append(("copy", (comp, rechunk, tr, 10 + n)))
                work.append(("copy", (comp, rechunk, tr, 40 + n)))
                work.append(("copy", (comp, rechunk, tr, n, 1)))       # three frontends, copied to both others in one call
                work.append(("copy", (comp, rechunk, tr, n, 2)))
    for comp in [None] + COMPRESSORS:
        for tr in (None, 1, 4, 100):
            for par in (False, "thread", "process"):
                for replace in (False, True):
                    if quick and ((comp in ("lz4", "bz2") and par == "process") or (par == "process" and tr == 4)):
                        continue
                    work.append(("rechunker", (comp, tr, par, replace, n)))
                    if comp in (None, "lz4") and par in (False, "thread"):
                        for lay in (10 + n, 20 + n, 30 + n, 40 + n):
                            work.append(("rechunker", (comp, tr, par, replace, lay)))
    for sr in (1, 2, 4):
        for proc, mw in (("single_thread", None), ("threaded_mailbox", None), ("threaded_mailbox", 2)):
            work.append(("onload", (sr, proc, mw, n)))
            work.append(("onload", (sr, proc, mw, 40 + n)))
    for g in contiguous_groupings(n if quick else 4):
        for proc in ("single_thread", "threaded_mailbox"):
            work.append(("perchunk", (g, proc, n if quick else 4)))
    # process-pool rechunking cannot run inside (daemonic) pool workers: those cases run in this process
    inpool = [w for w in work if not (w[0] == "rechunker" and w[1][2] == "process")]
    here = [w for w in work if w[0] == "rechunker" and w[1][2] == "process"]
    work = inpool + here
    res = V.pmap(dispatch, inpool, procs=8) + [dispatch(w) for w in here]
    traces, idx = [], []
    for i, rr in enumerate(res):
        chk.case(key=rr["op"], nontrivial=True)
        if rr["err"]:
            chk.violation(f"C16:raises:{rr['op'].split('(')[0]}:{rr['err'].split(':')[0]}:{rr['op']}", f"{rr['op']} raised {rr['err']}",
                          dict(work=work[i]))
            continue
        for e in rr["extra"]:
            chk.violation(f"C16:{rr['op']}:{e[:40]}", f"{rr['op']}: {e}", dict(work=work[i]))
        if rr["o"] is not None:
            traces.append(rr["o"])
            idx.append(i)
        else:
            chk.traces += 1
    d = V.stage_spec(["Chunks", "StorageRT"], {"StorageRT.cfg": "SPECIFICATION Spec\nINVARIANT Accepted\nCHECK_DEADLOCK FALSE\n"})
    with open(os.path.join(d, "traces.json"), "w") as f:
        json.dump(traces, f)
    r = V.run_tlc(d, "StorageRT", workers=4, timeout=1800, env={"TRACE_FILE": os.path.join(d, "traces.json")}, args=["-continue"])
    chk.add_tlc(r, f"validation of {len(traces)} operation observations (StorageRT.tla)")
    if not (r.ok or r.violated):
        raise V.MachineryError("StorageRT failed: " + r.out[-2000:])
    for k in sorted({int(m.group(1)) for m in re.finditer(r"tid = (\d+)", r.out)}):
        rr = res[idx[k - 1]]
        t = rr["o"]
        chk.violation(f"C16:data-not-preserved:{rr['op']}", f"{rr['op']}: source {t['inp']} destination {t['out']} md {t['md']} "
                      f"same={t['same']} source intact={t['srcok']}", dict(work=work[idx[k - 1]]))
    chk.traces += len(traces)
    histories(chk)
    chk.sample(dict(op=res[0]["op"], observation=res[0]["o"]))
    chk.sample(dict(op=res[-1]["op"], observation=res[-1]["o"]))
    chk.rule = ("operation = copy_to_frontend x {keep, blosc, zstd, lz4, bz2} x {no rechunk, target 1 / 4 / 100 rows}; stand-alone rechunker x "
                "compressors x targets x {serial, thread, process} x {new location, replace}; rechunk-on-load x source sizes x processors x "
                "workers; every grouping of dependency chunks into per-chunk jobs + merge x processors; every case is non-trivial")
    chk.exhaustive = not quick
    chk.assumptions += ["bit-identity decided by the harness on the loaded arrays; layout / metadata / source-intact by TLC (StorageRT.tla)"]


def replay(chk, path):
    rp = json.load(open(path))["replay"]
    if "history" in rp:
        rr = run_history((rp["history"][0], rp["history"][1]))
        for e in rr["events"]:
            print(json.dumps(e)[:600])
        print("error:", rr["err"])
        print("(validate with bin/check C16: the history is judged by TLC against StoreOps.tla)")
        return 1 if rr["err"] else 0
    w = rp["work"]
    rr = dispatch((w[0], tuple(tuple(x) if isinstance(x, list) and w[0] != "perchunk" else x for x in w[1])))
    print(rr)
    return 1 if (rr["err"] or rr["extra"]) else 0
