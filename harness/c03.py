"""C03: saving then loading returns the same rows, ranges and consistent metadata.

spec/StreamCases.tla enumerates contiguous chunk streams (every law-abiding chunking of every small
row set, incl. empty and zero-duration chunks and overlapping rows); each stream is written through
the real FileSytemBackend saver (Saver.save_from, rechunking on/off with target sizes from one row
upward, serial or thread-pool) for several structured dtypes and all compressors, and read back
through the real loader (serial or with an executor).  TLC judges every recorded round trip against
spec/StorageRT.tla (rows, contiguity, boundaries equal / subset-or-row-free-gap, metadata
consistency).  Bit-identity of rows is established by the harness on random payload bytes.
"""
import json
import os
import re
import shutil
import tempfile
import glob
from concurrent.futures import ThreadPoolExecutor
import logging
import warnings
import numpy as np
import vcommon as V

logging.disable(logging.CRITICAL)
import strax  # noqa: E402

UNIT = 400
DTYPES = {
    "endtime_scalar": [(("start", "time"), np.int64), (("end", "endtime"), np.int64), (("payload", "p"), np.int64),
                       (("a float", "f"), np.float32)],
    "dt_length_array": [(("start", "time"), np.int64), (("samples", "length"), np.int32), (("width", "dt"), np.int16),
                        (("waveform", "data"), np.int16, (5,)), (("payload", "p"), np.uint8, (3,))],
    "titled_nested": [(("Start time since unix epoch [ns]", "time"), np.int64), (("Exclusive end time", "endtime"), np.int64),
                      (("a title with spaces, commas", "x"), np.float64), (("flag", "b"), np.bool_), (("bytes", "p"), np.uint8, (2, 2))],
}
COMPRESSORS = ["blosc", "zstd", "lz4", "bz2"]


def make_array(rows, dtname, rng):
    dt = np.dtype(DTYPES[dtname])
    a = np.zeros(len(rows), dt)
    for i, (t, e) in enumerate(rows):
        a[i]["time"] = t * UNIT
        if "endtime" in dt.names:
            a[i]["endtime"] = e * UNIT
        else:
            a[i]["dt"] = UNIT // 4
            a[i]["length"] = (e - t) * 4
    for name in dt.names:
        if name in ("time", "endtime", "dt", "length"):
            continue
        raw = rng.integers(0, 256, size=a[name].nbytes, dtype=np.uint8)
        if dt[name].base.kind == "f":
            a[name] = rng.integers(-1000, 1000, size=a[name].shape).astype(dt[name].base)
        elif dt[name].base.kind == "b":
            a[name] = rng.integers(0, 2, size=a[name].shape).astype(bool)
        else:
            a[name] = raw.view(dt[name].base).reshape(a[name].shape) if a[name].nbytes else a[name]
    return a


def roundtrip(arg):
    case, combo, seed = arg
    dtname, comp, target_rows, pool_save, pool_load = combo
    rng = np.random.default_rng(seed)
    d = tempfile.mkdtemp(prefix="verif_c03_")
    out = dict(combo=combo, case=case, err=None)
    try:
        dt = np.dtype(DTYPES[dtname])
        chunks = []
        tmb = strax.DEFAULT_CHUNK_SIZE_MB if target_rows is None else (target_rows * dt.itemsize + dt.itemsize // 2) * 1e-6
        for c in case["chunks"]:
            arr = make_array(c["rows"], dtname, rng)
            chunks.append(strax.Chunk(data_type="dt", data_kind="k", dtype=dt, run_id="0", start=c["s"] * UNIT, end=c["e"] * UNIT,
                                      data=arr, target_size_mb=tmb))
        be = strax.FileSytemBackend()
        dirname = os.path.join(d, "0-dt-abcdefghij")
        md = dict(run_id="0", data_type="dt", data_kind="k", dtype=dt, compressor=comp, lineage={}, chunk_target_size_mb=tmb)
        ex = ThreadPoolExecutor(2) if pool_save else None
        try:
            saver = be.saver(dirname, md)
            saver.save_from(iter(chunks), rechunk=target_rows is not None, executor=ex)
        finally:
            if ex:
                ex.shutdown(wait=True)
        ex2 = ThreadPoolExecutor(2) if pool_load else None
        try:
            loaded = list(be.loader(dirname, executor=ex2))
            loaded = [c.result() if hasattr(c, "result") else c for c in loaded]
        finally:
            if ex2:
                ex2.shutdown(wait=True)
        meta = be.get_metadata(dirname)
        files = set(os.path.basename(x) for x in glob.glob(dirname + "/*"))
        a_in = np.concatenate([c.data for c in chunks]) if chunks else np.zeros(0, dt)
        a_out = np.concatenate([c.data for c in loaded]) if loaded else np.zeros(0, dt)
        same = bool(a_in.dtype == a_out.dtype and a_in.tobytes() == a_out.tobytes()
                    and all(c.dtype == dt and c.data_type == "dt" and c.run_id == "0" for c in loaded))

        def rows_of(c):
            return [[int(r["time"]), int(strax.endtime(r))] for r in c.data]
        out["trace"] = dict(
            inp=[dict(s=c.start, e=c.end, rows=rows_of(c)) for c in chunks],
            out=[dict(s=c.start, e=c.end, rows=rows_of(c)) for c in loaded],
            md=dict(chunks=[dict(i=m["chunk_i"], n=m["n"], s=m["start"], e=m["end"], run=m["run_id"], nb=m["nbytes"],
                                 ft=m.get("first_time", -1), fe=m.get("first_endtime", -1), lt=m.get("last_time", -1),
                                 le=m.get("last_endtime", -1), file=bool(m.get("filename") in files)) for m in meta["chunks"]],
                    start=meta.get("start", -1), end=meta.get("end", -1), ended="writing_ended" in meta, exc="exception" in meta),
            rechunk=target_rows is not None, itemsize=dt.itemsize, same=same, run="0", srcok=True)
        out["stray"] = sorted(f for f in files if f.endswith("_temp"))
    except Exception as e:  # noqa
        out["err"] = f"{type(e).__name__}: {e}"[:200]
    finally:
        shutil.rmtree(d, ignore_errors=True)
    return out


def run(chk):
    quick = chk.tier == "quick"
    rs = dict(G=6 if quick else 8, MaxRows=3, MaxChunks=2 if quick else 3, Kind="stream")
    r, cases = V.tlc_cases("StreamCases", rs, ["Emit"], timeout=3000)
    chk.add_tlc(r, f"StreamCases {rs}")
    V.tlc_must_finish(r, "StreamCases")
    combos = []
    for dtname in DTYPES:
        for comp in COMPRESSORS:
            for target in (None, 1, 2, 3):
                for ps, pl in ((False, False), (True, True)):
                    combos.append((dtname, comp, target, ps, pl))
    rng = __import__("random").Random(chk.seed)

    def nested_with_gap(c):
        """A long row enclosing later rows that are separated by a gap wide enough for the rechunker to cut at (>= 3 units)."""
        rows = c["rows"]
        for i in range(len(rows)):
            inner = [r for r in rows[i + 1:] if r[0] < rows[i][1]]
            ends = [rows[i][0]] + [r[1] for r in inner]
            if any(r[0] - max(ends[:k + 1]) >= 3 or (k > 0 and r[0] - inner[k - 1][1] >= 3) for k, r in enumerate(inner)):
                return True
        return False
    special = [c for c in cases if nested_with_gap(c)]
    if quick:
        cases = [c for c in cases if rng.random() < 0.5]
    work = [(c, combos[(i * 7 + len(c["rows"])) % len(combos)], chk.seed * 100003 + i) for i, c in enumerate(cases)]
    # plus the full matrix on a few streams
    for c in cases[:: max(1, len(cases) // (4 if quick else 20))]:
        for cb in combos:
            work.append((c, cb, chk.seed + len(work)))
    # streams in which a long row encloses later rows separated by a cuttable gap: every rechunk target (the cut candidates of the
    # rechunker depend on the latest end seen so far, not on the previous row)
    for c in (special if not quick else special[:: max(1, len(special) // 150)]):
        for target in (1, 2, 3):
            work.append((c, ("time_endtime" if "time_endtime" in DTYPES else list(DTYPES)[0], "blosc", target, False, False), chk.seed + len(work)))
    chk.extra["nested_row_streams"] = len(special)
    roundtrip(work[0])
    res = V.pmap(roundtrip, work)
    traces = []
    idx = []
    for i, rr in enumerate(res):
        chk.case(key=json.dumps([rr["case"], rr["combo"]]), nontrivial=bool(rr["case"]["rows"]))
        if rr["err"]:
            chk.violation(f"C03:raises:{rr['err'].split(':')[0]}:{rr['combo'][2]}:{json.dumps(rr['case']['chunks'])}",
                          f"save/load of the valid stream {rr['case']['chunks']} with {rr['combo']} raised {rr['err']}",
                          dict(case=rr["case"], combo=rr["combo"]))
            continue
        if rr["stray"]:
            chk.violation(f"C03:stray-temp-files:{rr['combo']}", f"temporary files left: {rr['stray']}", dict(case=rr["case"], combo=rr["combo"]))
        traces.append(rr["trace"])
        idx.append(i)
    CH = 4000
    for off in range(0, len(traces), CH):
        part = traces[off:off + CH]
        d = V.stage_spec(["Chunks", "StorageRT"], {"StorageRT.cfg": "SPECIFICATION Spec\nINVARIANT Accepted\nCHECK_DEADLOCK FALSE\n"})
        with open(os.path.join(d, "traces.json"), "w") as f:
            json.dump(part, f)
        r = V.run_tlc(d, "StorageRT", workers=V.NCPU, timeout=1800, env={"TRACE_FILE": os.path.join(d, "traces.json")}, args=["-continue"])
        chk.add_tlc(r, f"round-trip validation of {len(part)} traces (StorageRT.tla)")
        if not (r.ok or r.violated):
            raise V.MachineryError("StorageRT failed: " + r.out[-2000:])
        for k in sorted({int(m.group(1)) for m in re.finditer(r"tid = (\d+)", r.out)}):
            rr = res[idx[off + k - 1]]
            t = rr["trace"]
            chk.violation(f"C03:roundtrip:{rr['combo']}:{json.dumps(rr['case']['chunks'])}",
                          f"round trip with {rr['combo']} violates C03: saved {t['inp']} loaded {t['out']} metadata {t['md']} same={t['same']}",
                          dict(case=rr["case"], combo=rr["combo"]))
        chk.traces += len(part)
    chk.sample(dict(combo=res[1]["combo"], trace=res[1].get("trace")))
    chk.rule = ("stream = every law-abiding chunking (<= 3 chunks, incl. empty and zero-duration) of every row set of <= 3 rows on a small grid "
                "(overlapping rows included); each stream is saved and loaded with a combination of {3 structured dtypes: endtime / dt x "
                "length, scalar, array-valued, titled fields} x {blosc, zstd, lz4, bz2} x {no rechunk, target 1, 2, 3 rows} x {serial, "
                "thread pool}; the full matrix on a subset; non-trivial = stream with rows")
    chk.assumptions += ["bit-identity is decided by the harness (random payload bytes), order / boundaries / metadata by TLC",
                        f"time unit {UNIT} ns per model unit"]


def replay(chk, path):
    rp = json.load(open(path))["replay"]
    rr = roundtrip((rp["case"], tuple(rp["combo"]), 0))
    print(rr.get("err") or rr.get("trace"))
    return 1 if rr["err"] else 0
