"""C12: outputs that violate a plugin's declared contract are rejected, not stored.

spec/Contracts.tla enumerates (plugin kind x violation kind x position x processor) with the
applicability table and the chain of checks the code applies on each path (I-level), and states
the P-level: a violating output is Rejected before it is Delivered or Stored.  TLC checks the
chain on every tuple and prints the tuples; the harness executes each tuple on the real code with
a misbehaving harness plugin and observes exception vs normal return of Context.get_array and
Context.is_stored from a fresh context.
"""
import json
import os
import shutil
import tempfile
import logging
import warnings
import numpy as np
import vcommon as V

logging.disable(logging.CRITICAL)
import strax  # noqa: E402
import hplugins as H  # noqa: E402

WRONG = np.dtype([(("start time", "time"), np.int64), (("exclusive end time", "endtime"), np.int64),
                  (("not what was declared", "w"), np.float32)])
SAMESIZE = np.dtype([(("start time", "time"), np.int64), (("exclusive end time", "endtime"), np.int64),
                     (("payload", "v"), np.float64)])       # declared names, declared item size, another field type
CHUNKS = [dict(s=0, e=10, rows=[[1, 3, 5], [4, 6, 7]]), dict(s=10, e=20, rows=[[11, 12, 1], [13, 15, 2]]),
          dict(s=20, e=30, rows=[[21, 25, 2], [26, 29, 3]])]
POS = dict(first=0, middle=1, last=2)


def corrupt(plugin, r, start, end, viol, dtype_name):
    """Turn the correct bare result r of `plugin` into the violating output."""
    if viol == "wrong_dtype_bare":
        w = np.zeros(len(r), WRONG)
        w["time"], w["endtime"] = r["time"], r["endtime"]
        return w
    if viol == "wrong_types_bare":
        w = np.zeros(len(r), SAMESIZE)
        w["time"], w["endtime"], w["v"] = r["time"], r["endtime"], r["v"] + 0.5
        return w
    if viol == "wrong_dtype_chunk":
        w = np.zeros(len(r), WRONG)
        w["time"], w["endtime"] = r["time"], r["endtime"]
        return strax.Chunk(start=start, end=end, data=w, data_type=dtype_name, data_kind=plugin.data_kind_for(dtype_name),
                           dtype=plugin.dtype_for(dtype_name), run_id="0")
    if viol == "rows_early":
        r = r.copy()
        r["time"][0] = start - 1
        return r
    if viol == "rows_late":
        r = r.copy()
        r["endtime"][-1] = end + 1
        return r
    if viol == "rows_late_inner":       # an earlier, long row outlasts the chunk; the last row is fine (rows are sorted by start time)
        r = r.copy()
        r["endtime"][0] = end + 1
        return r
    if viol == "sibling_label":      # a multi-output plugin hands over, under the key of one output, a chunk labelled as its sibling
        return strax.Chunk(start=start, end=end, data=r, data_type="side", data_kind=plugin.data_kind_for("side"),
                           dtype=plugin.dtype_for("side"), run_id="0")
    if viol == "wrong_label":
        return strax.Chunk(start=start, end=end, data=r, data_type="something_else", data_kind=plugin.data_kind_for(dtype_name),
                           dtype=plugin.dtype_for(dtype_name), run_id="0")
    raise ValueError(viol)


def build(kind, viol, pos):
    """Return (plugin classes, target data type)."""
    bad_i = POS[pos]
    src_chunks = [dict(c) for c in CHUNKS]

    if kind == "source":
        class Src(strax.Plugin):
            provides = ("src",)
            depends_on = ()
            dtype = H.ROW
            data_kind = "src"
            rechunk_on_save = False

            def source_finished(self):
                return True

            def is_ready(self, chunk_i):
                return chunk_i < len(src_chunks)

            def compute(self, chunk_i):
                c = src_chunks[chunk_i]
                r = H.rows_to_array(c["rows"])
                s, e = c["s"], c["e"]
                if chunk_i == bad_i:
                    if viol == "overlap":
                        s = s - 1 if chunk_i > 0 else s
                        if chunk_i == 0:
                            e = e + 1
                    elif viol == "gap":
                        if chunk_i > 0:
                            s = s + 1
                            r = r[r["time"] >= s]
                        else:
                            e = e - 1
                            r = r[r["endtime"] <= e]
                    elif viol in ("wrong_dtype_bare", "wrong_types_bare"):
                        return corrupt(self, r, s, e, viol, "src")
                    else:
                        x = corrupt(self, r, s, e, viol, "src")
                        if isinstance(x, strax.Chunk):
                            return x
                        return strax.Chunk(start=s, end=e, data=x, data_type="src", data_kind="src", dtype=self.dtype, run_id="0")
                return self.chunk(start=s, end=e, data=r)
        return [Src], "src"

    Src = H.source("src", src_chunks, rechunk_on_save=False)
    state = dict(i=0)

    def maybe(plugin, r, start, end, name):
        i = state["i"]
        state["i"] += 1
        if i == bad_i:
            return corrupt(plugin, r, start, end, viol, name)
        return r

    def good(x):
        r = np.zeros(len(x), H.ROWDT)
        r["time"], r["endtime"], r["v"] = x["time"], x["endtime"], 3 * x["v"] + 1
        return r

    if kind == "ordinary":
        class P(strax.Plugin):
            provides = ("out",)
            depends_on = ("src",)
            dtype = H.ROW
            data_kind = "out"
            rechunk_on_save = False

            def compute(self, src, start, end):
                return maybe(self, good(src), start, end, "out")
        return [Src, P], "out"

    if kind == "multi":
        class P(strax.Plugin):
            provides = ("out", "side")
            depends_on = ("src",)
            dtype = dict(out=H.ROW, side=H.ROW)
            data_kind = dict(out="out", side="side")
            rechunk_on_save = False

            def compute(self, src, start, end):
                i = state["i"]
                if viol == "non_dict":
                    state["i"] += 1
                    return good(src) if i == bad_i else dict(out=good(src), side=good(src))
                return dict(out=maybe(self, good(src), start, end, "out"), side=good(src))
        return [Src, P], "out"

    if kind == "down":
        class P(strax.DownChunkingPlugin):
            provides = ("out",)
            depends_on = ("src",)
            dtype = H.ROW
            data_kind = "out"
            rechunk_on_save = False

            def compute(self, src, start, end):
                i = state["i"]
                state["i"] += 1
                r = good(src)
                mid = (start + end) // 2
                parts = [(start, mid, r[r["endtime"] <= mid]), (mid, end, r[r["time"] >= mid])]
                for k, (s, e, d) in enumerate(parts):
                    if i == bad_i and k == 1:
                        if viol == "overlap":
                            s -= 1
                        elif viol == "gap":
                            s += 1
                            d = d[d["time"] >= s]
                        else:
                            x = corrupt(self, d, s, e, viol, "out")
                            if isinstance(x, strax.Chunk):
                                yield x
                            else:
                                yield strax.Chunk(start=s, end=e, data=x, data_type="out", data_kind="out", dtype=self.dtype, run_id="0")
                            continue
                    yield self.chunk(start=s, end=e, data=d)
        return [Src, P], "out"

    if kind == "loop":
        class P(strax.LoopPlugin):
            provides = ("out",)
            depends_on = ("src",)
            dtype = H.ROW
            data_kind = "out"
            rechunk_on_save = False

            def compute(self, src, start, end):
                r = strax.LoopPlugin.compute(self, src=src)
                return maybe(self, r, start, end, "out")

            def compute_loop(self, base):
                return dict(time=base["time"], endtime=base["endtime"], v=3 * base["v"] + 1)
        return [Src, P], "out"

    if kind == "cut":
        class P(strax.CutPlugin):
            provides = ("cut_out",)
            depends_on = ("src",)
            cut_name = "cut_out"
            rechunk_on_save = False
            save_when = strax.SaveWhen.ALWAYS

            def compute(self, src, start, end):
                r = strax.CutPlugin.compute(self, src=src)
                return maybe(self, r, start, end, "cut_out")

            def cut_by(self, src):
                return src["v"] > 2
        return [Src, P], "cut_out"

    if kind == "overlap":
        class P(strax.OverlapWindowPlugin):
            provides = ("out",)
            depends_on = ("src",)
            dtype = H.ROW
            data_kind = "out"
            rechunk_on_save = False

            def get_window_size(self):
                return 1

            def compute(self, src, start, end):
                return maybe(self, good(src), start, end, "out")
        return [Src, P], "out"
    raise ValueError(kind)


def execute(case):
    kind, viol, pos, proc = case["kind"], case["viol"], case["pos"], case["proc"]
    d = tempfile.mkdtemp(prefix="verif_c12_")
    try:
        classes, target = build(kind, viol, pos)
        st = strax.Context(storage=[strax.DataDirectory(d)], register=classes, allow_multiprocess=False, timeout=60)
        outcome, detail = "returned", ""
        try:
            with warnings.catch_warnings():
                warnings.simplefilter("ignore")
                x = st.get_array("0", target, processor=proc, progress_bar=False)
            detail = f"{len(x)} rows of dtype {x.dtype.names}"
        except Exception as e:  # noqa
            outcome, detail = "raised", f"{type(e).__name__}: {str(e)[:120]}"
        classes2, _ = build(kind, "none", pos)
        st2 = strax.Context(storage=[strax.DataDirectory(d)], register=classes2, allow_multiprocess=False)
        try:
            stored = bool(st2.is_stored("0", target))
        except Exception as e:  # noqa
            stored = False
        return dict(case=case, outcome=outcome, stored=stored, detail=detail)
    finally:
        shutil.rmtree(d, ignore_errors=True)


def run(chk):
    consts = dict(Repaired=True)
    r, cases = V.tlc_cases("Contracts", consts, ["TypeOK", "Emit"], timeout=600)
    chk.add_tlc(r, "Contracts.tla (enumeration of applicable tuples)")
    V.tlc_must_finish(r, "Contracts")
    d = V.stage_spec(["Contracts"], {"Contracts.cfg": V.cfg_text(consts, ["TypeOK", "RejectedBeforeUse"], spec="ChainSpec")})
    r2 = V.run_tlc(d, "Contracts", workers=4, timeout=600)
    chk.add_tlc(r2, "Contracts.tla check chains (repaired)")
    V.tlc_must_finish(r2, "Contracts chains")
    d = V.stage_spec(["Contracts"], {"Contracts.cfg": V.cfg_text(dict(Repaired=False), ["TypeOK", "RejectedBeforeUse"], spec="ChainSpec")})
    r3 = V.run_tlc(d, "Contracts", workers=4, timeout=600)
    chk.add_tlc(r3, "Contracts.tla check chains (as found)")
    chk.extra["as_found_model_violates"] = r3.violated
    if not r3.violated:
        raise V.MachineryError("Contracts.tla with Repaired=FALSE has no violation: invariant without teeth")
    if chk.tier == "quick":
        cases = [c for c in cases if c["pos"] != "middle" or c["proc"] == "single_thread"]
    build("ordinary", "none", "first")
    V.quiet_threads()
    res = V.pmap(execute, cases)
    chk.rule = ("every violation kind applicable to the plugin kind x plugin kind (source, ordinary, multi-output, down-chunking, loop, "
                "cut, overlap-window) x position of the offending chunk (first / middle / last) x processor; non-trivial = every tuple "
                "(each runs a real pipeline with a misbehaving plugin)")
    chk.exhaustive = chk.tier == "thorough"
    for rr in res:
        c = rr["case"]
        chk.case(key=json.dumps(c, sort_keys=True), nontrivial=True)
        chk.traces += 1
        bad = []
        if rr["outcome"] != "raised":
            bad.append(f"get_array returned normally ({rr['detail']})")
        if rr["stored"]:
            bad.append("the offending data type is stored as valid afterwards")
        if bad:
            chk.violation(f"C12:{c['kind']}:{c['viol']}:{'|'.join(b.split(' (')[0] for b in bad)}",
                          f"{c['kind']} plugin delivering {c['viol']} at the {c['pos']} chunk, {c['proc']}: " + "; ".join(bad), c)
        if r2.violated and not bad:
            pass
    chk.sample(dict(case=res[0]["case"], outcome=res[0]["outcome"], detail=res[0]["detail"], stored=res[0]["stored"]))
    chk.sample(dict(case=res[-1]["case"], outcome=res[-1]["outcome"], detail=res[-1]["detail"], stored=res[-1]["stored"]))
    if r2.violated and not chk.violations and not chk.known_hit:
        raise V.MachineryError("Contracts.tla (repaired) violates RejectedBeforeUse but every real tuple is rejected: model is wrong")
    chk.assumptions += ["chunks of at most 500 time-sorted rows (the window the chunk constructor inspects)",
                        "violations are injected by harness plugins of each kind; 'rejected' = Context.get_array raises"]


def replay(chk, path):
    case = json.load(open(path))["replay"]
    rr = execute(case)
    print(rr)
    return 1 if (rr["outcome"] != "raised" or rr["stored"]) else 0
