"""Module-level (picklable) plugin family for real multiprocess runs: the multi_both graph of C11 - src -> (mx, my) -> pw.
The `parallel` / `rechunk_on_save` / `save_when` attributes are set on the classes before a run (worker processes are forked
from the process that set them)."""
import numpy as np
import strax
import hplugins as H
import pipeline as PL

N = 2


class Src(strax.Plugin):
    provides = ("src",)
    depends_on = ()
    dtype = H.ROW
    data_kind = "src"
    parallel = "process"
    rechunk_on_save = False

    def source_finished(self):
        return True

    def is_ready(self, chunk_i):
        return chunk_i < len(PL.src_chunks(N))

    def compute(self, chunk_i):
        c = PL.src_chunks(N)[chunk_i]
        return self.chunk(start=c["s"], end=c["e"], data=H.rows_to_array(c["rows"]))


class M(strax.Plugin):
    provides = ("mx", "my")
    depends_on = ("src",)
    data_kind = dict(mx="mx", my="my")
    dtype = dict(mx=H.ROW, my=H.ROW)
    parallel = "process"
    rechunk_on_save = False

    def compute(self, src):
        a = np.zeros(len(src), dtype=H.ROWDT)
        a["time"], a["endtime"], a["v"] = src["time"], strax.endtime(src), 2 * src["v"]
        s = src[src["v"] % 2 == 1]
        b = np.zeros(len(s), dtype=H.ROWDT)
        b["time"], b["endtime"], b["v"] = s["time"], strax.endtime(s), s["v"] + 10
        return dict(mx=a, my=b)


class PW(strax.Plugin):
    provides = ("pw",)
    depends_on = ("mx", "my")
    dtype = H.ROW
    data_kind = "pw"
    parallel = False
    rechunk_on_save = False

    def compute(self, mx, my):
        r = np.zeros(len(mx), dtype=H.ROWDT)
        r["time"], r["endtime"], r["v"] = mx["time"], strax.endtime(mx), mx["v"] + len(my)
        return r


CLASSES = dict(Src=Src, M=M, PW=PW)
