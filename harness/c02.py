"""C02: stored data is reused only under an identical lineage (no stale reads).

spec/Lineage.tla models registry / config / per-context plugin cache / lineage keys / shared storage
and checks, over all histories up to a bound, that every get returns what a brand-new context would
compute, that the key is a function of the true lineage, and the static laws of the key function.
Histories (exhaustive short ones + seeded random long ones) are executed on real strax Contexts
sharing one DataDirectory with plugins whose output encodes (class name+version, effective tracked
option, input provenance); TLC validates every recorded history against the specification
(LineageTrace.tla) and evaluates the P-level invariants after every event.  The assumption that the
storage key is a function of the lineage *value* is tested on every lineage reached: the key is
recomputed in child processes under several hash seeds and with permuted option insertion order.
"""
import itertools
import json
import os
import random
import re
import shutil
import subprocess
import sys
import tempfile
import logging
import warnings
import numpy as np
import vcommon as V

logging.disable(logging.CRITICAL)
import strax  # noqa: E402
import hplugins as H  # noqa: E402

CLASSES = [dict(t=1, name="SrcS", ver=0, d=1, uid=1, nv=1), dict(t=1, name="SrcS", ver=0, d=2, uid=8, nv=1),
           dict(t=2, name="MidA", ver=0, d=1, uid=2, nv=2), dict(t=2, name="MidA", ver=0, d=2, uid=3, nv=2),
           dict(t=2, name="MidA", ver=1, d=1, uid=4, nv=4), dict(t=2, name="MidB", ver=0, d=1, uid=5, nv=5),
           # (no TopT variant with another default: strax refuses two registered plugins - here top and its child kid - that
           # declare different defaults for the same option)
           dict(t=3, name="TopT", ver=0, d=1, uid=6, nv=6), dict(t=3, name="TopT", ver=1, d=1, uid=9, nv=7),
           # child plugins of a TopT class: own child option opt_kid replaces the parent's opt_top
           dict(t=4, name="KidK", ver=0, d=1, uid=10, nv=8, pname="TopT", pver=0),
           dict(t=4, name="KidK", ver=0, d=2, uid=11, nv=8, pname="TopT", pver=0),
           dict(t=4, name="KidK", ver=0, d=1, uid=12, nv=9, pname="TopT", pver=1)]
TYPE = {1: "src", 2: "mid", 3: "top", 4: "kid"}
OPT = {1: "opt_src", 2: "opt_mid", 3: "opt_top", 4: "opt_untracked", 5: "opt_shared", 6: "opt_kid", 7: "opt_mixed"}
DEP = {1: None, 2: "src", 3: "mid", 4: "mid"}
NT, NO = 4, 7


# option value codes of the model -> Python values: 3 and 4 are different settings that compare equal to 1
PYVAL = {1: 1, 2: 2, 3: True, 4: 1.0}
CODE_OF = {(int, 1): 1, (int, 2): 2, (bool, True): 3, (float, 1.0): 4}


def code_of(x):
    return CODE_OF[(type(x), x)]


def classes_tla():
    return "ClassesDef == {" + ", ".join(
        f'[t |-> {c["t"]}, name |-> "{c["name"]}", ver |-> {c["ver"]}, def |-> {c["d"]}, uid |-> {c["uid"]}, nv |-> {c["nv"]}, '
        f'pname |-> "{c.get("pname", "")}", pver |-> {c.get("pver", 0)}]'
        for c in CLASSES) + "}\n"


def make_class(c, parents=None):
    """Provenance of a row: (input provenance) * 10000 + NV * 1000 + (own option as seen by compute) * 100 + shared option * 10 (0 if not
    taken) + mixed option (the value where the plugin tracks it - mid -, 0 where it is untracked or not taken)."""
    t = c["t"]
    if t == 4:
        # a child plugin: inherits compute (which reads the *parent's* option name) from a TopT class of the given version
        parent = parents[(c["pname"], c["pver"])]
        ns = dict(provides=("kid",), data_kind="kid", child_plugin=True, NV=c["nv"], __version__=str(c["ver"]), rechunk_on_save=False)
        cls = type(c["name"], (parent,), ns)
        return strax.takes_config(strax.Option(OPT[6], default=c["d"], track=True, child_option=True, parent_option_name=OPT[3]))(cls)
    optname = OPT[t]
    opts = [strax.Option(optname, default=c["d"], track=True)]
    shared = t in (1, 3)
    if shared:
        opts.append(strax.Option(OPT[5], default=1, track=True))
    if t == 2:
        opts.append(strax.Option(OPT[4], default=0, track=False))
        opts.append(strax.Option(OPT[7], default=1, track=True))        # tracked here ...
    if t == 3:
        opts.append(strax.Option(OPT[7], default=1, track=False))       # ... untracked in the plugin registered after it
    if t == 1:
        def compute(self, chunk_i):
            r = np.zeros(1, H.ROWDT)
            r["time"], r["endtime"], r["v"] = 1, 2, self.NV * 1000 + code_of(self.config[optname]) * 100 + code_of(self.config[OPT[5]]) * 10
            return self.chunk(start=0, end=10, data=r)
        ns = dict(provides=("src",), depends_on=(), dtype=H.ROW, data_kind="src", compute=compute,
                  is_ready=lambda self, i: i < 1, source_finished=lambda self: True)
    else:
        def compute(self, **kw):
            (x,) = kw.values()
            r = np.zeros(len(x), H.ROWDT)
            r["time"], r["endtime"] = x["time"], x["endtime"]
            r["v"] = (x["v"] * 10000 + self.NV * 1000 + code_of(self.config[optname]) * 100 + (code_of(self.config[OPT[5]]) if shared else 0) * 10
                      + (code_of(self.config[OPT[7]]) if t == 2 else 0))
            return r
        ns = dict(provides=(TYPE[t],), depends_on=(DEP[t],), dtype=H.ROW, data_kind=TYPE[t], compute=compute)
    ns["__version__"] = str(c["ver"])
    ns["rechunk_on_save"] = False
    ns["NV"] = c["nv"]
    cls = type(c["name"], (strax.Plugin,), ns)
    return strax.takes_config(*opts)(cls)


def make_classes():
    classes = {c["uid"]: make_class(c) for c in CLASSES if c["t"] != 4}
    parents = {}
    for c in CLASSES:
        if c["t"] == 3:
            parents.setdefault((c["name"], c["ver"]), classes[c["uid"]])
    classes.update({c["uid"]: make_class(c, parents) for c in CLASSES if c["t"] == 4})
    return classes


def decode(v):
    """Provenance integer -> [[nv, own option, shared option, mixed option], ...] along the dependency chain."""
    out = []
    while v > 0:
        g = v % 10000
        out.insert(0, [g // 1000, g // 100 % 10, g // 10 % 10, g % 10])
        v //= 10000
    return out


def run_history(hist):
    """Execute a history [(a, t, code)] on real contexts; returns the trace with observations."""
    d = tempfile.mkdtemp(prefix="verif_c02_")
    try:
        classes = make_classes()
        first = {t: min(c["uid"] for c in CLASSES if c["t"] == t) for t in TYPE}
        st = strax.Context(storage=[strax.DataDirectory(d)], register=[classes[first[t]] for t in TYPE],
                           allow_multiprocess=False)
        kids = {}
        lineages = {}
        trace = []
        fz, fzo = set(), set()
        for (a, t, code) in hist:
            ev = dict(a=a, t=t, code=code, kid=0, set=[0] * NO)
            with warnings.catch_warnings():
                warnings.simplefilter("ignore")
                if a == "set":
                    if code == 0:
                        st.config.pop(OPT[t], None)
                    else:
                        st.set_config({OPT[t]: PYVAL[code]})
                elif a == "reg":
                    st.register(classes[code])
                elif a == "new":
                    st = st.new_context()
                elif a in ("fz", "fzo"):
                    cur = fz if a == "fz" else fzo
                    (cur.add if code else cur.discard)(t)
                    ev["set"] = [int(k in cur) for k in range(1, NO + 1)]
                    if a == "fz":
                        st.set_context_config(dict(fuzzy_for=tuple(TYPE[k] for k in sorted(fz))))
                    else:
                        st.set_context_config(dict(fuzzy_for_options=tuple(OPT[k] for k in sorted(fzo))))
                elif a in ("get", "key"):
                    try:
                        if a == "get":
                            x = st.get_array("0", TYPE[t], progress_bar=False)
                            ev["code"] = decode(int(x["v"][0])) if len(x) == 1 else [[9, 9, 9, len(x)]]
                        key = st.key_for("0", TYPE[t])
                        h = key.lineage_hash
                        ev["kid"] = kids.setdefault(h, len(kids) + 1)
                        lineages[h] = key.lineage
                    except Exception as e:  # noqa
                        ev["code"] = [[9, 9, 9, 9]]
                        ev["err"] = f"{type(e).__name__}: {e}"[:120]
            trace.append(ev)
        dirs = sorted(x for x in os.listdir(d) if not x.endswith("_temp"))
        return trace, lineages, dirs
    finally:
        shutil.rmtree(d, ignore_errors=True)


def job(hists):
    return [run_history(h) for h in hists]


FUZZY_ACTIONS = ([("fz", t, on) for t in TYPE for on in (1, 0)] + [("fzo", o, on) for o in (1, 2, 3, 5, 6, 7) for on in (1, 0)])
ACTIONS = ([("set", o, v) for o in OPT for v in ((0, 1, 2, 3, 4) if o == 2 else (0, 1, 2))] + [("reg", c["t"], c["uid"]) for c in CLASSES]
           + [("new", 0, 0)] + [("get", t, 0) for t in TYPE] + [("key", t, 0) for t in TYPE])


def histories(tier, seed):
    H_ = []
    # exhaustive: every history get(x); action; get(y) and set/reg; get; set/reg; get shapes
    gets = [("get", t, 0) for t in (2, 3, 4)]
    changes = [a for a in ACTIONS if a[0] in ("set", "reg", "new")]
    for g1 in gets:
        for ch in changes:
            for g2 in gets:
                H_.append([g1, ch, g2])
    for ch1 in changes[::2]:
        for ch2 in changes[1::3]:
            H_.append([("get", 3, 0), ch1, ("key", 2, 0), ch2, ("get", 3, 0), ("get", 2, 0), ("get", 4, 0)])
    # fuzzy matching: store under one lineage, change a tracked option / class of type c, turn fuzzy matching on for a type or an
    # option, read (accepted iff the lineage differs only in the fuzzy parts), turn it off, read again (nothing was written)
    fchanges = [a for a in changes if a[0] in ("set", "reg") and not (a[0] == "set" and a[1] == 4)]
    for ch in (fchanges if tier != "quick" else fchanges[::3]):
        for fa in [f for f in FUZZY_ACTIONS if f[2] == 1]:
            H_.append([("get", 3, 0), ("get", 4, 0), ch, fa, ("get", 3, 0), ("get", 4, 0), ("get", 2, 0), (fa[0], fa[1], 0), ("get", 3, 0)])
    rng = random.Random(seed)
    n = 150 if tier == "quick" else 3000
    for _ in range(n):
        ln = rng.randint(4, 12 if tier == "quick" else 30)
        h = []
        for _ in range(ln):
            a = rng.choice(ACTIONS) if rng.random() < 0.85 else rng.choice(FUZZY_ACTIONS)
            if a[0] in ("set", "reg", "new") and rng.random() < 0.4:
                a = rng.choice(gets)
            h.append(a)
        h.append(("get", 3, 0))
        h.append(("get", 4, 0))
        H_.append(h)
    return H_


def validate(chk, traces):
    ok = 0
    rejected = {}
    CH = 400
    for off in range(0, len(traces), CH):
        part = traces[off:off + CH]
        files = {"MCT.tla": "---- MODULE MCT ----\nEXTENDS LineageTrace\n" + classes_tla() + "====\n",
                 "MCT.cfg": V.cfg_text(dict(Repaired=True, MaxLen=0, ExtraVals=True, FzChoices=set(), FzoChoices=set()),
                                       ["Progress", "NoStaleRead", "KeyIsLineage", "FuzzyAccepts"], spec="TraceSpec",
                                       overrides=dict(Classes="ClassesDef"), extra="PROPERTY NothingWrittenUnderFuzzy\nPOSTCONDITION AllAccepted\n")}
        d = V.stage_spec([], files)
        with open(os.path.join(d, "traces.json"), "w") as f:
            json.dump([[dict(a=e["a"], t=e["t"], code=e["code"], kid=e["kid"], set=e["set"]) for e in tr] for tr in part], f)
        r = V.run_tlc(d, "MCT", "MCT.cfg", workers=1, timeout=1800, env={"TRACE_FILE": os.path.join(d, "traces.json")}, heap="4g")
        chk.add_tlc(r, f"trace validation of {len(part)} histories (LineageTrace.tla)")
        rej = {int(m.group(1)): int(m.group(2)) for m in re.finditer(r'"REJECTED trace", (\d+), "at event", (\d+)', r.out)}
        if r.violated and r.violated not in ("AllAccepted",):
            # an invariant failed along a trace: find which trace by its tid in the error state
            m = re.search(r"tid = (\d+)", r.out)
            m2 = re.search(r"/\\ l = (\d+)", r.out)
            if m:
                rej[int(m.group(1))] = int(m2.group(1)) - 1 if m2 else 0
                rej[(int(m.group(1)), "inv")] = r.violated
        if not (r.ok or rej):
            raise V.MachineryError("LineageTrace failed: " + r.out[-2500:])
        for k, pos in rej.items():
            if isinstance(k, tuple):
                continue
            rejected[off + k - 1] = (pos, rej.get((k, "inv")))
        ok += len(part) - len([k for k in rej if not isinstance(k, tuple)])
    return ok, rejected


HASH_SNIPPET = r"""
import sys, json, warnings
warnings.filterwarnings("ignore")
import strax
from immutabledict import immutabledict
vals = eval(sys.stdin.read())
out = []
for v in vals:
    try:
        out.append(strax.deterministic_hash(v))
    except BaseException as e:
        out.append("ERR:" + type(e).__name__)
print(json.dumps(out))
"""


def hash_stability(chk, lineages):
    """Keys must be identical across processes, hash seeds and option insertion orders."""
    vals = []
    for lin in lineages:
        vals.append(repr(lin))
        # the same lineage with reversed insertion order of every dict
        rev = {k: (v[0], v[1], dict(reversed(list(v[2].items())))) for k, v in reversed(list(lin.items()))}
        vals.append(repr(rev))
    # option values of unordered / nested container shapes inside an otherwise fixed lineage
    shapes = ["{'a': 1, 'b': 2}", "{'b': 2, 'a': 1}", "(1, 2, 3)", "[1, 2]", "'text'", "1.5", "{'x', 'y', 'zz', 'w'}",
              "{'k': {'p', 'q', 'rr', 's'}}", "{3, 1, 2}", "immutabledict({'a': 1, 'b': (1, 2)})", "{'n': {'b': 1, 'a': 2}}"]
    for sh in shapes:
        vals.append("{'mid': ('MidA', '0', {'opt': %s})}" % sh)
    src = "[" + ", ".join(vals) + "]"
    outs = []
    for seed in ("0", "1", "2", "12345"):
        p = subprocess.run(["/venv/bin/python", "-c", HASH_SNIPPET], input=src, capture_output=True, text=True,
                           env=dict(os.environ, PYTHONHASHSEED=seed, PYTHONPATH=os.environ.get("VERIF_REPO", "/repo")), timeout=300)
        if p.returncode != 0:
            raise V.MachineryError("hash subprocess failed: " + p.stderr[-1500:])
        outs.append(json.loads(p.stdout.strip().splitlines()[-1]))
    n_lin = 2 * len(lineages)
    for i in range(len(vals)):
        col = [o[i] for o in outs]
        chk.case(key="hash" + str(i), nontrivial=True)
        if len(set(col)) != 1:
            what = "lineage reached by a history" if i < n_lin else "option value " + shapes[i - n_lin]
            chk.violation(f"C02:key-depends-on-hash-seed:{'lineage' if i < n_lin else shapes[i - n_lin]}",
                          f"deterministic_hash of {vals[i][:200]} differs between processes with different PYTHONHASHSEED: {col} ({what})",
                          dict(value=vals[i]))
    for i in range(0, n_lin, 2):
        if outs[0][i] != outs[0][i + 1]:
            chk.violation("C02:key-depends-on-insertion-order", f"hash of {vals[i][:200]} depends on insertion order", dict(value=vals[i]))
    # distinct shapes that are equal as dicts must agree
    if outs[0][n_lin] != outs[0][n_lin + 1]:
        chk.violation("C02:key-depends-on-insertion-order:option", "dict-valued option hashes depend on insertion order", {})
    chk.extra["hash_values_checked"] = len(vals)


def run(chk):
    V.quiet_threads()
    # design level
    # thorough: histories <= 5 with the plain option values, <= 4 with the values that compare equal in Python added
    runs = ((True, 4, True), (False, 4, True)) if chk.tier == "quick" else ((True, 5, False), (True, 4, True), (False, 4, True))
    for rep, ml, xv in runs:
        files = {"MC.tla": "---- MODULE MC ----\nEXTENDS Lineage\n" + classes_tla() + "FzDef == {{}, {2}}\nFzoDef == {{}, {5}}\n====\n",
                 "MC.cfg": V.cfg_text(dict(Repaired=rep, MaxLen=ml, ExtraVals=xv),
                                      ["NoStaleRead", "KeyIsLineage", "OptionMoves", "ClassMoves", "FuzzyAccepts"],
                                      overrides=dict(Classes="ClassesDef", FzChoices="FzDef", FzoChoices="FzoDef"),
                                      extra="PROPERTY NothingWrittenUnderFuzzy\n")}
        d = V.stage_spec([], files)
        r = V.run_tlc(d, "MC", "MC.cfg", timeout=3600)
        chk.add_tlc(r, f"Lineage.tla histories <= {ml}, Repaired={rep}, ExtraVals={xv}")
        V.tlc_must_finish(r, "Lineage")
        if rep and r.violated:
            chk.extra["design_violation"] = r.violated
        if not rep and not r.violated:
            raise V.MachineryError("Lineage.tla as found satisfies every invariant: no teeth")
    # code level
    hs = histories(chk.tier, chk.seed)
    make_classes()
    res = [x for part in V.pmap(job, V.chunks_of(hs, V.NCPU * 4)) for x in part]
    traces = [r[0] for r in res]
    lineages = {}
    for r in res:
        for tr in r[0]:
            pass
        lineages.update({json.dumps(v, sort_keys=True, default=str): v for v in r[1].values()})
    ok, rejected = validate(chk, traces)
    chk.traces += ok
    chk.rule = ("history = sequence over {set_config(tracked / untracked option, value or unset), register(class variant: other default, "
                "version, class name), new_context, get_array, key_for} on a 3-type chain sharing one DataDirectory; all histories of the "
                "shapes get-change-get plus seeded random histories of length <= 12 (quick) / 30 (thorough); non-trivial = contains a "
                "change between two gets")
    for i, h in enumerate(hs):
        chk.case(key=json.dumps(h), nontrivial=True)
        if i in rejected:
            pos, inv = rejected[i]
            tr = traces[i]
            ev = tr[pos - 1] if 0 < pos <= len(tr) else tr[-1]
            pre = [e["a"] + str(e["t"]) + (":" + str(e["code"]) if e["a"] in ("set", "reg") else "") for e in tr[:pos]]
            kind = "stale-or-wrong-data" if ev["a"] == "get" else "key"
            # signature: the shortest description of the step that broke: the last change before the failing get
            last_change = next((e for e in reversed(tr[:pos - 1]) if e["a"] in ("set", "reg", "new")), None)
            lc = f"{last_change['a']}:{last_change['t']}:{last_change['code']}" if last_change else "none"
            chk.violation(f"C02:{kind}:after:{lc}:get:{ev['t']}",
                          f"history {pre} is not a behaviour of Lineage.tla at event {pos} ({ev}){' invariant ' + inv if inv else ''}: "
                          f"the real context returned provenance {ev['code']} / key #{ev['kid']}", dict(history=h))
    chk.sample(dict(history=hs[5], trace=traces[5]))
    chk.sample(dict(history=hs[-1][:8], trace=traces[-1][:8]))
    hash_stability(chk, list(lineages.values()))
    chk.extra["distinct_lineages_reached"] = len(lineages)
    chk.assumptions += ["classes with the same name and version are the same code (strax's contract): provenance carries name+version, "
                        "effective tracked option values and the input's provenance", "untracked options do not influence the output"]


def replay(chk, path):
    rp = json.load(open(path))["replay"]
    if "history" in rp:
        tr, _, _ = run_history([tuple(x) for x in rp["history"]])
        chk2 = V.Check("C02", "quick", 0)
        ok, rej = validate(chk2, [tr])
        print(tr, "->", "REJECTED" if rej else "accepted")
        return 1 if rej else 0
    print(rp)
    return 0
