"""C14: a superrun is exactly the ordered concatenation of its subruns.

Superruns are defined from 1..4 subruns with differing chunk layouts on real run metadata; the
superrun-capable level of a 3-plugin chain is varied (combining at the source level or one level
up), data is combined on the fly or written and re-read as a stored superrun (with rechunking across
subrun borders), on both processors.  The yielded / stored chunks with their subruns annotations
are recorded and judged by TLC against spec/SuperrunObs.tla (ordered concatenation, annotation =
exactly the subruns and spans each chunk was built from, spans tile each subrun) together with
"redefining the superrun makes stored superrun data unavailable".  The annotation algebra itself
(split / concatenate of sub-run annotations) is model-checked in spec/Chunks.tla (see C07).
"""
import datetime
import itertools
import json
import os
import re
import shutil
import tempfile
import logging
import warnings
import numpy as np
import pytz
from bson import json_util
import vcommon as V

logging.disable(logging.CRITICAL)
import strax  # noqa: E402
import hplugins as H  # noqa: E402

LAYOUTS = {
    "one": lambda t0: [dict(s=t0, e=t0 + 20, rows=[[t0 + 1, t0 + 3, 1], [t0 + 5, t0 + 8, 2], [t0 + 12, t0 + 15, 3]])],
    "two": lambda t0: [dict(s=t0, e=t0 + 10, rows=[[t0 + 1, t0 + 3, 1], [t0 + 5, t0 + 8, 2]]),
                       dict(s=t0 + 10, e=t0 + 20, rows=[[t0 + 12, t0 + 15, 3]])],
    "three": lambda t0: [dict(s=t0, e=t0 + 4, rows=[[t0 + 1, t0 + 3, 1]]), dict(s=t0 + 4, e=t0 + 4, rows=[]),
                         dict(s=t0 + 4, e=t0 + 20, rows=[[t0 + 5, t0 + 8, 2], [t0 + 12, t0 + 15, 3]])],
    "empty_last": lambda t0: [dict(s=t0, e=t0 + 16, rows=[[t0 + 1, t0 + 3, 1], [t0 + 5, t0 + 8, 2], [t0 + 12, t0 + 15, 3]]),
                              dict(s=t0 + 16, e=t0 + 20, rows=[])],
}
SPACING = 100


def build(d, run_layouts, mid_super, rechunk, write_superruns, top_overlap=False):
    """run_layouts: {run_id: (t0, layout name)}; top_overlap: False, or the window w of an OverlapWindowPlugin as the top plugin (True = 2;
    with w = 3 the point where the plugin cuts its result lies inside a row, so the cut is moved: Chunk.split(allow_early_split=True))"""
    w = 2 if top_overlap is True else int(top_overlap)
    chunks_by_run = {r: LAYOUTS[name](t0) for r, (t0, name) in run_layouts.items()}

    class Src(strax.Plugin):
        provides = ("src",)
        depends_on = ()
        dtype = H.ROW
        data_kind = "src"
        rechunk_on_save = False
        allow_superrun = False

        def source_finished(self):
            return True

        def is_ready(self, chunk_i):
            return chunk_i < len(chunks_by_run[self.run_id])

        def compute(self, chunk_i):
            c = chunks_by_run[self.run_id][chunk_i]
            return self.chunk(start=c["s"], end=c["e"], data=H.rows_to_array(c["rows"]))
    mid = H.rowmap("mid", "src", rechunk_on_save=rechunk)
    mid.allow_superrun = mid_super
    top = H.overlap("top", "mid", w, w, rechunk_on_save=rechunk) if top_overlap else H.rowmap("top", "mid", mul=2, add=0, rechunk_on_save=rechunk)
    top.allow_superrun = True
    st = strax.Context(storage=[strax.DataDirectory(d, provide_run_metadata=True, deep_scan=True)], register=[Src, mid, top],
                       allow_multiprocess=False, timeout=120)
    st.set_context_config({"write_superruns": write_superruns, "use_per_run_defaults": False})
    return st, chunks_by_run


def write_run_docs(st, run_layouts):
    base = datetime.datetime(2020, 1, 1, tzinfo=pytz.utc)
    for r, (t0, name) in run_layouts.items():
        doc = dict(name=r, start=base + datetime.timedelta(seconds=t0), end=base + datetime.timedelta(seconds=t0 + 20), mode="m", source="s")
        with open(st.storage[0]._run_meta_path(str(r)), "w") as fp:
            json.dump(doc, fp, sort_keys=True, indent=4, default=json_util.default)


def expected_rows(chunks, target):
    rows = [r for c in chunks for r in c["rows"]]
    m = H.expected_map(rows)
    if target == "top":
        m = [[r[0], r[1], 2 * r[2]] for r in m]
    return m


def chunk_obs(ch):
    runs = []
    if ch.subruns:
        runs = [dict(run=k, s=int(v["start"]), e=int(v["end"])) for k, v in ch.subruns.items()]
    return dict(s=ch.start, e=ch.end, rows=[[int(r["time"]), int(strax.endtime(r))] for r in ch.data], runs=runs,
                v=[int(x) for x in ch.data["v"]])


def scenario(arg):
    order, layouts, mid_super, rechunk, write, processor, target = arg[:7]
    id_order_is_start_order = arg[7] if len(arg) > 7 else True
    top_overlap = arg[8] if len(arg) > 8 else False
    d = tempfile.mkdtemp(prefix="verif_c14_")
    res = dict(arg=arg, err=None, obs=[], extra=[])
    try:
        # run ids in definition order `order`; start times by index in sorted order of id
        # start times increase with the run id, or (second family) decrease: the subruns are ordered by run start, not by name
        run_layouts = {r: (SPACING * (int(r) if id_order_is_start_order else 9 - int(r)), layouts[i % len(layouts)]) for i, r in enumerate(order)}
        st, chunks_by_run = build(d, run_layouts, mid_super, rechunk, write, top_overlap)
        write_run_docs(st, run_layouts)

        def want_v(runs_in_order):
            if not (top_overlap and target == "top"):
                return [x[2] for r in runs_in_order for x in expected_rows(chunks_by_run[r], target)]
            rows = [x for r in runs_in_order for x in expected_rows(chunks_by_run[r], "mid")]      # window-local count over the whole superrun
            w = 2 if top_overlap is True else int(top_overlap)
            return [sum(1 for y in rows if y[0] >= x[0] - w and y[1] <= x[1] + w) for x in rows]
        with warnings.catch_warnings():
            warnings.simplefilter("ignore")
            st.define_run("_sup", data=list(order))
            by_start = sorted(order, key=lambda r: run_layouts[r][0])
            subs = [dict(run=r, chunks=[dict(s=c["s"], e=c["e"], rows=[[x[0], x[1]] for x in c["rows"]]) for c in chunks_by_run[r]])
                    for r in by_start]
            exp_v = want_v(by_start)
            chunks = [chunk_obs(c) for c in st.get_iter("_sup", target, processor=processor, progress_bar=False)]
            got_v = [v for c in chunks for v in c["v"]]
            if got_v != exp_v:
                res["extra"].append(f"superrun payloads {got_v} != ordered concatenation of the subruns' {exp_v}")
            obs = dict(subs=subs, out=[dict(s=c["s"], e=c["e"], rows=c["rows"], runs=c["runs"]) for c in chunks], redefined_gone=True)
            res["obs"].append(("on the fly" if not write else "written while iterating", obs))
            if write:
                if not st.is_stored("_sup", target):
                    res["extra"].append("write_superruns is on but the superrun data type is not stored")
                else:
                    st2, _ = build(d, run_layouts, mid_super, rechunk, write, top_overlap)
                    chunks2 = [chunk_obs(c) for c in st2.get_iter("_sup", target, processor=processor, progress_bar=False)]
                    if [v for c in chunks2 for v in c["v"]] != exp_v:
                        res["extra"].append("stored superrun re-read differs from the ordered concatenation")
                    md = st2.get_metadata("_sup", target)
                    for cm, co in zip(md["chunks"], chunks2):
                        want = {k["run"]: dict(start=k["s"], end=k["e"]) for k in co["runs"]}
                        if (cm.get("subruns") or {}) != want:
                            res["extra"].append(f"stored chunk metadata subruns {cm.get('subruns')} != chunk annotation {want}")
                    gone = True
                    if len(order) > 1:
                        st2.define_run("_sup", data=list(order)[:-1])
                        gone = not st2.is_stored("_sup", target)
                        st2.define_run("_sup", data=list(order))
                    res["obs"].append(("stored and re-read", dict(subs=subs, out=[dict(s=c["s"], e=c["e"], rows=c["rows"], runs=c["runs"])
                                                                                   for c in chunks2], redefined_gone=gone)))
            # redefinition in the context that has already used the superrun (define_run accepts the name with or without the leading
            # underscore): what it then delivers is the concatenation of the *new* subrun list, never the previous definition's data
            if len(order) > 1:
                name = "sup" if (len(order) + int(bool(mid_super)) + int(bool(write))) % 2 else "_sup"
                new_order = list(order)[:-1]
                st.define_run(name, data=new_order)
                gone = (not st.is_stored("_sup", target)) if write else True
                by_start2 = sorted(new_order, key=lambda r: run_layouts[r][0])
                subs2 = [dict(run=r, chunks=[dict(s=c["s"], e=c["e"], rows=[[x[0], x[1]] for x in c["rows"]]) for c in chunks_by_run[r]])
                         for r in by_start2]
                exp2 = want_v(by_start2)
                chunks3 = [chunk_obs(c) for c in st.get_iter("_sup", target, processor=processor, progress_bar=False)]
                if [v for c in chunks3 for v in c["v"]] != exp2:
                    res["extra"].append(f"after redefining the superrun as {new_order} (define_run({name!r})) the same context delivers payloads "
                                        f"{[v for c in chunks3 for v in c['v']]}, the new definition's subruns give {exp2}")
                res["obs"].append((f"after redefinition via define_run({name!r})",
                                   dict(subs=subs2, out=[dict(s=c["s"], e=c["e"], rows=c["rows"], runs=c["runs"]) for c in chunks3], redefined_gone=gone)))
    except Exception as e:  # noqa
        import traceback
        res["err"] = f"{type(e).__name__}: {e}"[:300]
    finally:
        shutil.rmtree(d, ignore_errors=True)
    return res


# ----------------------------------------------------------------------------- definition histories (Superrun.tla)
HIST_SUBS = ("0", "1", "2")


def gen_super_history(rng, length):
    ops = []
    defined = False
    while len(ops) < length:
        k = rng.choice(["define", "get", "get", "is_stored", "new"]) if defined else "define"
        if k == "define":
            n = rng.randint(1, len(HIST_SUBS))
            subs = rng.sample(HIST_SUBS, n)
            ops.append(dict(a="define", subs=subs, name=rng.choice(["_sup", "sup"])))
            defined = True
        else:
            ops.append(dict(a=k))
    return ops


def run_super_history(arg):
    write, ops, mid_super = arg
    d = tempfile.mkdtemp(prefix="verif_c14h_")
    events = []
    err = None
    try:
        run_layouts = {r: (SPACING * int(r), ("two", "one", "three")[int(r)]) for r in HIST_SUBS}
        st, chunks_by_run = build(d, run_layouts, mid_super, False, write)
        write_run_docs(st, run_layouts)
        # row payloads identify (subrun, index)
        ident = {}
        for r in HIST_SUBS:
            for i, x in enumerate(expected_rows(chunks_by_run[r], "top"), 1):
                ident[(x[0], x[1], x[2])] = [int(r) + 1, i]
        with warnings.catch_warnings():
            warnings.simplefilter("ignore")
            for op in ops:
                ev = dict(a=op["a"], subs=[], rows=[], annot=[])
                ev["is"] = False
                try:
                    if op["a"] == "define":
                        st.define_run(op["name"], data=list(op["subs"]))
                        ev["subs"] = [int(r) + 1 for r in op["subs"]]
                    elif op["a"] == "get":
                        chunks = list(st.get_iter("_sup", "top", progress_bar=False))
                        for c in chunks:
                            for x in c.data:
                                ev["rows"].append(ident.get((int(x["time"]), int(strax.endtime(x)), int(x["v"])), [0, 0]))
                            for k in (c.subruns or {}):
                                if int(k) + 1 not in ev["annot"]:
                                    ev["annot"].append(int(k) + 1)
                    elif op["a"] == "is_stored":
                        ev["is"] = bool(st.is_stored("_sup", "top"))
                    else:
                        st = st.new_context()
                except Exception as e:  # noqa
                    err = f"{op}: {type(e).__name__}: {e}"[:300]
                    break
                events.append(ev)
        return dict(write=write, ops=ops, mid_super=mid_super, events=events, err=err)
    finally:
        shutil.rmtree(d, ignore_errors=True)


def histories(chk):
    """spec/Superrun.tla model-checked over all histories of the bound; seeded random histories of define_run (both name spellings) /
    get / is_stored / new_context executed on real contexts and validated by TLC (SuperrunTrace.tla)."""
    import random
    quick = chk.tier == "quick"
    cfg = f"CONSTANTS NSub = 3 RowsPer = 2 MaxLen = {4 if quick else 5}\n"
    d = V.stage_spec(["Superrun"], {"Superrun.cfg": "SPECIFICATION Spec\n" + cfg + "INVARIANT ExactConcatenation\nINVARIANT RedefinedGone\n"
                                                    "INVARIANT OrderedByStart\nCHECK_DEADLOCK FALSE\n"})
    r = V.run_tlc(d, "Superrun", "Superrun.cfg", workers=4, timeout=1800)
    chk.add_tlc(r, "Superrun.tla: all definition / use histories of the bound")
    V.tlc_must_finish(r, "Superrun")
    if r.violated:
        raise V.MachineryError(f"Superrun.tla violates {r.violated}")
    rng = random.Random(chk.seed + 14)
    work = [(bool(i % 2), gen_super_history(rng, rng.randint(4, 8)), bool(i % 3 == 0)) for i in range(24 if quick else 160)]
    res = V.pmap(run_super_history, work)
    d = V.stage_spec(["Superrun", "SuperrunTrace"], {"MCT.tla": "---- MODULE MCT ----\nEXTENDS SuperrunTrace\n====\n",
                                                      "MCT.cfg": "SPECIFICATION TraceSpec\nCONSTANTS NSub = 3 RowsPer = 3 MaxLen = 0\nINVARIANT Progress\n"
                                                                 "INVARIANT ExactConcatenation\nINVARIANT RedefinedGone\nINVARIANT OrderedByStart\n"
                                                                 "POSTCONDITION AllAccepted\nCHECK_DEADLOCK FALSE\n"})
    with open(os.path.join(d, "traces.json"), "w") as f:
        json.dump([dict(write=rr["write"], events=rr["events"]) for rr in res], f)
    r = V.run_tlc(d, "MCT", "MCT.cfg", workers=1, timeout=1800, env={"TRACE_FILE": os.path.join(d, "traces.json")})
    chk.add_tlc(r, f"trace validation of {len(res)} real superrun definition histories against Superrun.tla")
    rej = {int(a): int(b) for a, b in re.findall(r'REJECTED trace", (\d+), "at event", (\d+)', r.out)}
    if not r.ok and not rej:
        raise V.MachineryError("SuperrunTrace failed to run: " + r.out[-2000:])
    for i, rr in enumerate(res, 1):
        txt = " ; ".join(o["a"] + (f"({o['name']},{o['subs']})" if o["a"] == "define" else "") for o in rr["ops"])
        chk.case(key=json.dumps([rr["write"], rr["ops"]]), nontrivial=sum(o["a"] == "define" for o in rr["ops"]) > 1)
        if rr["err"]:
            chk.violation(f"C14:history:raises:{txt}", f"superrun history (write_superruns={rr['write']}) {txt} raised {rr['err']}",
                          dict(history=[rr["write"], rr["ops"], rr["mid_super"]]))
        elif i in rej:
            ev = rej[i]
            chk.violation(f"C14:history:rejected:{txt}:event{ev}",
                          f"real superrun history (write_superruns={rr['write']}) {txt} is not a behaviour of spec/Superrun.tla: rejected at event {ev}: "
                          f"{json.dumps(rr['events'][ev - 1]) if 0 < ev <= len(rr['events']) else ''}", dict(history=[rr["write"], rr["ops"], rr["mid_super"]]))
        else:
            chk.traces += 1
    chk.extra["definition_histories"] = len(res)


def run(chk):
    V.quiet_threads()
    quick = chk.tier == "quick"
    histories(chk)
    work = []
    orders = [("0",), ("0", "1"), ("1", "0"), ("0", "1", "2"), ("2", "0", "1")] + ([] if quick else [("0", "1", "2", "3"), ("3", "1", "0", "2")])
    lays = [("one",), ("two", "one"), ("three", "two", "empty_last"), ("one", "three")]
    for order in orders:
        for li, lay in enumerate(lays):
            for mid_super in (False, True):
                for rechunk, write in ((False, False), (True, True), (False, True)):
                    for processor in ("single_thread", "threaded_mailbox"):
                        for target in ("top", "mid") if mid_super else ("top",):
                            if quick and (li + len(order) + int(mid_super) + int(write)) % 2 == 1 and len(order) > 1:
                                continue
                            work.append((order, lay, mid_super, rechunk, write, processor, target, True))
                            if len(order) > 1 and li < 2 and target == "top":
                                work.append((order, lay, mid_super, rechunk, write, processor, target, False))
                            # the superrun-capable level is an overlap-window plugin (its results are split and cached across chunk borders)
                            if len(order) > 1 and li in (1, 2) and target == "top":
                                work.append((order, lay, mid_super, rechunk, write, processor, target, True, True))
                                work.append((order, lay, mid_super, rechunk, write, processor, target, True, 3))
    res = V.pmap(scenario, work)
    obs, idx = [], []
    for i, rr in enumerate(res):
        chk.case(key=json.dumps(rr["arg"]), nontrivial=len(rr["arg"][0]) > 1)
        a = rr["arg"]
        name = (f"subruns={a[0]} layouts={a[1]} mid_allows_superrun={a[2]} rechunk={a[3]} write_superruns={a[4]} {a[5]} target={a[6]}"
                + ("" if a[7] else " run-ids-in-reverse-start-order") + (f" top=overlap-window({2 if a[8] is True else a[8]})" if len(a) > 8 and a[8] else ""))
        if rr["err"]:
            chk.violation(f"C14:raises:{rr['err'].split(':')[0]}:{json.dumps(a)}", f"{name}: raised {rr['err']}", dict(arg=a))
            continue
        for e in rr["extra"]:
            chk.violation(f"C14:{e[:50]}:{json.dumps(a)}", f"{name}: {e}", dict(arg=a))
        for how, o in rr["obs"]:
            obs.append(o)
            idx.append((i, how))
    d = V.stage_spec(["Chunks", "SuperrunObs"], {"SuperrunObs.cfg": "SPECIFICATION Spec\nINVARIANT Accepted\nCHECK_DEADLOCK FALSE\n"})
    with open(os.path.join(d, "obs.json"), "w") as f:
        json.dump(obs, f)
    r = V.run_tlc(d, "SuperrunObs", workers=4, timeout=1800, env={"TRACE_FILE": os.path.join(d, "obs.json")}, args=["-continue"])
    chk.add_tlc(r, f"P-level validation of {len(obs)} superrun observations (SuperrunObs.tla)")
    if not (r.ok or r.violated):
        raise V.MachineryError("SuperrunObs failed: " + r.out[-2000:])
    for k in sorted({int(m.group(1)) for m in re.finditer(r"tid = (\d+)", r.out)}):
        i, how = idx[k - 1]
        a = res[i]["arg"]
        chk.violation(f"C14:annotation-or-order:{how}:{json.dumps(a)}", f"subruns={a[0]} layouts={a[1]} mid_allows_superrun={a[2]} rechunk={a[3]} "
                      f"write={a[4]} {a[5]} target={a[6]} ({how}): observation {obs[k - 1]} violates C14", dict(arg=a))
    chk.traces += len(obs)
    if obs:
        chk.sample(dict(scenario=res[idx[len(obs) // 2][0]]["arg"], observation=obs[len(obs) // 2]))
    chk.rule = ("scenario = definition order of 1..4 subruns x chunk layouts per subrun (1..3 chunks, empty and zero-duration chunks) x level at which "
                "superrun processing starts x rechunking across borders x write_superruns x processor x target; observations: chunks yielded on "
                "the fly, chunks of the stored superrun re-read, stored chunk metadata, is_stored after redefinition; non-trivial = more than "
                "one subrun")
    chk.assumptions += ["run start times come from run metadata documents written by the harness; subruns do not overlap in time"]


def replay(chk, path):
    rp = json.load(open(path))["replay"]
    if "history" in rp:
        rr = run_super_history((rp["history"][0], rp["history"][1], rp["history"][2]))
        for e in rr["events"]:
            print(json.dumps(e)[:400])
        print("error:", rr["err"], "(validate with bin/check C14: the history is judged by TLC against Superrun.tla)")
        return 1 if rr["err"] else 0
    a = rp["arg"]
    rr = scenario((tuple(a[0]), tuple(a[1]), a[2], a[3], a[4], a[5], a[6], a[7] if len(a) > 7 else True, a[8] if len(a) > 8 else False))
    print(rr["err"], rr["extra"], rr["obs"][:1])
    return 1 if (rr["err"] or rr["extra"]) else 0
