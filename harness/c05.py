"""C05: a mailbox delivers every message exactly once, in order, to every subscriber.

spec/Mailbox.tla is model-checked for every configuration of the tier (all schedules), its state
graph is dumped, and every edge of the graph is replayed on the real strax.Mailbox under the
deterministic scheduler (lock-step: projected state and enabled-thread set compared after each
step).  Real executions under seeded random schedules are recorded and validated by TLC against
the same specification (MailboxTrace.tla).  Verdicts are taken at P-level only.
"""
import itertools
import json
import os
import random
import re
import sys
import time
import logging

import vcommon as V
import dsched

logging.disable(logging.CRITICAL)
import strax  # noqa: E402
import strax.mailbox as mbmod  # noqa: E402

NONE = 99
_SHIM = dsched.make_threading_shim()


def install():
    mbmod.threading = _SHIM
    mbmod.Future = dsched.DFuture if False else mbmod.Future   # DFuture subclasses Future: isinstance ok


# ----------------------------------------------------------------------------- configurations
def displacement(perm):
    return max([abs(p - n) for p, n in enumerate(perm)] or [0])


def cfg_name(c):
    return (f"N{c['NMsg']}S{c['NSub']}C{c['Cap']}{'L' if c['Lazy'] else 'E'}"
            f"D{''.join('1' if d else '0' for d in c['Drive'])}{c['Mode'][0]}"
            f"P{''.join(map(str, c['Perm']))}F{''.join(map(str, sorted(c['Fut'])))}" + ("K" if c.get("Kill") else ""))


def all_configs(max_msg, max_sub, caps, perm_msgs=3, fut=True):
    out = []
    for nsub in range(1, max_sub + 1):
        for nmsg in range(0, max_msg + 1):
            # eager, iterable sender
            for cap in caps:
                out.append(dict(NMsg=nmsg, NSub=nsub, Cap=cap, Lazy=False, Drive=[True] * nsub,
                                Mode="iter", Perm=[], Fut=[]))
            # lazy, every driver mask with at least one driver
            for mask in itertools.product([True, False], repeat=nsub):
                if any(mask):
                    out.append(dict(NMsg=nmsg, NSub=nsub, Cap=1, Lazy=True, Drive=list(mask),
                                    Mode="iter", Perm=[], Fut=[]))
            # explicit numbering, every permutation whose displacement is below the capacity
            if 2 <= nmsg <= perm_msgs:
                for perm in itertools.permutations(range(nmsg)):
                    if list(perm) == sorted(perm):
                        continue
                    for cap in caps:
                        if displacement(perm) < cap:
                            out.append(dict(NMsg=nmsg, NSub=nsub, Cap=cap, Lazy=False, Drive=[True] * nsub,
                                            Mode="perm", Perm=list(perm), Fut=[]))
            # futures
            if fut and 1 <= nmsg <= 3 and nsub <= 2:
                for futs in ([0], [nmsg - 1], list(range(nmsg))):
                    for lazy in (False, True):
                        c = dict(NMsg=nmsg, NSub=nsub, Cap=2, Lazy=lazy, Drive=[True] * nsub,
                                 Mode="iter", Perm=[], Fut=sorted(set(futs)))
                        if c not in out:
                            out.append(c)
    return out


def mc_files(c, graph=True):
    mc = f"""---- MODULE MC ----
EXTENDS Mailbox
DriveDef == {V.to_tla(tuple(c['Drive']))}
PermDef == {V.to_tla(tuple(c['Perm']))}
FutDef == {V.to_tla(set(c['Fut']))}
====
"""
    cfg = f"""SPECIFICATION Spec
CONSTANTS NMsg = {c['NMsg']} NSub = {c['NSub']} Cap = {c['Cap']} Lazy = {V.to_tla(c['Lazy'])} Mode = "{c['Mode']}" RepairedFetch = {V.to_tla(c.get('RepairedFetch', True))} WithKill = {V.to_tla(bool(c.get('Kill')))}
Drive <- DriveDef
Perm <- PermDef
Fut <- FutDef
INVARIANT TypeOK
INVARIANT CapInv
INVARIANT InOrder
INVARIANT Complete
INVARIANT NoError
INVARIANT NoDeadlock
PROPERTY Termination
CHECK_DEADLOCK FALSE
"""
    return {"MC.tla": mc, "MC.cfg": cfg}


# ----------------------------------------------------------------------------- implementation under dsched
class MbRun:
    """The real strax.Mailbox with the configuration's threads, under dsched, stepped manually."""

    def __init__(self, c):
        install()
        self.c = c
        nmsg, nsub = c["NMsg"], c["NSub"]
        self.got = {i: [] for i in range(nsub)}
        self.sender_error = None
        self.advances = []
        s = self.s = dsched.set_sched(dsched.Sched())
        outer = self
        self.futs = {n: dsched.DFuture() for n in c["Fut"]}

        def payload(n):
            return self.futs[n] if n in self.futs else n

        class Src:
            def __init__(self):
                self.i = 0

            def __iter__(self):
                return self

            def __next__(self):
                s.yield_point(("step", "SNext"))
                outer.advances.append(outer.demand())
                if self.i >= nmsg:
                    raise StopIteration
                self.i += 1
                return payload(self.i - 1)

            def throw(self, e):
                raise e

        def main():
            mb = outer.mb = strax.Mailbox(name="mb", lazy=c["Lazy"], max_messages=c["Cap"], timeout=None)
            if c["Mode"] == "iter":
                mb.add_sender(Src(), name="S")
            else:
                def sender():
                    try:
                        for n in c["Perm"]:
                            mb.send(payload(n), msg_number=n)
                        mb.close()
                    except Exception as e:  # noqa
                        outer.sender_error = e
                mb._threads.append(_SHIM.Thread(target=sender, name="S"))
            for i in range(nsub):
                def rd(src, i=i):
                    for x in src:
                        s.yield_point(("step", "RYield"))
                        outer.got[i].append(x)
                mb.add_reader(rd, name=f"R{i + 1}", can_drive=c["Drive"][i])
            for n, f in self.futs.items():
                def w(n=n, f=f):
                    s.yield_point(("step", "W"))
                    f.set_result(n)
                mb._threads.append(_SHIM.Thread(target=w, name=f"W{n}"))
            if c.get("Kill"):
                # what the processor's main thread / a failing neighbour does, at an arbitrary moment
                mb._threads.append(_SHIM.Thread(target=lambda: mb.kill(upstream=True, reason=(RuntimeError, RuntimeError("killed by K"), None)),
                                                name="K"))
            mb.start()
            mb.cleanup()
        self.maintask = s.spawn("main", main)
        while True:                        # run main until it blocks in join (all threads created)
            s.step(self.maintask)
            if self.maintask.state == "done" or (self.maintask.want and self.maintask.want[0] == "join"):
                break
        for t in list(s.tasks):
            if t.want and t.want[0] == "start":
                s.step(t)

    def step_named(self, name):
        t = self.s.task(name)
        if not self.s.enabled(t):
            return False
        self.s.step(t)
        return True

    def enabled_names(self):
        return sorted(t.name for t in self.s.tasks if t.name != "main" and self.s.enabled(t))

    def project(self):
        mb = self.mb
        return dict(box=frozenset(n for n, _ in mb._mailbox),
                    haveRead=tuple(x + 1 for x in mb._subscribers_have_read),
                    waitFor=tuple(NONE if x is None else x for x in mb._subscriber_waiting_for),
                    nSent=mb._n_sent, closed=mb.closed, killed=mb.killed, force=bool(mb.force_killed),
                    got=tuple(tuple(self.got[i]) for i in range(self.c["NSub"])),
                    futDone=frozenset(n for n, f in self.futs.items() if f.done()))

    def demand(self):
        """Is a driving subscriber waiting for a message that has not been produced yet? (C13, lazy mode)"""
        mb = self.mb
        box = {n for n, _ in mb._mailbox}
        return bool(mb.killed or any(d and w is not None and w not in box
                                     for d, w in zip(mb._subscriber_can_drive, mb._subscriber_waiting_for)))

    def wants(self):
        d = {}
        for t in self.s.tasks:
            if t.name != "main":
                d[t.name] = "done" if t.state == "done" else t.want[0]
        return d

    def close(self):
        self.s.abort()


WANT_OF_PC = dict(rekill="lock", gate="lock", wfetch="cond", next="step", send="lock", close="lock", wwrite="cond",
                  wwriteC="cond", done="done", error="done", top="lock", wread="cond", fwait="future")
WANT_OF_PC["yield"] = "step"


def thread_of(action):
    if action.startswith("S"):
        return "S"
    if action.startswith("K"):
        return "K"
    k = re.search(r"\((\d+)\)", action).group(1)
    return ("W" if action.startswith("W") else "R") + k


def trace_threads(trace):
    """Acting thread of every step of a TLC error trace (action names there carry no parameters)."""
    out = []
    for (a0, s0), (a1, s1) in zip(trace, trace[1:]):
        if a1.startswith("S"):
            out.append("S")
        elif a1.startswith("K"):
            out.append("K")
        elif a1.startswith("W"):
            (n,) = set(s1["futDone"]) - set(s0["futDone"])
            out.append(f"W{n}")
        else:
            who = None
            for i in range(len(s1["rpc"])):
                if any(s0[k][i] != s1[k][i] for k in ("rpc", "rnext", "ryield", "got", "waitFor", "haveRead")):
                    who = i + 1
            if who is None:
                for (t, f) in s0["wRead"]:
                    if f and (t, False) in s1["wRead"]:
                        who = t
            out.append(f"R{who}")
    return out


def compare(spec_state, run, c):
    """P+I projection comparison. Returns list of differing fields."""
    pr = run.project()
    diffs = [k for k, v in pr.items() if spec_state[k] != v]
    w = run.wants()
    exp = {"S": WANT_OF_PC[spec_state["spc"]]}
    for i, pc in enumerate(spec_state["rpc"]):
        exp[f"R{i + 1}"] = WANT_OF_PC[pc]
    for n in c["Fut"]:
        exp[f"W{n}"] = "done" if n in spec_state["futDone"] else "step"
    if c.get("Kill"):
        exp["K"] = "done" if spec_state["kpc"] == "done" else "lock"
    if exp != w:
        diffs.append(f"pc:{exp}!={w}")
    return diffs, pr


# ----------------------------------------------------------------------------- P-level judgement of real runs
def p_judge(c, got, maxbox, hang, error):
    """The property's own clauses evaluated on an observed real execution."""
    bad = []
    want = list(range(c["NMsg"]))
    if c.get("Kill") and type(error).__name__ == "MailboxKilled":
        error = None                # how a killed mailbox ends its threads
    killed = bool(c.get("Kill"))
    if hang:
        bad.append("hang: no thread can run but not all finished: " + str(hang))
    if error:
        bad.append("error: " + repr(error))
    for i, g in got.items():
        if g != want[:len(g)]:
            bad.append(f"subscriber {i + 1} received {g}: not in order / not exactly once")
        elif not hang and not error and not killed and g != want:
            bad.append(f"subscriber {i + 1} terminated with {g}, expected {want}")
    if not c["Lazy"] and maxbox > c["Cap"]:
        bad.append(f"eager mailbox held {maxbox} > capacity {c['Cap']}")
    return bad


def run_schedule(c, chooser, record=None, prefix=()):
    """Run the real mailbox to completion under a chooser; returns P-level verdict list."""
    r = MbRun(c)
    maxbox = 0
    hang = None
    try:
        for name in prefix:
            if not r.step_named(name):
                break
            maxbox = max(maxbox, len(r.mb._mailbox))
        steps = 0
        while True:
            en = [t for t in r.s.enabled_tasks()]
            if not en:
                if not r.s.all_done():
                    hang = [(t.name, t.want and t.want[0]) for t in r.s.tasks if t.state != "done"]
                break
            t = chooser(en)
            r.s.step(t)
            steps += 1
            maxbox = max(maxbox, len(r.mb._mailbox))
            if record is not None and t.name != "main":
                record.append(dict(k=t.name[0], i=int(t.name[1:] or 0), **jsonable(r.project())))
            if steps > 5000:
                hang = "step limit"
                break
        err = r.sender_error
        for t in r.s.tasks:
            if t.exc is not None and not isinstance(t.exc, dsched.Abort):
                if c.get("Kill") and type(t.exc).__name__ == "MailboxKilled":
                    continue            # how a killed mailbox ends its threads
                err = err or t.exc
        got = {i: list(v) for i, v in r.got.items()}
    finally:
        sched_trace = list(r.s.trace)
        r.close()
    return p_judge(c, got, maxbox, hang, err), sched_trace


def jsonable(p):
    return {k: (sorted(v) if isinstance(v, frozenset) else [list(x) if isinstance(x, tuple) else x for x in v]
                if isinstance(v, tuple) else v) for k, v in p.items()}


# ----------------------------------------------------------------------------- per-configuration job
def job(arg):
    c, tier, seed, edge_budget = arg
    name = cfg_name(c)
    res = dict(name=name, cfg=c, states=0, transitions=0, paths=0, steps=0, drift=[], violations=[],
               tlc=None, sample=None, nontrivial=0, random_runs=0, trace_records=[])
    d = V.stage_spec(["Mailbox"], mc_files(c))
    dot = os.path.join(d, "g.dot")
    r = V.run_tlc(d, "MC", "MC.cfg", workers=1, args=["-dump", "dot,actionlabels", dot], timeout=2700, heap="3g")
    res["tlc"] = dict(generated=r.generated, distinct=r.distinct, depth=r.depth, ok=r.ok, violated=r.violated,
                      deadlock=r.deadlock, wall=r.wall)
    res["states"], res["transitions"] = r.distinct, r.generated
    if not (r.ok or r.violated or r.deadlock):
        res["machinery"] = "TLC failed: " + r.out[-1500:]
        return res
    if r.violated or r.deadlock:
        # design-level counterexample: replay on the real code, judge at P-level
        path = trace_threads(r.trace)
        bad, tr = run_schedule(c, lambda en: en[0], prefix=path)
        if bad:
            res["violations"].append(dict(sig=f"C05:{name}:spec-{r.violated or 'deadlock'}", text="; ".join(bad),
                                          replay=dict(cfg=c, schedule=path)))
        else:
            res["machinery"] = f"TLC reports {r.violated or 'deadlock'} on {name} but the real code does not follow"
        return res
    nodes, edges, inits = V.load_dot_graph(dot)
    os.remove(dot)
    parent, order = V.bfs_tree(edges, inits)
    rng = random.Random(seed * 7919 + hash(name) % 100003)
    # work list: (path, expected node, check_enabled)
    work = []
    for n in order:
        work.append((V.path_to(parent, n), n, True))
    nontree = []
    for n in order:
        for a, m in edges[n]:
            if parent.get(m) != (n, a):
                nontree.append((V.path_to(parent, n) + [a], m, False))
    work += nontree
    if edge_budget and len(work) > edge_budget:
        keep = work[:1] + rng.sample(work[1:], edge_budget - 1)
        work = keep
        res["sampled"] = True
    first_drift = None
    for path, n, chk_en in work:
        run = MbRun(c)
        try:
            ok = True
            for a in path:
                if not run.step_named(thread_of(a)):
                    ok = False
                    break
                res["steps"] += 1
            sp = nodes[n]
            if ok:
                diffs, pr = compare(sp, run, c)
            else:
                diffs, pr = ["thread not enabled: " + thread_of(a)], run.project()
            if ok and chk_en and not diffs:
                en_i = run.enabled_names()
                en_s = sorted(set(thread_of(a) for a, _ in edges[n]))
                if en_i != en_s:
                    diffs = [f"enabled impl={en_i} spec={en_s}"]
            res["paths"] += 1
            if len(path) >= 3:
                res["nontrivial"] += 1
            if res["sample"] is None and len(path) >= 6:
                res["sample"] = dict(cfg=name, path=path, spec_state={k: str(v) for k, v in sp.items()})
            if diffs:
                res["drift"].append(dict(cfg=name, path=path, diffs=[str(x) for x in diffs][:4]))
                if first_drift is None:
                    first_drift = path
                if len(res["drift"]) >= 5:
                    break
        finally:
            run.close()
    # random real schedules, judged at P-level (+ recorded for TLC trace validation)
    nrand = 6 if tier == "quick" else 40
    if first_drift is not None:
        nrand += 200
    for k in range(nrand):
        rr = random.Random(seed * 1000003 + k * 101 + hash(name) % 9973)
        rec = []
        prefix = [thread_of(a) for a in first_drift[:-1]] if (first_drift and k % 2 == 0) else ()
        bad, tr = run_schedule(c, lambda en: rr.choice(en), record=rec if not prefix else None, prefix=prefix)
        res["random_runs"] += 1
        if rec and len(res["trace_records"]) < (3 if tier == "quick" else 10):
            res["trace_records"].append(rec)
        if bad:
            res["violations"].append(dict(sig=f"C05:{name}:{bad[0].split(':')[0]}", text="; ".join(bad),
                                          replay=dict(cfg=c, schedule=[x[0] for x in tr])))
            break
    if first_drift is not None and not res["violations"]:
        # bounded exhaustive search of real schedules after the divergent prefix
        v = dfs_after(c, [thread_of(a) for a in first_drift[:-1]], limit=3000)
        if v:
            res["violations"].append(v)
    return res


def dfs_after(c, prefix, limit=3000):
    """Depth-first enumeration (re-execution) of all real schedules extending prefix; P-level verdict."""
    name = cfg_name(c)
    stack = [list(prefix)]
    seen = 0
    while stack and seen < limit:
        p = stack.pop()
        r = MbRun(c)
        try:
            ok = all(r.step_named(x) for x in p)
            if not ok:
                continue
            en = r.enabled_names()
            mt = r.s.task("main")
            if r.s.enabled(mt):
                en = en + ["main"]
            seen += 1
            if not en:
                hang = None if r.s.all_done() else [(t.name, t.want and t.want[0]) for t in r.s.tasks if t.state != "done"]
                bad = p_judge(c, {i: list(v) for i, v in r.got.items()}, 0, hang, r.sender_error)
                if bad:
                    return dict(sig=f"C05:{name}:{bad[0].split(':')[0]}", text="; ".join(bad),
                                replay=dict(cfg=c, schedule=p))
            elif len(p) < len(prefix) + 40:
                for e in en:
                    stack.append(p + [e])
        finally:
            r.close()
    return None


# ----------------------------------------------------------------------------- multi-output divider
def divider_run(arg):
    """strax.divide_outputs feeding `nout` mailboxes (each with nsub subscribers) from one source of dicts,
    under dsched with a seeded random schedule; returns the observation for MailboxObs.tla."""
    n, nout, nsub, cap, lazy, flow, seed = arg
    install()
    s = dsched.set_sched(dsched.Sched())
    got = [[[] for _ in range(nsub)] for _ in range(nout)]
    maxbox = [0] * nout
    boxes = []

    def main():
        names = [f"out{d}" for d in range(nout)]
        mbs = {nm: strax.Mailbox(name=nm, lazy=lazy, max_messages=cap, timeout=None) for nm in names}
        boxes.extend(mbs.values())
        src = strax.Mailbox(name="divide", lazy=lazy, max_messages=cap, timeout=None)

        def source():
            for i in range(n):
                s.yield_point(("step", "src"))
                yield {nm: 10 * (d + 1) + i for d, nm in enumerate(names)}
        src.add_sender(source(), name="S")
        from functools import partial
        src.add_reader(partial(strax.divide_outputs, mailboxes=mbs, lazy=lazy, flow_freely=tuple(names[-1:]) if flow else tuple(),
                               outputs=names), name="DIV")
        for d, nm in enumerate(names):
            for k in range(nsub):
                def rd(it, d=d, k=k):
                    for x in it:
                        s.yield_point(("step", "consume"))
                        got[d][k].append(x)
                # the flow-freely output is read by a non-driving subscriber (as a discarded / saved side output would be)
                mbs[nm].add_reader(rd, name=f"R{d}_{k}", can_drive=not (flow and d == nout - 1))
        for m in [src] + list(mbs.values()):
            m.start()
        for m in [src] + list(mbs.values()):
            m.cleanup()
    rng = random.Random(seed)
    s.spawn("main", main)
    hang = False
    try:
        while True:
            en = s.enabled_tasks()
            if not en:
                hang = not s.all_done()
                break
            s.step(rng.choice(en))
            for d, mb in enumerate(boxes):
                maxbox[d] = max(maxbox[d], len(mb._mailbox))
            if s.nsteps > 20000:
                hang = True
                break
    finally:
        left = [(t.name, t.want and t.want[0]) for t in s.tasks if t.state != "done"]
        s.abort()
        dsched.set_sched(None)
    return dict(arg=arg, o=dict(n=n, cap=cap, lazy=lazy, got=got, maxbox=maxbox, hang=bool(hang)), left=left if hang else [])


def divider_part(chk):
    quick = chk.tier == "quick"
    work = []
    for n in (0, 1, 3):
        for nout in (2, 3) if not quick else (2,):
            for nsub in (1, 2):
                for cap in (1, 2):
                    for lazy, flow in ((False, False), (True, False), (True, True)):
                        for k in range(3 if quick else 20):
                            work.append((n, nout, nsub, cap, lazy, flow, chk.seed * 1000 + k))
    res = V.pmap(divider_run, work)
    d = V.stage_spec(["MailboxObs"], {"MailboxObs.cfg": "SPECIFICATION Spec\nINVARIANT Accepted\nCHECK_DEADLOCK FALSE\n"})
    with open(os.path.join(d, "obs.json"), "w") as f:
        json.dump([r["o"] for r in res], f)
    r = V.run_tlc(d, "MailboxObs", workers=1, timeout=900, env={"TRACE_FILE": os.path.join(d, "obs.json")}, args=["-continue"])
    chk.add_tlc(r, "P-level validation of divider observations (MailboxObs.tla)")
    if not (r.ok or r.violated):
        raise V.MachineryError("MailboxObs failed: " + r.out[-2000:])
    for k in sorted({int(m.group(1)) for m in re.finditer(r"tid = (\d+)", r.out)}):
        rr = res[k - 1]
        a = rr["arg"]
        kind = "hang" if rr["o"]["hang"] else "delivery-or-capacity"
        chk.violation(f"C05:divider:n{a[0]}:out{a[1]}:sub{a[2]}:cap{a[3]}:{'lazy' if a[4] else 'eager'}:flow{int(a[5])}:{kind}",
                      f"divide_outputs with {a[1]} outputs x {a[2]} subscribers, {a[0]} elements, capacity {a[3]}, lazy={a[4]}, flow_freely={a[5]}, "
                      f"schedule seed {a[6]}: {rr['o']} {rr['left']}", dict(divider=list(a)))
    chk.traces += len(res)
    chk.evaluations += len(res)
    chk.extra["divider_runs"] = len(res)


# ----------------------------------------------------------------------------- trace validation (B2)
def validate_traces(chk, records):
    """records: list of (cfg, [events]); each event = thread + full projected state after the step.
    TLC checks that each trace is a behaviour of Mailbox.tla (MailboxTrace.tla)."""
    ok = 0
    bycfg = {}
    for c, rec in records:
        bycfg.setdefault(cfg_name(c), (c, []))[1].append(rec)
    for name, (c, recs) in bycfg.items():
        files = mc_files(c)
        d = V.stage_spec(["Mailbox", "MailboxTrace"], files)
        with open(os.path.join(d, "traces.json"), "w") as f:
            json.dump(recs, f)
        cfg = files["MC.cfg"].split("INVARIANT")[0].replace("SPECIFICATION Spec", "SPECIFICATION TraceSpec")
        cfg += "INVARIANT InOrder\nINVARIANT CapInv\nINVARIANT NoError\nINVARIANT Progress\nPOSTCONDITION AllAccepted\nCHECK_DEADLOCK FALSE\n"
        with open(os.path.join(d, "MCT.cfg"), "w") as f:
            f.write(cfg)
        with open(os.path.join(d, "MCT.tla"), "w") as f:
            f.write("---- MODULE MCT ----\nEXTENDS MailboxTrace\n" + files["MC.tla"].split("EXTENDS Mailbox\n")[1])
        r = V.run_tlc(d, "MCT", "MCT.cfg", workers=1, timeout=600, env={"TRACE_FILE": os.path.join(d, "traces.json")},
                      heap="2g")
        chk.add_tlc(r, f"trace validation {name}")
        if r.ok:
            ok += len(recs)
        else:
            m = re.findall(r'REJECTED trace", (\d+), "at event", (\d+)', r.out)
            if r.violated and r.violated not in ("AllAccepted", "Progress"):
                # a P-level invariant (InOrder, CapInv, NoError) fails in a state the real mailbox went through
                chk.violation(f"C05:{name}:{r.violated}-along-real-trace", f"{r.violated} is violated along a recorded execution of the real "
                              f"mailbox ({name})", dict(cfg=c, traces=recs[:2]))
            elif r.violated or m or "AllAccepted" in r.out:
                # internal state differs from the I-level model: drift, not a verdict (the P-level judgement of the same runs decides)
                chk.drift.append(dict(cfg=name, kind="real execution is not a behaviour of Mailbox.tla", detail=str(r.violated or m)[:300]))
            else:
                raise V.MachineryError("trace validation failed to run: " + r.out[-2000:])
    return ok


# ----------------------------------------------------------------------------- entry points
def tier_configs(tier):
    if tier == "quick":
        cs = all_configs(max_msg=2, max_sub=2, caps=(1, 2), perm_msgs=2, fut=True)
        cs += [dict(NMsg=3, NSub=2, Cap=1, Lazy=False, Drive=[True, True], Mode="iter", Perm=[], Fut=[]),
               dict(NMsg=3, NSub=2, Cap=1, Lazy=True, Drive=[True, False], Mode="iter", Perm=[], Fut=[]),
               dict(NMsg=3, NSub=1, Cap=3, Lazy=False, Drive=[True], Mode="perm", Perm=[2, 0, 1], Fut=[]),
               # longer out-of-order numberings (largest displacement below the capacity)
               dict(NMsg=5, NSub=1, Cap=3, Lazy=False, Drive=[True], Mode="perm", Perm=[1, 3, 0, 4, 2], Fut=[]),
               dict(NMsg=5, NSub=2, Cap=3, Lazy=False, Drive=[True, True], Mode="perm", Perm=[0, 3, 1, 4, 2], Fut=[]),
               dict(NMsg=4, NSub=2, Cap=2, Lazy=False, Drive=[True, True], Mode="perm", Perm=[1, 0, 3, 2], Fut=[]),
               dict(NMsg=5, NSub=1, Cap=4, Lazy=False, Drive=[True], Mode="perm", Perm=[3, 0, 1, 2, 4], Fut=[]),
               dict(NMsg=2, NSub=3, Cap=2, Lazy=True, Drive=[False, True, False], Mode="iter", Perm=[], Fut=[])]
        budget = 1500
    else:
        cs = all_configs(max_msg=5, max_sub=3, caps=(1, 2, 3, 4), perm_msgs=3, fut=True)
        # explicit numbering of 4 and 5 messages: every permutation whose largest displacement is below the capacity, one subscriber;
        # a seeded sample of them with two subscribers
        rng = random.Random(5)
        for nmsg in (4, 5):
            for perm in itertools.permutations(range(nmsg)):
                if list(perm) == sorted(perm):
                    continue
                for cap in (2, 3, 4):
                    if displacement(perm) < cap and (nmsg == 4 or rng.random() < 0.5):      # 5 messages: a seeded half of them
                        cs.append(dict(NMsg=nmsg, NSub=1, Cap=cap, Lazy=False, Drive=[True], Mode="perm", Perm=list(perm), Fut=[]))
                        if rng.random() < 0.1:
                            cs.append(dict(NMsg=nmsg, NSub=2, Cap=cap, Lazy=False, Drive=[True, True], Mode="perm", Perm=list(perm), Fut=[]))
        budget = 3000
    return cs, budget


def run(chk):
    cs, budget = tier_configs(chk.tier)
    chk.rule = ("configurations = subscribers x messages x capacity x lazy/eager x driver masks x send permutations "
                "(displacement < capacity) x future sets; per configuration TLC explores all schedules of "
                "spec/Mailbox.tla and every edge of the dumped state graph (a sample beyond the edge budget) is "
                "replayed on the real strax.Mailbox under dsched; non-trivial = replayed path with >= 3 steps")
    t0 = time.time()
    results = V.pmap(job, [(c, chk.tier, chk.seed, budget) for c in cs])
    records = []
    for res in results:
        if res.get("machinery"):
            raise V.MachineryError(res["machinery"])
        chk.states += res["states"]
        chk.transitions += res["transitions"]
        chk.traces += res["paths"] + res["random_runs"]
        chk.evaluations += res["paths"] + res["random_runs"]
        chk.tlc_runs.append(dict(what=res["name"], **res["tlc"]))
        for i in range(res["nontrivial"]):
            chk.nontrivial.add(res["name"] + str(i))
        if res["sample"]:
            chk.sample(res["sample"])
        chk.drift += res["drift"]
        for v in res["violations"]:
            chk.violation(v["sig"], v["text"], v["replay"])
        for rec in res["trace_records"]:
            records.append((res["cfg"], rec))
    chk.extra["configurations"] = len(cs)
    chk.extra["lockstep_steps"] = sum(r["steps"] for r in results)
    chk.extra["sampled_configs"] = sum(1 for r in results if r.get("sampled"))
    chk.exhaustive = chk.extra["sampled_configs"] == 0
    divider_part(chk)
    nval = validate_traces(chk, records)
    chk.extra["traces_validated_by_tlc"] = nval
    chk.traces += nval
    chk.assumptions += ["timeouts never fire (a state where only a timeout could make progress is a hang)",
                        "code between two dsched yield points touches shared mailbox state only under Mailbox._lock"]


def replay(chk, path):
    rp = json.load(open(path))["replay"]
    if "divider" in rp:
        rr = divider_run(tuple(rp["divider"]))
        print(rr)
        o = rr["o"]
        exp = [[[10 * (d + 1) + i for i in range(o["n"])]] for d in range(len(o["got"]))]
        bad = o["hang"] or any(g != exp[d][0] for d, gs in enumerate(o["got"]) for g in gs) or \
            (not o["lazy"] and any(m > o["cap"] for m in o["maxbox"]))
        return 1 if bad else 0
    c = rp["cfg"]
    sched = rp.get("schedule", [])
    it = iter(sched)

    def chooser(en):
        for name in it:
            for t in en:
                if t.name == name:
                    return t
        return en[0]
    bad, tr = run_schedule(c, chooser)
    print("replayed", cfg_name(c), "->", bad or "no violation")
    return 1 if bad else 0
