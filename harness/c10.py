"""C10: time-range, row and column selections commute with chunking and storage.

spec/Selection.tla defines the expected answer of every request as "the full data filtered by the
request's predicate" (P-level) and transcribes loader pruning, apply_time_range, per-chunk
apply_selection and the alignment of several same-kind streams (I-level); TLC checks I = P over all
layouts and ranges of the scope and prints the expected answers.  The harness stores each layout
with the real saver and asks the real Context.get_array for every enumerated request.
"""
import json
import os
import shutil
import tempfile
import logging
import warnings
import numpy as np
import vcommon as V

logging.disable(logging.CRITICAL)
import strax  # noqa: E402
import hplugins as H  # noqa: E402

ROWSETS = {
    "gaps": [[1, 3], [3, 4], [5, 8]],
    "overlap": [[0, 4], [2, 3], [5, 6], [6, 8]],
    "single": [[2, 6]],
    # a long row followed by short rows that end well before it does (endtimes not monotone): a range starting inside the long row,
    # after the short ones
    "nested": [[0, 6], [1, 2], [3, 4], [6, 8]],
}
RUN_END = 8


def mc_defs(rows):
    return f"RowsDef == {V.to_tla(tuple(tuple(r) for r in rows))}\n"


def store_layout(d, name, layout, kind):
    chunks = [dict(s=c["s"], e=c["e"], rows=[[r[0], r[1], None] for r in c["rows"]]) for c in layout]
    return chunks


def execute(arg):
    rows, two, case, procs, quick = arg
    d = tempfile.mkdtemp(prefix="verif_c10_")
    out = dict(bad=[], n=0, nontrivial=0, known_d9=0)
    try:
        index = {tuple(r): i for i, r in enumerate(rows)}

        def with_v(layout):
            return [dict(s=c["s"], e=c["e"], rows=[[r[0], r[1], index[tuple(r)]] for r in c["rows"]]) for c in layout]
        classes = [H.source("aa", with_v(case["l1"]), kind="ab", rechunk_on_save=False)]
        targets = "aa"
        if two:
            classes.append(H.source("bb", with_v(case["l2"]), kind="ab", rechunk_on_save=False))
            targets = ("aa", "bb")
        st = strax.Context(storage=[strax.DataDirectory(d)], register=classes, allow_multiprocess=False, timeout=60)
        for t in ("aa", "bb")[:2 if two else 1]:
            st.make("0", t, progress_bar=False)
        listing = sorted(os.listdir(d))
        qs = case["q"]
        qs = list(qs.values()) if isinstance(qs, dict) else qs
        for qi, q in enumerate(qs):
            a, b = q["a"], q["b"]
            for mode, thr, key in (("fully_contained", 0, "fc0"), ("touching", 0, "to0"), ("fully_contained", 2, "fc2"),
                                   ("touching", 2, "to2")):
                if quick and (qi + thr) % 2 == 1 and key in ("fc2", "to2"):
                    continue
                proc = procs[(qi + thr) % len(procs)]
                kw = dict(time_range=(a, b), time_selection=mode, processor=proc, progress_bar=False)
                if thr:
                    kw["selection"] = f"v >= {thr}"
                if (qi % 3) == 0:
                    kw["keep_columns"] = ("time", "v")
                out["n"] += 1
                try:
                    with warnings.catch_warnings():
                        warnings.simplefilter("ignore")
                        x = st.get_array("0", targets, **kw)
                    got = ("rows", sorted(int(v) for v in x["v"]))
                    if "keep_columns" in kw and set(x.dtype.names) != {"time", "v"}:
                        got = ("columns", list(x.dtype.names))
                except Exception as e:  # noqa
                    got = ("error", type(e).__name__, str(e)[:80])
                exp = ("error",) if q["nochunk"] else ("rows", sorted(i - 1 for i in q[key]))
                if exp[0] == "rows" and exp[1]:
                    out["nontrivial"] += 1
                ok = (got[0] == "error") if exp[0] == "error" else (got == exp)
                if not ok:
                    if two and q["misaligned"] and got[0] == "error" and "ended prematurely" in got[2]:
                        out["known_d9"] += 1
                        out["bad"].append(("C10:twotypes:ended-prematurely:row-straddles-right-edge",
                                           f"get_array(('aa','bb'), time_range=({a},{b})) on layouts {case['l1']} / {case['l2']} raised "
                                           f"{got[1]}: {got[2]} instead of returning rows {exp}", dict(rows=rows, case=dict(l1=case["l1"], l2=case["l2"]), a=a, b=b, mode=mode, thr=thr)))
                    else:
                        out["bad"].append((f"C10:{'two' if two else 'one'}:{json.dumps(case['l1'])}:{json.dumps(case['l2']) if two else ''}:{a}:{b}:{mode}:{thr}",
                                           f"get_array({targets}, time_range=({a},{b}), {mode}, v>={thr}, {proc}) on layout {case['l1']}"
                                           f"{' / ' + json.dumps(case['l2']) if two else ''} = {got}, expected {exp}",
                                           dict(rows=rows, case=dict(l1=case["l1"], l2=case["l2"]), a=a, b=b, mode=mode, thr=thr)))
        if sorted(os.listdir(d)) != listing:
            out["bad"].append((f"C10:saved-by-partial-request:{json.dumps(case['l1'])}", f"storage changed by partial requests: {sorted(os.listdir(d))}", {}))
        return out
    finally:
        shutil.rmtree(d, ignore_errors=True)


def run(chk):
    V.quiet_threads()
    quick = chk.tier == "quick"
    scen = [("gaps", False, 3), ("overlap", False, 3 if quick else 4), ("nested", False, 3), ("single", False, 3), ("gaps", True, 2), ("overlap", True, 2)]
    if not quick:
        scen += [("gaps", False, 4), ("gaps", True, 3)]
    chk.rule = ("stored layout = every law-abiding chunking of a small run (original and re-chunked, incl. empty / zero-duration chunks); request = "
                "every range a<b with endpoints on, inside and outside row and chunk boundaries x fully_contained / touching x row selection x "
                "column projection x processor; two same-kind types with independent layouts requested together; non-trivial = non-empty answer")
    chk.exhaustive = not quick
    for rn, two, mc in scen:
        rows = ROWSETS[rn]
        invs = ["SingleOK", "Emit"]
        r, cases = V.tlc_cases("Selection", dict(RunEnd=RUN_END, MaxChunks=mc, TwoTypes=two, RepairedRange=True), invs, overrides=dict(Rows="RowsDef"),
                               mc_defs=mc_defs(rows), timeout=1800, workers=4)
        chk.add_tlc(r, f"Selection rows={rn} two={two} maxchunks={mc}")
        if r.violated == "SingleOK":
            raise V.MachineryError("Selection.tla: I-level differs from P-level in the model itself: " + r.out[-1500:])
        V.tlc_must_finish(r, "Selection")
        if two:
            # design-level: is the alignment invariant violated in the model? (expected as found: yes)
            for rep in (True, False):
                r2, _ = V.tlc_cases("Selection", dict(RunEnd=RUN_END, MaxChunks=mc, TwoTypes=True, RepairedRange=rep), ["Aligned"],
                                    overrides=dict(Rows="RowsDef"), mc_defs=mc_defs(rows), timeout=1800, workers=4)
                chk.add_tlc(r2, f"Selection Aligned rows={rn} repaired={rep}")
                V.tlc_must_finish(r2, "Selection Aligned")
                if rep and r2.violated:
                    chk.extra.setdefault("model_alignment_violated", {})[rn] = r2.violated
                if not rep and not r2.violated and rn == "gaps":
                    raise V.MachineryError("Selection.tla as found satisfies Aligned: invariant without teeth")
        if quick:
            rng = __import__("random").Random(chk.seed + len(rows))
            cases = [c for c in cases if rng.random() < (0.35 if two else 0.6)]
        res = V.pmap(execute, [(rows, two, c, ("single_thread", "threaded_mailbox"), quick) for c in cases])
        for rr in res:
            chk.evaluations += rr["n"]
            chk.traces += rr["n"]
            for i in range(rr["nontrivial"]):
                chk.nontrivial.add(f"{rn}{two}{mc}{len(chk.nontrivial)}")
            for sig, text, rep in rr["bad"]:
                chk.violation(sig, text, rep)
        chk.sample(dict(rows=rows, two_types=two, layout=cases[len(cases) // 2]["l1"], requests=len(cases[0]["q"])))
    chk.assumptions += ["ranges with a < b only; rows are identified by their payload (= row index)"]


def replay(chk, path):
    rp = json.load(open(path))["replay"]
    if not rp:
        return 0
    rows, case = rp["rows"], rp["case"]
    two = case["l1"] != case["l2"]
    q = dict(a=rp["a"], b=rp["b"], nochunk=False, misaligned=True, fc0=[], fc2=[], to0=[], to2=[])
    print("re-run the check for the full verdict; the failing request was", rp)
    return 0
