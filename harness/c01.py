"""C01: results do not depend on chunking, processor, parallelism or what is stored.

spec/DataflowP.tla defines the whole-run semantics of every data type of a plugin graph assembled
from all plugin kinds (row-wise, filtering, same-kind merging, multi-output, loop, overlap-window,
down-chunking, exhaust) and the tiling law; spec/Dataflow.tla materialises the configuration
space (independent law-abiding chunkings of both sources, an alternative chunking for pre-stored
intermediate data, stored subsets, targets).  The harness walks / samples that space, and for every
configuration runs the real Context.get_iter under a product of processor / max_workers /
allow_lazy / max_messages / rechunk settings (threaded runs under OS threads and, for a subset,
under the deterministic scheduler with seeded schedules); TLC judges every recorded output stream -
and every data type stored by the request, re-read by a fresh context - against the P-level
(DataflowTrace.tla).  The message bus of the single-thread processor has its own specification, spec/PostOffice.tla,
bound lock-step to the real PostOffice (harness/postoffice.py).
"""
import itertools
import json
import os
import random
import re
import shutil
import tempfile
import logging
import warnings
import numpy as np
import vcommon as V
import dsched

logging.disable(logging.CRITICAL)
import strax  # noqa: E402
import strax.mailbox as mbmod  # noqa: E402
import hplugins as H  # noqa: E402
import pipeline as PL  # noqa: E402

ROWS = [[1, 2, 1], [2, 3, 2], [3, 7, 3], [8, 9, 4], [10, 11, 7]]      # a row longer than the overlap window + 1 with a neighbour right before it
EVENTS = [[0, 4, 0], [5, 10, 1], [10, 12, 2]]
RUN_END = 12
WL, WR = 1, 1
ALL = ("src", "ev", "pa", "pb", "pm", "pf", "mx", "my", "pl", "po", "pd", "pe", "pz")


def mc_defs():
    return (f"RowsDef == {V.to_tla(tuple(tuple(r) for r in ROWS))}\nEventsDef == {V.to_tla(tuple(tuple(r) for r in EVENTS))}\n")


def with_v(chunks, rows):
    idx = {(r[0], r[1]): r[2] for r in rows}
    return [dict(s=c["s"], e=c["e"], rows=[[r[0], r[1], idx[(r[0], r[1])]] for r in c["rows"]]) for c in chunks]


def classes(ch1, ch2, rechunk, tiny):
    kw = dict(rechunk_on_save=rechunk)
    cl = [H.source("src", with_v(ch1, ROWS), rechunk_on_save=False), H.source("ev", with_v(ch2, EVENTS), rechunk_on_save=False),
          H.samekind_map("pa", "src", "ab", "va", mul=3, add=1, **kw), H.samekind_map("pb", "src", "ab", "vb", mul=2, add=0, **kw),
          H.combine("pm", ("pa", "pb"), ("va", "vb"), **kw), H.filt("pf", "src", **kw),
          H.multi(("mx", "my"), "src", rechunk_on_save=rechunk), H.loop("pl", "ev", "src", "ev", "src", **kw),
          H.overlap("po", "pa", WL, WR, **kw), H.down("pd", "pa", vname="va"), H.exhaust("pe", "pa", vname="va"),
          H.rowmap("pz", "po", **kw)]
    if tiny:
        for c in cl:
            c.chunk_target_size_mb = (2 * H.ROWDT.itemsize + 4) * 1e-6
    return cl


def vfield(t):
    return {"pa": "va", "pb": "vb"}.get(t, "v")


def chunk_rows(ch, t):
    f = vfield(t)
    return [[int(r["time"]), int(strax.endtime(r)), int(r[f])] for r in ch.data]


def execute(arg):
    cfg, setting, seed = arg
    d = tempfile.mkdtemp(prefix="verif_c01_")
    out = dict(cfg=cfg, setting=setting, err=None, traces=[])
    try:
        tiny, rechunk = setting["tiny"], setting["rechunk"]
        # pre-populate the stored subset from the alternative source chunking
        if cfg["stored"]:
            st0 = strax.Context(storage=[strax.DataDirectory(d)], register=classes(cfg["alt"], cfg["ch2"], rechunk, tiny),
                                allow_multiprocess=False, timeout=300)
            for t in cfg["stored"]:
                st0.make("0", t, progress_bar=False)
            for name in os.listdir(d):
                parts = name.split("-")
                if len(parts) == 3 and parts[1] not in cfg["stored"]:
                    shutil.rmtree(os.path.join(d, name))
        before = {n.split("-")[1] for n in os.listdir(d) if len(n.split("-")) == 3}
        st = strax.Context(storage=[strax.DataDirectory(d)], register=classes(cfg["ch1"], cfg["ch2"], rechunk, tiny),
                           allow_multiprocess=False, allow_lazy=setting["lazy"], max_messages=setting["mm"], allow_rechunk=rechunk,
                           timeout=300 if not setting["dsched"] else 3600)
        target = cfg["target"]
        chunks = []

        def action():
            for ch in st.get_iter("0", target, processor=setting["processor"], max_workers=setting["workers"], progress_bar=False):
                chunks.append(dict(s=ch.start, e=ch.end, rows=chunk_rows(ch, target)))
        import postoffice
        po_tr = postoffice.Tracer() if setting["processor"] == "single_thread" else None
        with warnings.catch_warnings(), (po_tr or __import__("contextlib").nullcontext()):
            warnings.simplefilter("ignore")
            if setting["dsched"]:
                obs = dict(rows=None)
                PL._run_under_dsched(action, obs, seed, st, None, dict(sched="random"))
                if obs.get("hang"):
                    raise RuntimeError(f"hang under the deterministic scheduler: {obs['hang']}")
                if obs.get("outcome") == "raised":
                    raise RuntimeError(f"{obs['exc_type']}: {obs['exc_msg']}")
            else:
                action()
        if po_tr is not None:
            out["po_logs"] = po_tr.observations(completed=True)
        out["traces"].append(dict(target=target, out=chunks, what="yielded"))
        # everything the request stored: re-read by a fresh context
        after = {n.split("-")[1] for n in os.listdir(d) if len(n.split("-")) == 3 and not n.endswith("_temp")}
        st2 = strax.Context(storage=[strax.DataDirectory(d)], register=classes(cfg["ch1"], cfg["ch2"], rechunk, tiny),
                            allow_multiprocess=False)
        st2.set_context_config({"forbid_creation_of": "*"})
        for t in sorted(after - before):
            with warnings.catch_warnings():
                warnings.simplefilter("ignore")
                cs = [dict(s=ch.start, e=ch.end, rows=chunk_rows(ch, t)) for ch in st2.get_iter("0", t, progress_bar=False)]
            out["traces"].append(dict(target=t, out=cs, what="stored by the request, re-read"))
    except Exception as e:  # noqa
        out["err"] = f"{type(e).__name__}: {e}"[:300]
    finally:
        mbmod.threading = PL._REAL_THREADING
        shutil.rmtree(d, ignore_errors=True)
    return out


def settings_for(rng, n, allow_dsched=True):
    S = []
    for _ in range(n):
        proc = rng.choice(["single_thread", "threaded_mailbox", "threaded_mailbox"])
        ds = allow_dsched and proc == "threaded_mailbox" and rng.random() < 0.4
        S.append(dict(processor=proc, workers=None if (proc == "single_thread" or ds) else rng.choice([None, 2]),
                      lazy=rng.choice([True, False]), mm=rng.choice([4, 10]), rechunk=rng.choice([True, False]),
                      tiny=rng.choice([True, False]), dsched=ds))
    return S


def run(chk):
    V.quiet_threads()
    quick = chk.tier == "quick"
    consts = dict(RunEnd=RUN_END, MaxChunks=2 if quick else 3, WL=WL, WR=WR)
    r, cases = V.tlc_cases("Dataflow", consts, ["DefsOK", "Emit"], overrides=dict(Rows="RowsDef", Events="EventsDef"), mc_defs=mc_defs())
    chk.add_tlc(r, f"Dataflow.tla {consts}")
    if r.violated:
        raise V.MachineryError("Dataflow.tla: DefsOK violated: " + r.out[-1500:])
    V.tlc_must_finish(r, "Dataflow")
    space = cases[0]
    for t in ALL:
        if t not in space["whole"]:
            raise V.MachineryError("oracle incomplete")
    rng = random.Random(chk.seed)
    ncfg = 140 if quick else 3000
    work = []
    targets = space["targets"]
    storable = space["storable"]
    for i in range(ncfg):
        stored = [t for t in storable if rng.random() < 0.3]
        cfg = dict(ch1=rng.choice(space["src"]), ch2=rng.choice(space["ev"]), alt=rng.choice(space["src"]), stored=stored,
                   target=targets[i % len(targets)])
        for s in settings_for(rng, 2 if quick else 3):
            work.append((cfg, s, chk.seed * 7919 + len(work)))
    classes(space["src"][0], space["ev"][0], False, False)
    res = V.pmap(execute, work)
    # a real-thread run that ended in a mailbox timeout is run again, alone (the pool is gone): on a busy machine a thread that is
    # starved for the length of the timeout looks like a hang; a hang that is really there shows again (and the runs under the
    # deterministic scheduler, where timeouts never fire, cover the schedule-dependent ones)
    retried = 0
    for i, rr in enumerate(res):
        if rr["err"] and "Timeout" in rr["err"] and not rr["setting"]["dsched"]:
            for _ in range(2):
                retried += 1
                r2 = execute(work[i])
                if not (r2["err"] and "Timeout" in r2["err"]):
                    res[i] = r2
                    break
    chk.extra["real_thread_runs_repeated_after_a_timeout"] = retried
    traces, idx = [], []
    for i, rr in enumerate(res):
        cfg, s = rr["cfg"], rr["setting"]
        chk.case(key=json.dumps([cfg, s], sort_keys=True), nontrivial=len(cfg["ch1"]) > 1 or bool(cfg["stored"]))
        if rr["err"]:
            chk.violation(f"C01:raises:{cfg['target']}:{rr['err'].split(':')[0]}:{s['processor']}:{rr['err'][:60]}",
                          f"target {cfg['target']} with src chunking {cfg['ch1']}, ev chunking {cfg['ch2']}, stored {cfg['stored']} (made from "
                          f"chunking {cfg['alt']}), settings {s}: {rr['err']}", dict(cfg=cfg, setting=s, seed=work[i][2]))
            continue
        for t in rr["traces"]:
            traces.append(dict(target=t["target"], out=t["out"]))
            idx.append((i, t["what"], t["target"]))
    files = {"MCT.tla": f"---- MODULE MCT ----\nEXTENDS DataflowTrace\n{mc_defs()}\n====\n",
             "MCT.cfg": V.cfg_text(dict(RunEnd=RUN_END, WL=WL, WR=WR), ["Accepted"], spec="TSpec", overrides=dict(Rows="RowsDef", Events="EventsDef"))}
    d = V.stage_spec([], files)
    with open(os.path.join(d, "traces.json"), "w") as f:
        json.dump(traces, f)
    r2 = V.run_tlc(d, "MCT", "MCT.cfg", workers=V.NCPU, timeout=1800, env={"TRACE_FILE": os.path.join(d, "traces.json")}, args=["-continue"])
    chk.add_tlc(r2, f"P-level validation of {len(traces)} output streams (DataflowTrace.tla)")
    if not (r2.ok or r2.violated):
        raise V.MachineryError("DataflowTrace failed: " + r2.out[-2000:])
    for k in sorted({int(m.group(1)) for m in re.finditer(r"tid = (\d+)", r2.out)}):
        i, what, t = idx[k - 1]
        cfg, s = res[i]["cfg"], res[i]["setting"]
        chk.violation(f"C01:wrong-output:{t}:{what}:{s['processor']}:stored={sorted(cfg['stored'])}",
                      f"{t} ({what}) for request of {cfg['target']} with src chunking {cfg['ch1']}, ev chunking {cfg['ch2']}, stored {cfg['stored']} "
                      f"(from chunking {cfg['alt']}), settings {s}: stream {traces[k - 1]['out']} is not a tiling of WholeRun({t}) = {space['whole'][t]}",
                      dict(cfg=cfg, setting=s, seed=work[i][2]))
    chk.traces += len(traces)
    chk.extra["configuration_space"] = space["n"]
    chk.extra["configurations_run"] = ncfg
    # the single-thread processor's bus: PostOffice.tla replayed lock-step on the real PostOffice
    import postoffice
    po_drift = postoffice.run_part(chk, "C01")
    # ... and the office logs of the single-thread runs above judged against its P-level
    po_obs = [dict(obs=o, key=f"target={rr['cfg']['target']} stored={sorted(rr['cfg']['stored'])} src={rr['cfg']['ch1']} #{j}",
                   replay=dict(cfg=rr["cfg"], setting=rr["setting"], seed=work[i][2]))
              for i, rr in enumerate(res) if not rr["err"] for j, o in enumerate(rr.get("po_logs", []))]
    postoffice.validate_observations(chk, po_obs, "C01 configurations")
    if po_drift:
        chk.extra["postoffice_drift_note"] = ("the real PostOffice left the state graph of PostOffice.tla (internal state); the verdict is by the "
                                              "P-level clauses on the real observations")
    chk.extra["executions"] = len(work)
    chk.extra["under_dsched"] = sum(1 for w in work if w[1]["dsched"])
    chk.sample(dict(cfg=res[0]["cfg"], setting=res[0]["setting"], traces=res[0]["traces"][:1]))
    chk.rule = ("configuration = chunking of src x chunking of ev x alternative chunking for pre-stored data x stored subset x target (all plugin "
                "kinds) - the factors are enumerated by TLC, the product is sampled (seeded); each configuration runs under sampled settings "
                "(processor, max_workers, allow_lazy, max_messages, rechunk on save, tiny chunk_target_size; threaded partly under the "
                "deterministic scheduler); non-trivial = more than one source chunk or a non-empty stored subset")
    chk.exhaustive = False
    chk.assumptions += ["max_messages 4 / 10 exceed the chunk lag of every harness plugin", "the overlap-window computation is local within (1, 1)",
                        "multiprocessing (ParallelSourcePlugin) is not exercised"]


def replay(chk, path):
    rp = json.load(open(path))["replay"]
    if "postoffice" in rp:
        import postoffice
        c = rp["postoffice"]["cfg"]
        c["producers"] = {k: (tuple(v[0]), tuple(v[1]), v[2]) for k, v in c["producers"].items()}
        bad, pr = postoffice.replay_one(c, rp["postoffice"]["path"])
        print(bad or "holds", pr)
        return 1 if bad else 0
    rr = execute((rp["cfg"], rp["setting"], rp["seed"]))
    print(rr["err"], rr["traces"])
    return 1 if rr["err"] else 0
