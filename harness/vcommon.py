"""Shared machinery: TLC drivers, TLA+ value parser, evidence / verdict handling.

Everything here is used by the per-property drivers harness/cNN.py (entry: bin/check).
"""
import collections
import hashlib
import json
import os
import re
import shutil
import subprocess
import sys
import tempfile
import time

ROOT = os.path.dirname(os.path.dirname(os.path.abspath(__file__)))
SPEC = os.path.join(ROOT, "spec")
# VERIF_OUT: where evidence/ and replays/ go (default: /verif); set only when trying the checks on a scratch tree
OUT = os.environ.get("VERIF_OUT", ROOT)
EVID = os.path.join(OUT, "evidence")
REPLAYS = os.path.join(OUT, "replays")
KNOWN = os.path.join(ROOT, "known_findings.json")
NCPU = min(16, os.cpu_count() or 1)
TLA_CP = "/opt/veriftools/tla/tla2tools.jar:/opt/veriftools/tla/CommunityModules-deps.jar"


class MachineryError(Exception):
    """The checker itself is broken (exit 2) - never a verdict."""


# --------------------------------------------------------------------------- scratch
_SCRATCH = []


def scratch(prefix="verif_"):
    d = tempfile.mkdtemp(prefix=prefix)
    _SCRATCH.append(d)
    return d


def cleanup():
    for d in _SCRATCH:
        shutil.rmtree(d, ignore_errors=True)
    _SCRATCH.clear()


# --------------------------------------------------------------------------- TLC
class TLCResult:
    def __init__(self):
        self.generated = 0
        self.distinct = 0
        self.depth = 0
        self.ok = False            # finished, no error
        self.violated = None       # name of violated invariant / property
        self.deadlock = False
        self.out = ""
        self.coverage = {}         # action -> (distinct, total)
        self.trace = []            # counterexample: list of (action, state-dict)
        self.wall = 0.0
        self.printed = []          # raw lines printed by PrintT (strings)

    def __repr__(self):
        return (f"<TLC ok={self.ok} violated={self.violated} deadlock={self.deadlock} "
                f"gen={self.generated} distinct={self.distinct} depth={self.depth} {self.wall:.1f}s>")


def stage_spec(modules, extra_files=None):
    """Copy spec modules (names without .tla) and generated files into a fresh scratch dir."""
    d = scratch("tlc_")
    for m in os.listdir(SPEC):
        if m.endswith(".tla"):
            shutil.copy(os.path.join(SPEC, m), d)
    for name, text in (extra_files or {}).items():
        with open(os.path.join(d, name), "w") as f:
            f.write(text)
    return d


def run_tlc(workdir, module, cfg=None, workers=None, timeout=1800, args=(), env=None,
            coverage=False, want_trace=True, heap="8g"):
    """Run TLC on workdir/module.tla with workdir/cfg. Returns TLCResult."""
    cfg = cfg or module + ".cfg"
    meta = os.path.join(workdir, "states_" + module + "_" + str(os.getpid()) + "_" + str(time.time_ns()))
    w = workers or NCPU
    if w == 1:   # many small runs in parallel: keep each JVM light
        cmd = ["java", "-XX:+UseSerialGC", "-XX:TieredStopAtLevel=1", "-XX:CICompilerCount=1", "-Xmx" + heap, "-cp", TLA_CP]
    else:
        cmd = ["java", "-XX:+UseParallelGC", "-Xmx" + heap, "-cp", TLA_CP]
    cmd += ["tlc2.TLC", "-workers", str(workers or NCPU), "-metadir", meta,
            "-noGenerateSpecTE", "-config", cfg]
    if coverage:
        cmd += ["-coverage", "1"]
    cmd += list(args) + [module]
    e = dict(os.environ)
    e.update(env or {})
    t0 = time.time()
    try:
        p = subprocess.run(cmd, cwd=workdir, env=e, stdout=subprocess.PIPE, stderr=subprocess.STDOUT,
                           timeout=timeout, text=True, errors="replace")
        out = p.stdout
        rc = p.returncode
    except subprocess.TimeoutExpired as ex:
        out = (ex.stdout or b"")
        if isinstance(out, bytes):
            out = out.decode(errors="replace")
        rc = -9
        subprocess.run(["pkill", "-f", meta], check=False)
    shutil.rmtree(meta, ignore_errors=True)
    r = TLCResult()
    r.out = out
    r.wall = time.time() - t0
    r.rc = rc
    m = None
    for m in re.finditer(r"(\d+) states generated, (\d+) distinct states found", out):
        pass
    if m:
        r.generated, r.distinct = int(m.group(1)), int(m.group(2))
    m = re.search(r"The depth of the complete state graph search is (\d+)", out)
    if m:
        r.depth = int(m.group(1))
    m = re.search(r"Invariant (\S+) is violated", out)
    if m:
        r.violated = m.group(1)
    m = re.search(r"Temporal property (\S+) was violated", out)
    if m and not r.violated:
        r.violated = m.group(1)
    m = re.search(r"(?:Temporal properties were violated|Action property (\S+) is violated)", out)
    if m and not r.violated:
        r.violated = m.group(1) or "temporal"
    if "Deadlock reached" in out:
        r.deadlock = True
    r.ok = ("Model checking completed. No error has been found" in out) or \
           (rc == 0 and "Error:" not in out and "Finished computing initial states" in out and
            "states generated" in out and not r.violated and not r.deadlock)
    if want_trace and (r.violated or r.deadlock):
        r.trace = parse_error_trace(out)
    if coverage:
        for mm in re.finditer(r"<(\w+) line \d+, col \d+ to line \d+, col \d+ of module (\w+)>: (\d+):(\d+)", out):
            r.coverage[mm.group(1)] = (int(mm.group(3)), int(mm.group(4)))
    return r


def tlc_must_finish(r, what):
    if r.rc == -9:
        raise MachineryError(f"TLC timed out on {what}")
    if not (r.ok or r.violated or r.deadlock):
        raise MachineryError(f"TLC failed on {what}:\n" + r.out[-3000:])


def parse_error_trace(out):
    """Parse 'State n: <Action ...>' blocks of a TLC counterexample."""
    tr = []
    blocks = re.split(r"\nState (\d+): ", out)
    # blocks = [pre, n1, body1, n2, body2, ...]
    for k in range(1, len(blocks) - 1, 2):
        body = blocks[k + 1]
        body = body.split("\n\n")[0]
        lines = body.split("\n")
        head = lines[0]
        am = re.match(r"<(\w+)", head)
        action = am.group(1) if am else head.strip()
        try:
            st = parse_state("\n".join(lines[1:]))
        except Exception:
            st = {}
        tr.append((action, st))
    return tr


# --------------------------------------------------------------------------- TLA+ values
_tok = re.compile(r"-?\d+|TRUE|FALSE|[A-Za-z_][A-Za-z0-9_]*")


def parse_tla(s):
    """Parse a TLA+ value printed by TLC: ints, strings, booleans, tuples, sets, records,
    functions (a :> b @@ c :> d), model values."""
    pos = 0
    n = len(s)

    def ws():
        nonlocal pos
        while pos < n and s[pos] in " \n\t\r":
            pos += 1

    def atom():
        nonlocal pos
        ws()
        if s.startswith("<<", pos):
            pos += 2
            out = []
            ws()
            while not s.startswith(">>", pos):
                out.append(expr())
                ws()
                if s[pos] == ",":
                    pos += 1
                ws()
            pos += 2
            return tuple(out)
        if s[pos] == "{":
            pos += 1
            out = []
            ws()
            while s[pos] != "}":
                out.append(expr())
                ws()
                if s[pos] == ",":
                    pos += 1
                ws()
            pos += 1
            return frozenset(out)
        if s[pos] == "[":
            pos += 1
            d = {}
            ws()
            while s[pos] != "]":
                m = _tok.match(s, pos)
                k = m.group()
                pos = m.end()
                ws()
                assert s.startswith("|->", pos), s[pos:pos + 20]
                pos += 3
                d[k] = expr()
                ws()
                if s[pos] == ",":
                    pos += 1
                ws()
            pos += 1
            return FrozenDict(d)
        if s[pos] == "(":
            pos += 1
            v = expr()
            ws()
            assert s[pos] == ")"
            pos += 1
            return v
        if s[pos] == '"':
            e = pos + 1
            buf = []
            while s[e] != '"':
                if s[e] == "\\":
                    e += 1
                buf.append(s[e])
                e += 1
            pos = e + 1
            return "".join(buf)
        m = _tok.match(s, pos)
        if not m:
            raise ValueError("cannot parse TLA value at: " + s[pos:pos + 40])
        pos = m.end()
        t = m.group()
        if t == "TRUE":
            return True
        if t == "FALSE":
            return False
        if re.fullmatch(r"-?\d+", t):
            return int(t)
        return t  # model value

    def expr():
        nonlocal pos
        v = atom()
        ws()
        if s.startswith(":>", pos):
            d = {}
            while True:
                pos += 2
                d[v] = atom()
                ws()
                if s.startswith("@@", pos):
                    pos += 2
                    v = atom()
                    ws()
                    assert s.startswith(":>", pos)
                else:
                    break
            return FrozenDict(d)
        return v

    v = expr()
    return v


class FrozenDict(dict):
    def __hash__(self):
        return hash(frozenset(self.items()))


def parse_state(text):
    """'/\\ a = 1\n/\\ b = <<..>>' -> dict"""
    st = {}
    text = text.strip()
    if not text:
        return st
    for part in re.split(r"(?:^|\n)/\\ ", text):
        if not part.strip():
            continue
        k, v = part.split(" = ", 1)
        st[k.strip()] = parse_tla(v)
    return st


def load_dot_graph(fn):
    """Graph written by `-dump dot,actionlabels`: (nodes: id->state, edges: id->[(label,id)], inits)."""
    nodes, edges, inits = {}, collections.defaultdict(list), []
    for line in open(fn):
        m = re.match(r'(-?\d+) -> (-?\d+) \[label="((?:[^"\\]|\\.)*)"', line)
        if m:
            edges[m.group(1)].append((m.group(3).replace('\\"', '"').replace("\\\\", "\\"), m.group(2)))
            continue
        m = re.match(r'(-?\d+) \[label="((?:[^"\\]|\\.)*)"(.*)', line)
        if m:
            lab = m.group(2).replace("\\n", "\n").replace('\\"', '"').replace("\\\\", "\\")
            nodes[m.group(1)] = parse_state(lab)
            if "filled" in m.group(3):
                inits.append(m.group(1))
    return nodes, edges, inits


def bfs_tree(edges, inits):
    parent = {i: None for i in inits}
    order = list(inits)
    q = collections.deque(inits)
    while q:
        n = q.popleft()
        for a, m in edges[n]:
            if m not in parent:
                parent[m] = (n, a)
                order.append(m)
                q.append(m)
    return parent, order


def path_to(parent, n):
    path = []
    while parent[n] is not None:
        p, a = parent[n]
        path.append(a)
        n = p
    path.reverse()
    return path


def printed_json(out):
    """Values printed with PrintT(ToJson(x)): one TLA string per line."""
    res = []
    for line in out.split("\n"):
        line = line.strip()
        if line.startswith('"{') or line.startswith('"['):
            try:
                res.append(json.loads(json.loads(line)))
            except Exception:
                pass
    return res


def to_tla(v):
    """Python value -> TLA+ expression text."""
    if isinstance(v, bool):
        return "TRUE" if v else "FALSE"
    if isinstance(v, int):
        return str(v)
    if isinstance(v, str):
        return '"' + v.replace("\\", "\\\\").replace('"', '\\"') + '"'
    if isinstance(v, (list, tuple)):
        return "<<" + ", ".join(to_tla(x) for x in v) + ">>"
    if isinstance(v, (set, frozenset)):
        return "{" + ", ".join(to_tla(x) for x in sorted(v, key=repr)) + "}"
    if isinstance(v, dict):
        if not v:
            return "<<>>"
        if all(isinstance(k, str) and re.fullmatch(r"[A-Za-z_]\w*", k) for k in v):
            return "[" + ", ".join(f"{k} |-> {to_tla(x)}" for k, x in v.items()) + "]"
        return "(" + " @@ ".join(f"{to_tla(k)} :> {to_tla(x)}" for k, x in v.items()) + ")"
    raise TypeError(v)


# --------------------------------------------------------------------------- verdicts
class Check:
    """Collects coverage, violations, known findings; writes evidence and exit status."""

    def __init__(self, pid, tier, seed, level="model_checking"):
        self.pid, self.tier, self.seed, self.level = pid, tier, seed, level
        self.t0 = time.time()
        self.states = 0
        self.transitions = 0
        self.traces = 0
        self.evaluations = 0
        self.nontrivial = set()
        self.samples = []
        self.violations = []       # (signature, description, replay dict)
        self.known_hit = []
        self.extra = {}
        self.assumptions = []
        self.rule = ""
        self.exhaustive = None
        self.drift = []
        self.tlc_runs = []
        try:
            self.known = json.load(open(KNOWN))["findings"]
        except FileNotFoundError:
            self.known = []

    # -- accumulate
    def add_tlc(self, r, what):
        self.states += r.distinct
        self.transitions += r.generated
        self.tlc_runs.append(dict(what=what, generated=r.generated, distinct=r.distinct, depth=r.depth,
                                  wall_s=round(r.wall, 1), ok=r.ok, violated=r.violated, deadlock=r.deadlock))

    def sample(self, x, limit=6):
        if len(self.samples) < limit:
            self.samples.append(x)

    def case(self, key=None, nontrivial=False):
        self.evaluations += 1
        if nontrivial and key is not None:
            self.nontrivial.add(key if isinstance(key, (str, int)) else hashlib.sha1(repr(key).encode()).hexdigest()[:16])

    def violation(self, signature, text, replay):
        """signature: stable string identifying the specific failing scenario."""
        for k in self.known:
            if k["property"] == self.pid and k.get("status") == "known" and sig_match(k["signature"], signature):
                if not any(h[0] is k for h in self.known_hit):
                    self.known_hit.append((k, text))
                return False
        self.violations.append((signature, text, replay))
        return True

    # -- finish
    def finish(self):
        os.makedirs(EVID, exist_ok=True)
        for k, text in self.known_hit:
            print(f"KNOWN-FINDING: property={self.pid} {k['signature']} :: {k['text']}")
        paths = []
        seen = set()
        for sig, text, replay in self.violations:
            if sig in seen:
                continue
            seen.add(sig)
            d = os.path.join(REPLAYS, self.pid)
            os.makedirs(d, exist_ok=True)
            h = hashlib.sha1(sig.encode()).hexdigest()[:12]
            path = os.path.join(d, h + ".json")
            with open(path, "w") as f:
                json.dump(dict(property=self.pid, signature=sig, text=text, replay=replay), f, indent=1, default=str)
            paths.append(path)
            print(f"VIOLATION property={self.pid} replay={path}")
            print(f"  signature: {sig}\n  {text}")
            if len(paths) >= 20:
                break
        cov = dict(states=max(self.states, 0), transitions=max(self.transitions, 0),
                   traces_validated_against_impl=self.traces,
                   samples=self.samples or ["(none)"],
                   evaluations=self.evaluations, distinct_nontrivial=len(self.nontrivial),
                   rule=self.rule, tlc_runs=self.tlc_runs, drift=self.drift[:20],
                   known_findings_reproduced=[k["signature"] for k, _ in self.known_hit])
        if self.exhaustive is not None:
            cov["exhaustive"] = self.exhaustive
        cov.update(self.extra)
        ev = dict(property_id=self.pid, tier=self.tier, seed=self.seed, level=self.level, coverage=cov,
                  assumptions=self.assumptions, wall_s=round(time.time() - self.t0, 2),
                  violations=len(seen))
        with open(os.path.join(EVID, self.pid + ".json"), "w") as f:
            json.dump(ev, f, indent=1, default=str)
        cleanup()
        print(f"[{self.pid}] tier={self.tier} states={self.states} transitions={self.transitions} "
              f"impl_traces={self.traces} cases={self.evaluations} violations={len(seen)} "
              f"known={len(self.known_hit)} wall={time.time() - self.t0:.1f}s")
        return 1 if seen else 0


def sig_match(pattern, sig):
    """known-finding signatures: '*' matches any run of characters, everything else is literal."""
    parts = pattern.split("*")
    if len(parts) == 1:
        return pattern == sig
    if not sig.startswith(parts[0]) or not sig.endswith(parts[-1]):
        return False
    pos = len(parts[0])
    for mid in parts[1:-1]:
        i = sig.find(mid, pos)
        if i < 0:
            return False
        pos = i + len(mid)
    return pos <= len(sig) - len(parts[-1])


def chunks_of(lst, n):
    k = max(1, (len(lst) + n - 1) // n)
    return [lst[i:i + k] for i in range(0, len(lst), k)]


_WARM = [False]


def warm_numba():
    """Compile strax's commonly used numba functions once in the parent so that forked workers inherit them."""
    if _WARM[0]:
        return
    _WARM[0] = True
    try:
        import numpy as np
        import strax
        dt = np.dtype(strax.time_fields)
        a = np.zeros(3, dt)
        a["time"], a["endtime"] = [0, 2, 5], [1, 4, 6]
        ch = strax.Chunk(data_type="x", data_kind="x", dtype=dt, run_id="0", start=0, end=8, data=a, target_size_mb=1e-5)
        ch.split(3, allow_early_split=True)
        ch.split(2, allow_early_split=False)
        rc = strax.Rechunker(rechunk=True, run_id="0")
        rc.receive(ch)
        rc.flush()
        strax.diff(a)
        strax.endtime(a)
        strax.fully_contained_in(a, a[:1])
        strax.touching_windows(a, a[:1])
    except Exception:
        pass


def pmap(fn, items, procs=None, warm=True):
    """fork-based parallel map over picklable items (fn must be top-level or closure-free-safe under fork).
    warm: the first item is evaluated in this process before the pool is forked, so that whatever it compiles (numba) is compiled
    once - and saved to the on-disk cache by this process only - and inherited by every worker instead of being compiled by all
    of them at the same time (which, on a busy machine, can outlast the timeouts of the code under test)."""
    import multiprocessing as mp
    if "strax" in sys.modules:
        warm_numba()
    procs = procs or NCPU
    if procs <= 1 or len(items) <= 1:
        return [fn(x) for x in items]
    first = None
    if warm:
        first = [fn(items[0])]
        items = items[1:]
        if len(items) == 1:
            return first + [fn(items[0])]
    ctx = mp.get_context("fork")
    with ctx.Pool(procs, initializer=_worker_init) as pool:
        rest = pool.map(fn, items, chunksize=max(1, len(items) // (procs * 8)))
    return (first or []) + rest


def process_local_tqdm_lock():
    """tqdm guards its instance registry with a multiprocessing lock that every fork of the process that created it shares: one
    process that dies or is killed while holding it blocks all the others for ever (seen twice: fault-injection children, a killed run).
    A process-local lock instead - set here before tqdm creates its own, and again in every forked worker."""
    try:
        import threading
        import tqdm
        tqdm.tqdm.set_lock(threading.RLock())
    except Exception:
        pass


process_local_tqdm_lock()


def _worker_init():
    """Pool workers compile what they need in memory but never save to numba's on-disk cache: concurrent savers corrupt its index
    (an entry can end up pointing at another specialisation's code, which then silently computes garbage)."""
    process_local_tqdm_lock()
    try:
        import numba.core.caching as nc
        nc.Cache.save_overload = lambda self, sig, data: None
    except Exception:
        pass


# --------------------------------------------------------------------------- enumerated cases (B3)
def cfg_text(constants, invariants=(), spec="Spec", overrides=None, properties=(), extra=""):
    """Build a TLC cfg: constants is name -> python value (ints, bools, strings)."""
    lines = [f"SPECIFICATION {spec}"]
    for k, v in constants.items():
        lines.append(f"CONSTANT {k} = {to_tla(v)}")
    for k, v in (overrides or {}).items():
        lines.append(f"CONSTANT {k} <- {v}")
    for i in invariants:
        lines.append(f"INVARIANT {i}")
    for p in properties:
        lines.append(f"PROPERTY {p}")
    lines.append("CHECK_DEADLOCK FALSE")
    return "\n".join(lines) + "\n" + extra


def tlc_cases(module, constants, invariants, overrides=None, mc_defs=None, timeout=1800, heap="6g", workers=1, args=(), spec="Spec"):
    """Run an Init-only (or small) spec whose invariant `Emit` prints one JSON case per state.
    Returns (TLCResult, [cases]).  The other invariants are the laws checked on every case."""
    files = {}
    mod = module
    if mc_defs:
        mod = "MC_" + module
        files[mod + ".tla"] = f"---- MODULE {mod} ----\nEXTENDS {module}\n{mc_defs}\n====\n"
    files[mod + ".cfg"] = cfg_text(constants, invariants, overrides=overrides, spec=spec)
    d = stage_spec([module], files)
    r = run_tlc(d, mod, mod + ".cfg", workers=workers, timeout=timeout, heap=heap, want_trace=True, args=args)
    cases = printed_json(r.out)
    shutil.rmtree(d, ignore_errors=True)
    return r, cases


def quiet_threads():
    """Exceptions that end a pipeline thread are part of many scenarios; do not print their tracebacks."""
    import threading
    threading.excepthook = lambda args: None
    sys.unraisablehook = lambda args: None     # abandoned generators being finalised
