"""File-system fault interposer.

strax/storage/files.py and strax/io.py reach the file system through module attributes
(`os`, `shutil`, builtin `open`).  install() replaces those attributes - in this process only,
no source change - by proxies that log every mutating call as an event and can inject a fault:
  mode "error":  the selected operation raises OSError instead of taking effect
  mode "crash_before" / "crash_after": the process dies (os._exit) just before / after it
A fault is selected by its label (operation + normalised path) and occurrence number, which
is independent of thread interleaving.
"""
import builtins
import os
import shutil
import threading

import strax.storage.files as sf
import strax.io as sio

_real_os, _real_shutil = os, shutil


class FS:
    def __init__(self):
        self.log = []            # (label, thread name)
        self.base = ""
        self.fault = None        # (label, occurrence, mode)
        self.count = {}
        self.fired = False
        self.md_first = True
        self.lock = threading.Lock()
        self.hold = None         # Event holding pool workers back (worker timing "late")
        self.shared = None       # path of an append-only event log shared with worker *processes* (multiprocess settings)

    def reset(self, base, fault=None, md_first=True):
        self.md_first = md_first
        self.log = []
        self.base = base
        self.fault = fault
        self.count = {}
        self.fired = False
        self.shared = None

    def share(self, path):
        """Events of worker processes forked later are appended to `path` too; a fault fires in one process only."""
        self.shared = path
        # a run that died (injected death) leaves its log and its claim file behind: start from nothing, or the next run's fault
        # would look claimed already - never fire - and still be reported as fired
        for x in (path, path + ".fired"):
            if _real_os.path.exists(x):
                _real_os.remove(x)
        open(path, "a").close()

    def shared_log(self):
        import json as _json
        out = []
        with open(self.shared) as f:
            for line in f:
                line = line.strip()
                if line:
                    out.append(_json.loads(line))
        return out

    def norm(self, p):
        return str(p).replace(self.base, "$D")

    def pre(self, op, *paths):
        if self.hold is not None and threading.current_thread().name.startswith("ThreadPoolExecutor"):
            self.hold.wait(timeout=5)      # released when the saver thread looks at / waits for a future
        label = op + ":" + ">".join(self.norm(p) for p in paths)
        with self.lock:
            k = self.count.get(label, 0)
            self.count[label] = k + 1
            self.log.append((label, k))
            hit = self.fault is not None and not self.fired and self.fault[0] == label and self.fault[1] == k
            if self.shared is not None:
                import json as _json
                fd = _real_os.open(self.shared, _real_os.O_WRONLY | _real_os.O_APPEND)
                _real_os.write(fd, (_json.dumps([label, k]) + "\n").encode())
                _real_os.close(fd)
                if hit:         # claim the firing across processes
                    try:
                        _real_os.close(_real_os.open(self.shared + ".fired", _real_os.O_CREAT | _real_os.O_EXCL | _real_os.O_WRONLY))
                    except FileExistsError:
                        hit = False
            if hit:
                self.fired = True
        if hit:
            mode = self.fault[2]
            if mode == "error":
                raise OSError(28, f"injected fault at {label}#{k}")
            if mode == "crash_before":
                os._exit(17)
            return "crash_after" if mode == "crash_after" else None
        return None

    def post(self, tok):
        if tok == "crash_after":
            os._exit(17)


STATE = FS()


class OsProxy:
    def __getattr__(self, k):
        return getattr(_real_os, k)

    def rename(self, a, b):
        t = STATE.pre("rename", a, b)
        r = _real_os.rename(a, b)
        STATE.post(t)
        return r

    def makedirs(self, p, *a, **k):
        t = STATE.pre("makedirs", p)
        r = _real_os.makedirs(p, *a, **k)
        STATE.post(t)
        return r

    def remove(self, p):
        t = STATE.pre("remove", p)
        r = _real_os.remove(p)
        STATE.post(t)
        return r


class ShProxy:
    def __getattr__(self, k):
        return getattr(_real_shutil, k)

    def rmtree(self, p, *a, **k):
        """shutil.rmtree of a flat data directory, decomposed into its unlink / rmdir steps so that a
        fault can hit in the middle.  The order in which entries are removed is up to the file system;
        STATE.md_first selects 'metadata first' or 'metadata last'."""
        t = STATE.pre("rmtree", p)      # the call itself (a fault here = nothing removed yet)
        STATE.post(t)
        names = sorted(_real_os.listdir(p))
        md = [n for n in names if "metadata" in n]
        rest = [n for n in names if "metadata" not in n]
        for n in (md + rest if STATE.md_first else rest + md):
            full = _real_os.path.join(p, n)
            t = STATE.pre("unlink", full)
            if _real_os.path.isdir(full):
                _real_shutil.rmtree(full)
            else:
                _real_os.remove(full)
            STATE.post(t)
        t = STATE.pre("rmdir", p)
        _real_os.rmdir(p)
        STATE.post(t)


class WFile:
    """A writable file whose write() is an event of its own (open-truncate and write are separate faults)."""

    def __init__(self, f, name):
        self._f = f
        self._name = name

    def write(self, data):
        t = STATE.pre("write", self._name)
        r = self._f.write(data)
        self._f.flush()
        STATE.post(t)
        return r

    def __enter__(self):
        return self

    def __exit__(self, *a):
        self._f.close()

    def __getattr__(self, k):
        return getattr(self._f, k)


def popen(f, mode="r", *a, **k):
    if "w" in mode:
        t = STATE.pre("open_w", f)
        fh = builtins.open(f, mode, *a, **k)
        STATE.post(t)
        return WFile(fh, f)
    return builtins.open(f, mode, *a, **k)


def hold_workers():
    """Worker timing "late": a pool worker does not touch the file system until the thread that owns its future has
    looked at it - `done()` answers False, *then* the worker runs to completion before the caller continues - or waits
    for it (wait / result).  A legal schedule of the real thread pool (a worker may finish at any moment), made
    deterministic; in this process only."""
    import concurrent.futures as cf
    import strax.storage.common as sc
    STATE.hold = threading.Event()
    real_done, real_result, real_wait = cf.Future.done, cf.Future.result, cf.wait

    def is_worker():
        return threading.current_thread().name.startswith("ThreadPoolExecutor")

    def done(fut):
        r = real_done(fut)
        if not r and not is_worker():
            STATE.hold.set()
            real_wait([fut], timeout=5)
            STATE.hold.clear()
        return r

    def result(fut, timeout=None):
        if not is_worker():
            STATE.hold.set()
        return real_result(fut, timeout)

    def wait(fs, *a, **k):
        STATE.hold.set()
        return real_wait(fs, *a, **k)
    cf.Future.done = done
    cf.Future.result = result
    sc.wait = wait


def install():
    sf.os = OsProxy()
    sf.shutil = ShProxy()
    sf.open = popen
    sio.os = OsProxy()
    sio.open = popen


def uninstall():
    sf.os = _real_os
    sf.shutil = _real_shutil
    sio.os = _real_os
    for m in (sf, sio):
        if "open" in m.__dict__:
            del m.__dict__["open"]
