"""Inline.tla bound to the code: ParallelSourcePlugin.inline_plugins (the rewriting of a request's components under multiprocessing).

TLC enumerates the requests of the scope (stored subset x target x the plugins' `parallel` attributes x rechunk_on_save), checks the
P-level of Inline.tla on each (one origin per data type, no plugin twice, every saver fed) and prints the expected rewriting; the harness
builds the real components with Context.get_components, picks the start plugin the way ThreadedMailboxProcessor.__init__ does and calls
the real inline_plugins: merged plugin's provides / sub_plugins / sub_savers, the remaining savers and plugin keys must be the printed
ones, and no data type may be both loaded and provided.  For the requests that inline something on the multi_both graph the real
multiprocess run (worker processes, module-level plugin classes) must deliver the rows of the single-thread run and store the same types.
"""
import json
import logging
import os
import shutil
import tempfile
import warnings
import numpy as np
import vcommon as V

import strax  # noqa: E402
import hplugins as H  # noqa: E402
import c11  # noqa: E402

PARVAL = dict(no=False, thread=True, process="process")
GRAPHS = ("chain", "multi", "multi_both", "diamond")


def classes(graph, policy, par, rc):
    cl = c11.classes_for(graph, policy)
    for k in cl:
        name = c11.GRAPHS[graph]["plugin"][k.provides[0]]
        k.parallel = PARVAL[par[name]]
        k.rechunk_on_save = bool(rc[name])
    return cl


def enumerate_cases(arg):
    graph, pi = arg
    policy = c11.POLICIES[graph][pi]
    ov = dict(Types="TypesDef", PluginOf="PluginDef", DepsOf="DepsDef", SaveWhen="SaveDef", FEConfigs="FEDef")
    r, cases = V.tlc_cases("Inline", dict(Writable=1, InlineAsFound=False), ["InlineLaws", "EmitInline"], spec="SpecInline", overrides=ov,
                           mc_defs=c11.mc_defs(graph, policy, 1), timeout=2400, workers=2)
    return dict(graph=graph, pi=pi, policy=policy, cases=cases,
                tlc=dict(generated=r.generated, distinct=r.distinct, depth=r.depth, ok=r.ok, violated=r.violated, wall_s=round(r.wall, 1)),
                out=r.out[-1500:] if (not r.ok or r.violated) else "")


def guard(graph="multi_both", pi=0):
    """vacuity guard: inline_plugins as found violates OneOriginAfter in the model"""
    policy = c11.POLICIES[graph][pi]
    ov = dict(Types="TypesDef", PluginOf="PluginDef", DepsOf="DepsDef", SaveWhen="SaveDef", FEConfigs="FEDef")
    files = c11_mc_files(graph, policy, ov, as_found=True)
    d = V.stage_spec(["Components", "Inline"], files)
    r = V.run_tlc(d, "MC", "MC.cfg", workers=2, timeout=1200)
    return dict(what="Inline.tla as found (must violate InlineLaws)", generated=r.generated, distinct=r.distinct, depth=r.depth, ok=r.ok,
                violated=r.violated, wall_s=round(r.wall, 1))


def c11_mc_files(graph, policy, ov, as_found):
    mc = "---- MODULE MC ----\nEXTENDS Inline\n" + c11.mc_defs(graph, policy, 1) + "====\n"
    cfg = ("SPECIFICATION SpecInline\nCONSTANTS\n Writable = 1\n InlineAsFound = " + ("TRUE" if as_found else "FALSE") + "\n"
           + "".join(f" {k} <- {v}\n" for k, v in ov.items()) + "INVARIANT InlineLaws\nCHECK_DEADLOCK FALSE\n")
    return {"MC.tla": mc, "MC.cfg": cfg}


def lst(x):
    return x if isinstance(x, list) else [x[k] for k in sorted(x, key=int)]


def execute(arg):
    graph, policy, case, tpl = arg
    d = tempfile.mkdtemp(prefix="verif_inl_")
    res = dict(case=case, bad=[])
    try:
        for name in os.listdir(tpl):
            if len(name.split("-")) == 3 and name.split("-")[1] in case["stored"]:
                shutil.copytree(os.path.join(tpl, name), os.path.join(d, name))
        st = strax.Context(storage=[strax.DataDirectory(d)], register=classes(graph, policy, case["par"], case["rc"]), allow_multiprocess=True,
                           timeout=120)
        with warnings.catch_warnings():
            warnings.simplefilter("ignore")
            try:
                comp = st.get_components("0", targets=(case["target"],))
            except Exception as e:  # noqa
                if not case["error"]:
                    res["bad"].append(f"get_components raised {type(e).__name__}: {e}"[:200])
                return res
            if case["error"]:
                res["bad"].append("the definition expects an explicit error, get_components returned")
                return res
            mp = {k: p for k, p in comp.plugins.items() if p.parallel == "process"}
            if not case["applies"]:
                return res          # no multiprocess plugin, or the start is not unique up to dict order: outside the scope
            start = list(mp.keys())[int(np.argmin([len(p.depends_on) for p in mp.values()]))]
            if comp.plugins[start] is not comp.plugins[case["start"]]:
                res["bad"].append(f"start plugin: the processor picks {start}, the definition {case['start']}")
                return res
            try:
                new = strax.ParallelSourcePlugin.inline_plugins(comp, start, log=logging.getLogger("inline"))
            except Exception as e:  # noqa
                res["bad"].append(f"inline_plugins raised {type(e).__name__} {e}"[:200])
                return res
        merged = [p for p in new.plugins.values() if isinstance(p, strax.ParallelSourcePlugin)]
        if not case["inlines"]:
            if merged:
                res["bad"].append(f"inline_plugins merged {sorted(merged[0].sub_plugins)}, the definition says there is nothing to inline")
            return res
        if not merged:
            res["bad"].append("inline_plugins merged nothing, the definition merges " + str(sorted(case["sub"])))
            return res
        m = merged[0]
        got = dict(sub=sorted(m.sub_plugins), outputs=sorted(m.provides), subsavers=sorted(k for k, v in m.sub_savers.items() if v),
                   restsavers=sorted(k for k, v in new.savers.items() if v), plugins=sorted(new.plugins), load=sorted(new.loaders))
        exp = {k: sorted(lst(case[k])) for k in got}
        # the start key is recorded under the key the processor chose (any output of the start plugin is equivalent up to naming)
        if got != exp:
            res["bad"].append(f"inline_plugins gives {got}, definition {exp}")
        both = sorted(set(new.loaders) & set(new.plugins))
        if both:
            res["bad"].append(f"after inlining {both} is both loaded and provided by a plugin (the processor asserts on that)")
        return res
    finally:
        shutil.rmtree(d, ignore_errors=True)


def real_run(arg):
    """multi_both with the module-level plugin family: the multiprocess run against the single-thread run"""
    policy, case, tpl = arg[:3]
    import mpplugins as MP
    import multiprocessing
    # this harness process descends from a daemonic pool worker and must be allowed to have process-pool children
    multiprocessing.current_process()._config["daemon"] = False
    res = dict(case=case, bad=[])
    rows = {}
    stored_after = {}
    for mode in ("single_thread", "multiprocess"):
        d = tempfile.mkdtemp(prefix="verif_inlr_")
        try:
            for name in os.listdir(tpl):
                if len(name.split("-")) == 3 and name.split("-")[1] in case["stored"]:
                    shutil.copytree(os.path.join(tpl, name), os.path.join(d, name))
            for name, cl in MP.CLASSES.items():
                cl.parallel = PARVAL[case["par"][name]]
                cl.rechunk_on_save = bool(case["rc"][name])
                sw = {t: c11.SW[policy[t]] for t in cl.provides}
                cl.save_when = strax.SaveWhen.ALWAYS if False else (sw[cl.provides[0]] if len(cl.provides) == 1 else __import__("immutabledict").immutabledict(sw))
            st = strax.Context(storage=[strax.DataDirectory(d)], register=list(MP.CLASSES.values()), allow_multiprocess=mode == "multiprocess",
                               timeout=120)
            with warnings.catch_warnings():
                warnings.simplefilter("ignore")
                try:
                    kw = dict(processor="single_thread") if mode == "single_thread" else dict(processor="threaded_mailbox", max_workers=2)
                    import contextlib
                    import io
                    with contextlib.redirect_stdout(io.StringIO()):
                        x = st.get_array("0", case["target"], progress_bar=False, **kw)
                    rows[mode] = [tuple(int(v) for v in (r["time"], r["endtime"], r["v"])) for r in x]
                except Exception as e:  # noqa
                    rows[mode] = f"{type(e).__name__}: {str(e)[-150:]}"
            stored_after[mode] = sorted(c11.stored_types(d))
        finally:
            shutil.rmtree(d, ignore_errors=True)
    if any(isinstance(v, str) and "Timeout" in v for v in rows.values()) and not (len(arg) > 3 and arg[3] == "retry"):
        return real_run(tuple(arg[:3]) + ("retry",))       # a starved thread on a busy machine looks like a hang: once more
    if rows["multiprocess"] != rows["single_thread"]:
        res["bad"].append(f"multiprocess run gives {rows['multiprocess']}, single-thread run {rows['single_thread']}")
    elif stored_after["multiprocess"] != stored_after["single_thread"]:
        res["bad"].append(f"multiprocess run leaves {stored_after['multiprocess']} stored, single-thread run {stored_after['single_thread']}")
    return res


def mp_template():
    """all data types of the module-level family, stored (lineage: the classes' names differ from the H plugins', so its own template)"""
    import mpplugins as MP
    d = tempfile.mkdtemp(prefix="verif_inl_tpl_")
    V._SCRATCH.append(d)
    for cl in MP.CLASSES.values():
        cl.save_when = strax.SaveWhen.ALWAYS if len(cl.provides) == 1 else __import__("immutabledict").immutabledict({t: strax.SaveWhen.ALWAYS for t in cl.provides})
        cl.parallel = False
    st = strax.Context(storage=[strax.DataDirectory(d)], register=list(MP.CLASSES.values()), allow_multiprocess=False)
    for t in ("src", "mx", "my", "pw"):
        st.make("0", t, progress_bar=False)
    return d


def run_part(chk, pid="C11"):
    quick = chk.tier == "quick"
    jobs = [("chain", 0), ("multi_both", 0)] if quick else [(g, 0) for g in GRAPHS] + [("multi", 2), ("multi_both", 1)]
    enum = V.pmap(enumerate_cases, jobs, procs=6, warm=False)
    work, meta = [], []
    rng = __import__("random").Random(chk.seed + 17)
    for e in enum:
        what = f"Inline.tla {e['graph']} policy {e['policy']}"
        chk.states += e["tlc"]["distinct"]
        chk.transitions += e["tlc"]["generated"]
        chk.tlc_runs.append(dict(what=what, **e["tlc"]))
        if e["tlc"]["violated"]:
            raise V.MachineryError(f"{what}: {e['tlc']['violated']} fails in the model itself: " + e["out"])
        if not e["tlc"]["ok"] or len(e["cases"]) != e["tlc"]["distinct"]:
            raise V.MachineryError(f"{what}: TLC did not finish / {len(e['cases'])} cases for {e['tlc']['distinct']} states: " + e["out"])
        frac = 0.05 if quick else 1.0
        tpl = c11.template_dir(e["graph"])
        for c in e["cases"]:
            if c["inlines"] and (rng.random() < frac or (quick and c["load"] and rng.random() < 0.15)) or (not c["inlines"] and rng.random() < frac / 6):
                work.append((e["graph"], e["policy"], c, tpl))
                meta.append(e)
    res = V.pmap(execute, work)
    for rr, e in zip(res, meta):
        c = rr["case"]
        chk.traces += 1
        chk.case(key="inline:" + json.dumps([e["graph"], e["pi"], c["stored"], c["target"], c["par"], c["rc"]], sort_keys=True), nontrivial=bool(c["inlines"]))
        for b in rr["bad"]:
            chk.violation(f"{pid}:inline:{e['graph']}:policy{e['pi']}:{json.dumps(dict(stored=sorted(c['stored']), target=c['target'], par=c['par'], rc=c['rc']), sort_keys=True)}:{b.split(',')[0][:40]}",
                          f"{e['graph']} graph, save policies {e['policy']}, stored {sorted(c['stored'])}, target {c['target']}, parallel {c['par']}, "
                          f"rechunk_on_save {c['rc']}: {b}", dict(inline=dict(graph=e["graph"], policy=e["policy"], case=c)))
    # real multiprocess runs
    mb = [e for e in enum if e["graph"] == "multi_both" and e["pi"] == 0][0]
    cand = [c for c in mb["cases"] if c["inlines"] and c["target"] == "pw" and "pw" not in c["stored"] and c["par"]["PW"] == "no"]
    rng.shuffle(cand)
    crit = [c for c in cand if len({"mx", "my"} & set(c["stored"])) == 1]
    pick = crit[:6 if quick else 40] + [c for c in cand if c not in crit][:6 if quick else 40]
    tpl = mp_template()
    rres = V.pmap(real_run, [(mb["policy"], c, tpl) for c in pick], procs=4)
    for rr in rres:
        c = rr["case"]
        chk.traces += 1
        chk.case(key="inline-run:" + json.dumps([c["stored"], c["par"], c["rc"]], sort_keys=True), nontrivial=True)
        for b in rr["bad"]:
            chk.violation(f"{pid}:inline-run:{json.dumps(dict(stored=sorted(c['stored']), par=c['par'], rc=c['rc']), sort_keys=True)}:{b.split(' ')[0]}",
                          f"multi_both (module-level classes), stored {sorted(c['stored'])}, target pw, parallel {c['par']}, rechunk_on_save {c['rc']}: {b}",
                          dict(inline_run=dict(policy=mb["policy"], case=c)))
    g = guard()
    chk.tlc_runs.append(g)
    if g["violated"] != "InlineLaws":
        raise V.MachineryError("Inline guard: the as-found rule should violate InlineLaws, TLC says " + str(g))
    chk.extra["inline"] = dict(requests_compared_with_inline_plugins=len(work), real_multiprocess_runs=len(pick),
                               guard="InlineAsFound = TRUE violates InlineLaws in the model")
