"""Running real strax pipelines (Context + ThreadedMailboxProcessor / SingleThreadProcessor) under the
deterministic scheduler, with failures injected at (stage, chunk) and a P-level observation record.
Shared by C06, C13 and C01."""
import logging
import os
import random
import shutil
import tempfile
import warnings

import numpy as np

logging.disable(logging.CRITICAL)
import strax  # noqa: E402
import strax.mailbox as mbmod  # noqa: E402
import dsched  # noqa: E402
import hplugins as H  # noqa: E402

_SHIM = dsched.make_threading_shim()
_REAL_THREADING = mbmod.threading

NCHUNKS = 3


def src_chunks(n=NCHUNKS):
    return [dict(s=10 * i, e=10 * (i + 1), rows=[[10 * i + 1, 10 * i + 3, 2 * i + 1], [10 * i + 4, 10 * i + 6, 2 * i + 2]])
            for i in range(n)]


def step_hook(name, i):
    s = dsched.SCHED
    if s is not None and s.cur is not None:
        s.yield_point(("step", f"{name}:{i}"))


TOPOLOGIES = ("chain", "diamond", "multi_saved", "multi_discard", "multi_unsaved")
# not in TOPOLOGIES (its own check): "diamond_lag" - the diamond with one branch holding back `lag` chunks, nothing saved (LagNet.tla)


def build_classes(topo, fail=None, n=NCHUNKS, rec=None, hook=step_hook, save_side=True, lag=0):
    """Plugin classes of a topology; fail = (stage, k) makes that plugin's compute raise at its k-th call.
    Returns (classes, target, all data types)."""
    def fa(stage):
        return fail[1] if fail and fail[0] == stage else None
    src = H.source("src", src_chunks(n), fail_at=fa("src"), rec=rec, step_hook=hook)
    if topo == "chain":
        a = H.rowmap("pa", "src", fail_at=fa("pa"), rec=rec, step_hook=hook, rechunk_on_save=False)
        b = H.rowmap("pb", "pa", fail_at=fa("pb"), mul=2, add=0, rec=rec, step_hook=hook, rechunk_on_save=False)
        return [src, a, b], "pb", ("src", "pa", "pb")
    if topo == "diamond_lag":
        nv = strax.SaveWhen.NEVER
        src = H.source("src", src_chunks(n), rec=rec, step_hook=hook, save_when=nv)
        a = H.samekind_map("pa", "src", "ab", "va", mul=1, add=1, rec=rec, step_hook=hook, rechunk_on_save=False, save_when=nv)
        b = H.lagged(H.samekind_map("pb", "src", "ab", "vb", mul=2, add=0, rec=rec, step_hook=hook, rechunk_on_save=False, save_when=nv), lag)
        c = H.combine("pc", ("pa", "pb"), ("va", "vb"), rec=rec, step_hook=hook, rechunk_on_save=False, save_when=nv)
        return [src, a, b, c], "pc", ("src", "pa", "pb", "pc")
    if topo == "diamond":
        a = H.samekind_map("pa", "src", "ab", "va", mul=1, add=1, fail_at=fa("pa"), rec=rec, step_hook=hook, rechunk_on_save=False)
        b = H.samekind_map("pb", "src", "ab", "vb", mul=2, add=0, fail_at=fa("pb"), rec=rec, step_hook=hook, rechunk_on_save=False)
        c = H.combine("pc", ("pa", "pb"), ("va", "vb"), fail_at=fa("pc"), rec=rec, step_hook=hook, rechunk_on_save=False)
        return [src, a, b, c], "pc", ("src", "pa", "pb", "pc")
    if topo in ("multi_saved", "multi_discard", "multi_unsaved"):
        # multi_unsaved: neither output has a saver - the mailbox of the consumed output owns no thread of its own
        sw = {"mx": strax.SaveWhen.NEVER if topo == "multi_unsaved" else strax.SaveWhen.ALWAYS,
              "my": strax.SaveWhen.ALWAYS if topo == "multi_saved" else strax.SaveWhen.NEVER}
        m = H.multi(("mx", "my"), "src", fail_at=fa("mx"), save_when=sw, rec=rec, step_hook=hook)
        z = H.rowmap("pz", "mx", fail_at=fa("pz"), rec=rec, step_hook=hook, rechunk_on_save=False)
        return [src, m, z], "pz", ("src", "mx", "my", "pz")
    raise ValueError(topo)


def whole_run(topo, n=NCHUNKS):
    rows = [r for c in src_chunks(n) for r in c["rows"]]
    if topo == "chain":
        return [[r[0], r[1], 2 * (3 * r[2] + 1)] for r in rows]
    if topo in ("diamond", "diamond_lag"):
        return [[r[0], r[1], (r[2] + 1) + 2 * r[2]] for r in rows]
    return [[r[0], r[1], 3 * (2 * r[2]) + 1] for r in rows]


class Injector:
    """Failures in savers / loaders: patched at the boundary of the storage backend."""

    def __init__(self, fail):
        self.fail = fail
        self.counts = {}
        self.orig_save = strax.FileSaver._save_chunk
        self.orig_read = strax.FileSytemBackend._read_chunk
        self.orig_close = strax.FileSaver._close

    def __enter__(self):
        inj = self
        if self.fail and self.fail[0].startswith("save:"):
            dt, k = self.fail[0][5:], self.fail[1]

            def _save_chunk(saver, data, chunk_info, executor=None):
                step_hook("save:" + saver.md["data_type"], chunk_info["chunk_i"])
                if saver.md["data_type"] == dt and chunk_info["chunk_i"] == k:
                    raise H.HarnessFailure(f"save:{dt} fails at chunk {k}")
                return inj.orig_save(saver, data, chunk_info, executor=executor)
            strax.FileSaver._save_chunk = _save_chunk
        if self.fail and self.fail[0].startswith("close:"):
            dt = self.fail[0][6:]

            def _close(saver):
                if saver.md["data_type"] == dt:
                    raise H.HarnessFailure(f"close:{dt} fails at chunk {self.fail[1]}")
                return inj.orig_close(saver)
            strax.FileSaver._close = _close
        if self.fail and self.fail[0].startswith("load:"):
            dt, k = self.fail[0][5:], self.fail[1]

            def _read_chunk(be, dirname, chunk_info, dtype, compressor):
                if f"-{dt}-" in dirname and chunk_info["chunk_i"] == k:
                    raise H.HarnessFailure(f"load:{dt} fails at chunk {k}")
                return inj.orig_read(be, dirname, chunk_info, dtype, compressor)
            strax.FileSytemBackend._read_chunk = _read_chunk
        return self

    def __exit__(self, *a):
        strax.FileSaver._save_chunk = self.orig_save
        strax.FileSytemBackend._read_chunk = self.orig_read
        strax.FileSaver._close = self.orig_close


class RelayTracer:
    """Projection of a running ThreadedMailboxProcessor onto the variables of spec/Pipeline.tla (chain topologies):
    one event per scheduler step.  Nothing in /repo is changed: the processor instance is captured by wrapping
    __init__, and 'END was pushed' by wrapping Mailbox.send (no scheduling point lies between the push and the
    return of send, so the flag is set in the same atomic step)."""

    def __init__(self, stages, sc):
        self.stages = list(stages)       # data types in chain order = model stages 1..NS
        self.sc = sc
        self.proc = None
        self.events = []

    def __enter__(self):
        import strax.processors.threaded_mailbox as tm
        tr = self
        self._init = tm.ThreadedMailboxProcessor.__init__
        self._send = strax.Mailbox.send

        def __init__(proc, *a, **k):
            tr._init(proc, *a, **k)
            tr.proc = proc

        def send(mb, msg, msg_number=None):
            n0 = mb._n_sent
            r = tr._send(mb, msg, msg_number)
            if msg is StopIteration and mb._n_sent == n0 + 1:
                mb._verif_ended = True
            return r
        tm.ThreadedMailboxProcessor.__init__ = __init__
        strax.Mailbox.send = send
        return self

    def __exit__(self, *a):
        import strax.processors.threaded_mailbox as tm
        tm.ThreadedMailboxProcessor.__init__ = self._init
        strax.Mailbox.send = self._send

    @staticmethod
    def reason(mb):
        if not mb.killed:
            return "none"
        kb = mb.killed_because
        e = kb[1] if isinstance(kb, (tuple, list)) and len(kb) == 3 else kb
        if isinstance(e, H.HarnessFailure):
            return "orig"
        if type(e).__name__ == "OutsideException":
            return "stop"
        return "other:" + type(e).__name__

    def actor(self, name):
        kind, _, d = name.partition(":")
        if kind in ("build", "load") and d in self.stages:
            return dict(kind="stage", i=self.stages.index(d) + 1)
        if kind == "save_0" and d in self.stages:
            return dict(kind="saver", i=self.stages.index(d) + 1)
        if name == "main":
            return dict(kind="main", i=0)
        return dict(kind="other", i=0)

    def saved(self):
        return [i + 1 for i, d in enumerate(self.stages) if any(t.name == f"save_0:{d}" for t in self.proc.mailboxes[d]._threads)]

    def snapshot(self, sched, actor_name, main_done, outcome):
        if self.proc is None:
            return
        if any(d not in self.proc.mailboxes for d in self.stages):      # a different graph (e.g. an intermediate type is loaded)
            self.proc = None
            self.events = []
            return
        ns = len(self.stages)
        saved = self.saved()
        done = {t.name: t.state == "done" for t in sched.tasks}
        ev = dict(actor=self.actor(actor_name), sent=[], ended=[], killed=[], force=[], reason=[], rd=[], waiting=[],
                  sdone=[bool(done.get(f"build:{d}", False) or done.get(f"load:{d}", False)) for d in self.stages],
                  vdone=[bool(done.get(f"save_0:{d}", False)) for d in self.stages],
                  mdone=bool(done.get("main", False)), outcome=outcome)
        for i, d in enumerate(self.stages, 1):
            mb = self.proc.mailboxes[d]
            ended = bool(getattr(mb, "_verif_ended", False))
            ev["sent"].append(mb._n_sent - (1 if ended else 0))
            ev["ended"].append(ended)
            ev["killed"].append(bool(mb.killed))
            ev["force"].append(bool(mb.force_killed))
            ev["reason"].append(self.reason(mb))
            # subscription order: the next stage's plugin (P), then the saver (S), then - for the target - the caller (M)
            names = (["P"] if i < ns else []) + (["S"] if i in saved else []) + (["M"] if i == ns else [])
            hr, wf = mb._subscribers_have_read, mb._subscriber_waiting_for
            ev["rd"].append({r: (hr[j] + 1 if j < len(hr) else 0) for j, r in enumerate(names)})
            ev["waiting"].append({r: bool(j < len(wf) and wf[j] is not None) for j, r in enumerate(names)})
        if self.events and {k: v for k, v in self.events[-1].items() if k != "actor"} == {k: v for k, v in ev.items() if k != "actor"}:
            return          # nothing visible changed: a stuttering step
        self.events.append(ev)


def run_scenario(sc, schedule_seed=0, under_dsched=True, record=None, tracer=None):
    """sc: dict(topo, fail, lazy, max_messages, processor, consumer, n).
    consumer: None (get_array) | ("raise", k) | ("close", k) | ("pause", k)
    Returns the observation record."""
    topo, fail = sc["topo"], sc.get("fail")
    n = sc.get("n", NCHUNKS)
    d = tempfile.mkdtemp(prefix="verif_pipe_")
    rec = H.Recorder()
    obs = dict(outcome="", exc_type="", exc_msg="", hang=None, live=0, rows=None, steps=0, src_calls=0, maxbox={}, chunks=None)
    try:
        classes, target, types = build_classes(topo, fail=fail if fail and ":" not in fail[0] else None, n=n, rec=rec, lag=sc.get("lag", 0))
        if fail and fail[0].startswith("load:"):
            # pre-store the loaded type with a clean context
            c0, _, _ = build_classes(topo, n=n, hook=lambda *a: None)
            st0 = strax.Context(storage=[strax.DataDirectory(d)], register=c0, allow_multiprocess=False)
            st0.make("0", fail[0][5:], progress_bar=False)
        st = strax.Context(storage=[strax.DataDirectory(d)], register=classes, allow_multiprocess=False,
                           allow_lazy=sc.get("lazy", True), max_messages=sc.get("max_messages", 4), timeout=None or 3600)
        cons = sc.get("consumer")

        def action():
            if cons is None:
                x = st.get_array("0", target, processor=sc["processor"], progress_bar=False)
                return H.array_to_rows(x)
            it = st.get_iter("0", target, processor=sc["processor"], progress_bar=False)
            got = []
            chunks = []
            for i, ch in enumerate(it):
                step_hook("consumer", i)
                if cons[0] == "raise" and i == cons[1]:
                    raise H.HarnessFailure(f"consumer fails at chunk {i}")
                got += H.array_to_rows(ch.data)
                chunks.append([ch.start, ch.end])
                if cons[0] == "close" and i == cons[1]:
                    it.close()
                    break
                if cons[0] == "pause" and i == cons[1]:
                    step_hook("consumer-paused", i)
                    dsched.SCHED.yield_point(("pred", lambda: False))    # never pulls again
            obs["chunks"] = chunks
            return got

        with Injector(fail), warnings.catch_warnings():
            warnings.simplefilter("ignore")
            if not under_dsched or sc["processor"] != "threaded_mailbox":
                try:
                    obs["rows"] = action()
                    obs["outcome"] = "returned"
                except BaseException as e:  # noqa
                    obs["outcome"], obs["exc_type"], obs["exc_msg"] = "raised", type(e).__name__, str(e)[:100]
            else:
                _run_under_dsched(action, obs, schedule_seed, st, record, sc, tracer)
        obs["src_calls"] = rec.count("src")
        obs["compute_calls"] = {t: rec.count(t) for t in types}
        return obs
    finally:
        mbmod.threading = _REAL_THREADING
        shutil.rmtree(d, ignore_errors=True)


def _run_under_dsched(action, obs, seed, st, record, sc, tracer=None):
    mbmod.threading = _SHIM
    s = dsched.set_sched(dsched.Sched())
    rng = random.Random(seed)
    box = {}

    def main():
        try:
            obs["rows"] = action()
            obs["outcome"] = "returned"
        except dsched.Abort:
            raise
        except BaseException as e:  # noqa
            obs["outcome"], obs["exc_type"], obs["exc_msg"] = "raised", type(e).__name__, str(e)[:100]
    s.spawn("main", main)
    pri = {}
    mode = sc.get("sched", "random")
    try:
        while True:
            en = s.enabled_tasks()
            if not en:
                left = [(t.name, t.want and t.want[0]) for t in s.tasks if t.state != "done"]
                paused = any(w == "pred" for _, w in left)
                if left and not paused:
                    obs["hang"] = left
                if paused:
                    obs["quiescent"] = left
                break
            if mode == "pct":       # priority-based: random priorities, occasional priority change
                for t in en:
                    if t.name not in pri:
                        pri[t.name] = rng.random()
                if rng.random() < 0.05:
                    t0 = rng.choice(en)
                    pri[t0.name] = rng.random() * 0.1
                t = max(en, key=lambda x: pri[x.name])
            else:
                t = rng.choice(en)
            s.step(t)
            if record is not None:
                record.append(t.name)
            if tracer is not None:
                tracer.snapshot(s, t.name, obs["outcome"] != "", obs["outcome"] + ":" + obs["exc_type"] + ":" + obs["exc_msg"])
            if s.nsteps > 20000:
                obs["hang"] = "step limit"
                break
    finally:
        obs["steps"] = s.nsteps
        obs["live"] = sum(1 for t in s.tasks if t.state != "done" and t.name != "main" and not (t.want and t.want[0] == "pred"))
        s.abort()
        import gc
        gc.collect()      # finalise abandoned generators now, while their locks are known to be inactive
        mbmod.threading = _REAL_THREADING
        dsched.set_sched(None)
