"""C13: production is limited by demand and buffer capacity (backpressure).

Mailbox level: spec/Mailbox.tla is model-checked for CapInv (eager: never more than the capacity
buffered) and the action property LazyDemand (lazy: the source is advanced only while a driving
reader waits for a message that has not been produced); the binding to strax.Mailbox is the
lock-step replay of C05, and any TLC counterexample is replayed on the real mailbox where the same
predicate is evaluated at the moment the source is advanced.
Pipeline level: real pipelines run under the deterministic scheduler with a consumer that stops
pulling at every pause point; at quiescence the number of source computations is compared between
runs of N and 2N chunks, len(_mailbox) is checked against the capacity after every step, and the
demand predicate is evaluated at every source advance.  TLC judges the observations (BackpressureObs.tla).
"""
import json
import os
import re
import random
import vcommon as V
import c05
import c06
import pipeline as PL
import dsched
import strax
import strax.mailbox as mbmod


# ----------------------------------------------------------------------------- mailbox level
def mailbox_job(c):
    name = c05.cfg_name(c)
    files = c05.mc_files(c)
    files["MC.cfg"] = files["MC.cfg"].replace("PROPERTY Termination\n", "PROPERTY Termination\nPROPERTY LazyDemand\n")
    d = V.stage_spec(["Mailbox"], files)
    r = V.run_tlc(d, "MC", "MC.cfg", workers=1, timeout=900, heap="3g")
    res = dict(name=name, cfg=c, tlc=dict(generated=r.generated, distinct=r.distinct, depth=r.depth, ok=r.ok, violated=r.violated,
                                          wall=r.wall), violation=None, machinery=None, advances=0)
    if not (r.ok or r.violated or r.deadlock):
        res["machinery"] = r.out[-1500:]
        return res
    if r.violated or r.deadlock:
        path = c05.trace_threads(r.trace)
        run = c05.MbRun(c)
        try:
            ok = all(run.step_named(t) for t in path)
            maxbox = len(run.mb._mailbox)
            bad_adv = [i for i, dmd in enumerate(run.advances) if not dmd]
            if r.violated == "LazyDemand" and ok and bad_adv:
                res["violation"] = dict(kind="LazyDemand", path=path,
                                        text=f"lazy mailbox {name}: the source was advanced (advance #{bad_adv[0]}) while no driving "
                                             f"subscriber was waiting for an unproduced message; schedule {path}")
            elif r.violated == "CapInv" and ok and maxbox > c["Cap"]:
                res["violation"] = dict(kind="CapInv", path=path, text=f"eager mailbox {name} holds {maxbox} > capacity")
            else:
                res["machinery"] = f"TLC reports {r.violated or 'deadlock'} on {name} but the real mailbox does not reproduce it ({ok}, {run.advances})"
        finally:
            run.close()
        return res
    # no counterexample: sample real schedules and evaluate the same predicates
    for k in range(6):
        rr = random.Random(k * 7 + hash(name) % 1000)
        run = c05.MbRun(c)
        try:
            mx = 0
            while True:
                en = run.s.enabled_tasks()
                if not en:
                    break
                run.s.step(rr.choice(en))
                mx = max(mx, len(run.mb._mailbox))
            res["advances"] += len(run.advances)
            if c["Lazy"] and not all(run.advances):
                res["violation"] = dict(kind="LazyDemand", path=[x[0] for x in run.s.trace], text=f"lazy mailbox {name}: source advanced without demand")
            if not c["Lazy"] and mx > c["Cap"]:
                res["violation"] = dict(kind="CapInv", path=[x[0] for x in run.s.trace], text=f"eager mailbox {name} holds {mx} > capacity {c['Cap']}")
        finally:
            run.close()
    return res


# ----------------------------------------------------------------------------- pipeline level
class Watch:
    """Tracks every Mailbox created, its sources' advances and its buffer size after every scheduler step."""

    def __init__(self):
        self.boxes = []
        self.bad_advance = []
        self.maxbox = {}

    def __enter__(self):
        w = self
        self.orig_init = strax.Mailbox.__init__
        self.orig_add = strax.Mailbox.add_sender

        def init(mb, *a, **k):
            w.orig_init(mb, *a, **k)
            w.boxes.append(mb)

        def add_sender(mb, source, name=None):
            def wrapped():
                it = iter(source)
                while True:
                    if mb.lazy and not mb.killed:
                        box = {n for n, _ in mb._mailbox}
                        if not any(d and x is not None and x not in box
                                   for d, x in zip(mb._subscriber_can_drive, mb._subscriber_waiting_for)):
                            w.bad_advance.append((mb.name, sorted(box), list(mb._subscriber_waiting_for)))
                    try:
                        x = next(it)
                    except StopIteration:
                        return
                    yield x
            g = wrapped()
            return w.orig_add(mb, _Thrower(g, source), name=name)
        strax.Mailbox.__init__ = init
        strax.Mailbox.add_sender = add_sender
        return self

    def __exit__(self, *a):
        strax.Mailbox.__init__ = self.orig_init
        strax.Mailbox.add_sender = self.orig_add

    def sample(self):
        for mb in self.boxes:
            if not mb.lazy:
                n = len(mb._mailbox)
                if n > self.maxbox.get(mb.name, (0, 0))[0]:
                    self.maxbox[mb.name] = (n, mb.max_messages)


class _Thrower:
    """Iterator proxy that forwards throw() to the original source."""

    def __init__(self, g, source):
        self.g, self.source = g, source

    def __iter__(self):
        return self

    def __next__(self):
        return next(self.g)

    def throw(self, e):
        if hasattr(self.source, "throw"):
            return self.source.throw(e)
        raise e


def pause_job(arg):
    sc, seeds = arg
    out = []
    relay = None
    for seed in seeds:
        res = {}
        for n in (sc["n"], 2 * sc["n"]):
            with Watch() as w:
                orig_step = dsched.Sched.step

                def step(s, t, _o=orig_step, _w=w):
                    _o(s, t)
                    _w.sample()
                dsched.Sched.step = step
                tracer = PL.RelayTracer(("src", "pa", "pb"), sc) if sc["topo"] == "chain" and n == sc["n"] else None
                try:
                    if tracer is not None:
                        with tracer:
                            obs = PL.run_scenario(dict(sc, n=n, sched="random"), schedule_seed=seed, tracer=tracer)
                    else:
                        obs = PL.run_scenario(dict(sc, n=n, sched="random"), schedule_seed=seed)
                finally:
                    dsched.Sched.step = orig_step
                if tracer is not None and tracer.proc is not None:
                    relay = c06.relay_record(dict(sc, n=n), tracer, dict(outcome="", orig=False))
            res[n] = dict(src_calls=obs["src_calls"], hang=obs["hang"], quiescent=bool(obs.get("quiescent")), outcome=obs["outcome"],
                          bad_advance=w.bad_advance[:3], over=[(k, v) for k, v in w.maxbox.items() if v[0] > v[1]])
        a, b = res[sc["n"]], res[2 * sc["n"]]
        out.append(dict(sc=sc, seed=seed, o=dict(lazy=sc["lazy"], cap=sc["max_messages"], pause=sc["consumer"][1],
                                                 callsN=a["src_calls"], calls2N=b["src_calls"], n=sc["n"],
                                                 rest=bool(a["quiescent"] and b["quiescent"] and not a["hang"] and not b["hang"]),
                                                 over=bool(a["over"] or b["over"]), nodemand=bool(a["bad_advance"] or b["bad_advance"])),
                        detail=dict(N=a, N2=b), relay=relay if sc["topo"] == "chain" else None))
        relay = None
    return out


def pipeline_model_job(arg):
    ns, nch, caps, saved, ks, backpressure = arg
    mc = (f"---- MODULE MC ----\nEXTENDS Pipeline\nFailDef == {V.to_tla(set(('pause', 0, k) for k in ks))}\nSavedDef == {V.to_tla(set(saved))}\n"
          f"CapDef == {V.to_tla(set(caps))}\n====\n")
    cfg = (f"SPECIFICATION Spec\nCONSTANTS NS = {ns} NChunks = {nch} MainKills = TRUE Backpressure = {V.to_tla(backpressure)} LazySet = {{TRUE, FALSE}}\n"
           "CONSTANT FailSet <- FailDef\nCONSTANT Saved <- SavedDef\nCONSTANT CapSet <- CapDef\n"
           "INVARIANT NoDeadlock\nINVARIANT EagerCap\nINVARIANT PauseBound\nPROPERTY LazyDemand\nPROPERTY Terminates\nCHECK_DEADLOCK FALSE\n")
    d = V.stage_spec(["Pipeline"], {"MC.tla": mc, "MC.cfg": cfg})
    r = V.run_tlc(d, "MC", "MC.cfg", workers=4, timeout=3000, heap="3g")
    return dict(arg=arg, generated=r.generated, distinct=r.distinct, depth=r.depth, ok=r.ok, violated=r.violated or ("deadlock" if r.deadlock else None),
                wall=r.wall, out=None if (r.ok or r.violated or r.deadlock) else r.out[-1500:])


def pipeline_model(chk):
    """Design level: spec/Pipeline.tla with a consumer that stops pulling after k chunks - all schedules, eager and lazy, for run lengths N
    and 2N: capacity never exceeded, lazy gates pass only on demand, production bounded independently of the run length; without
    backpressure the bounds must fail."""
    quick = chk.tier == "quick"
    work = []
    for ns, saved in (((2, ()), (2, (1, 2))) if quick else ((2, ()), (2, (1, 2)), (3, ()), (3, (1, 3)))):
        for nch in ((16, 32) if ns == 2 else (12, 24)):          # long enough for the bound to bite: NChunks > k + NS * (2 * cap + 1)
            work.append((ns, nch, (1, 2) if quick or ns == 3 else (1, 2, 3), saved, (1, 2), True))
    work.append((2, 16, (1,), (), (1,), False))
    res = V.pmap(pipeline_model_job, work, procs=4)
    for r in res:
        if r["out"]:
            raise V.MachineryError("Pipeline.tla (pause) failed to run: " + r["out"])
        a = r["arg"]
        chk.states += r["distinct"]
        chk.transitions += r["generated"]
        chk.tlc_runs.append(dict(what=f"Pipeline.tla consumer pauses: NS={a[0]} NChunks={a[1]} caps={a[2]} saved={a[3]} pause after {a[4]} backpressure={a[5]}",
                                 generated=r["generated"], distinct=r["distinct"], depth=r["depth"], ok=r["ok"], violated=r["violated"], wall_s=round(r["wall"], 1)))
        if a[5] and r["violated"]:
            chk.violation(f"C13:pipeline-model:{r['violated']}:NS{a[0]}:N{a[1]}:saved{a[3]}",
                          f"spec/Pipeline.tla (NS={a[0]}, NChunks={a[1]}, caps={a[2]}, saved={a[3]}, pause after {a[4]}) violates {r['violated']}", dict(kind="model", arg=list(a)))
        if not a[5] and r["violated"] not in ("EagerCap", "PauseBound"):
            raise V.MachineryError(f"Pipeline.tla without backpressure satisfies the C13 bounds ({r['violated']}): no teeth")


def run(chk):
    V.quiet_threads()
    quick = chk.tier == "quick"
    pipeline_model(chk)
    # a graph that is not a chain: the lagging diamond of LagNet.tla with a consumer that stops
    import lagnet
    lagnet.pause_grid(chk, "C13")
    # mailbox level
    cs = [c for c in c05.all_configs(max_msg=3 if quick else 5, max_sub=3 if quick else 3, caps=(1, 2) if quick else (1, 2, 3, 4),
                                     perm_msgs=0, fut=False) if c["NMsg"] >= 1]
    if quick:
        cs = [c for c in cs if c["NSub"] <= 2 or (c["Lazy"] and c["NMsg"] == 2)]
    res = V.pmap(mailbox_job, cs)
    for r in res:
        if r["machinery"]:
            raise V.MachineryError(r["machinery"])
        chk.states += r["tlc"]["distinct"]
        chk.transitions += r["tlc"]["generated"]
        chk.tlc_runs.append(dict(what=r["name"], **r["tlc"]))
        chk.case(key=r["name"], nontrivial=True)
        if r["violation"]:
            v = r["violation"]
            chk.traces += 1
            chk.violation(f"C13:mailbox:{v['kind']}:{r['name']}", v["text"], dict(kind="mailbox", cfg=r["cfg"], schedule=v["path"]))
    chk.extra["mailbox_configs"] = len(cs)
    chk.extra["source_advances_observed"] = sum(r["advances"] for r in res)
    # pipeline level
    S = []
    for topo in ("chain", "diamond", "multi_saved", "multi_discard"):
        for lazy, mm in ((True, 4), (False, 1), (False, 2)) if quick else ((True, 4), (True, 2), (False, 1), (False, 2), (False, 3), (False, 4)):
            for k in ((0, 1) if quick else (0, 1, 2)):
                S.append(dict(topo=topo, processor="threaded_mailbox", lazy=lazy, max_messages=mm, n=8 + 6 * mm, fail=None,
                              consumer=("pause", k)))
    nsched = 3 if quick else 12
    pres = [x for out in V.pmap(pause_job, [(sc, [chk.seed * 100 + i for i in range(nsched)]) for sc in S]) for x in out]
    d = V.stage_spec(["BackpressureObs"], {"BackpressureObs.cfg": "SPECIFICATION Spec\nINVARIANT Accepted\nCHECK_DEADLOCK FALSE\n"})
    with open(os.path.join(d, "obs.json"), "w") as f:
        json.dump([r["o"] for r in pres], f)
    r = V.run_tlc(d, "BackpressureObs", workers=1, timeout=900, env={"TRACE_FILE": os.path.join(d, "obs.json")}, args=["-continue"])
    chk.add_tlc(r, "P-level validation of backpressure observations (BackpressureObs.tla)")
    if not (r.ok or r.violated):
        raise V.MachineryError("BackpressureObs failed: " + r.out[-2000:])
    rejected = sorted({int(m.group(1)) for m in re.finditer(r"tid = (\d+)", r.out)})
    # the chain runs are also validated, step by step, against spec/Pipeline.tla (PauseBound and EagerCap evaluated along the traces)
    c06.relay_validate(chk, [dict(sc=pr["sc"], seed=pr["seed"], sched="random", relay=pr["relay"]) for pr in pres if pr.get("relay")], pid="C13")
    for i, pr in enumerate(pres, 1):
        chk.case(key=json.dumps([pr["sc"], pr["seed"]], default=str), nontrivial=True)
        chk.traces += 1
        if i in rejected:
            o, sc = pr["o"], pr["sc"]
            bad = []
            if not o["rest"]:
                bad.append("pipeline does not come to rest")
            if o["callsN"] != o["calls2N"]:
                bad.append(f"source chunks after the consumer stopped depend on the run length ({o['callsN']} for N, {o['calls2N']} for 2N)")
            if o["over"]:
                bad.append("an eager mailbox buffered more than its capacity")
            if o["nodemand"]:
                bad.append("a lazy source was advanced without a driving reader waiting for an unproduced message")
            chk.violation(f"C13:pipeline:{sc['topo']}:{'lazy' if sc['lazy'] else 'eager'}:cap{sc['max_messages']}:" + "|".join(b.split(' (')[0] for b in bad),
                          f"{sc['topo']} lazy={sc['lazy']} max_messages={sc['max_messages']} pause after chunk {o['pause']} seed {pr['seed']}: "
                          + "; ".join(bad) + f" {pr['detail']}", dict(kind="pipeline", sc=sc, seed=pr["seed"]))
    chk.sample(dict(scenario=pres[0]["sc"], observation=pres[0]["o"]))
    chk.sample(dict(mailbox_config=res[-1]["name"], tlc=res[-1]["tlc"]))
    chk.rule = ("mailbox level: every lazy/eager configuration (subscribers x messages x capacity x driver masks) model-checked for CapInv and "
                "LazyDemand, counterexamples replayed on the real mailbox; pipeline level: topology x lazy/eager x capacity x pause point x "
                "seeded schedules, N vs 2N source chunks; every case is non-trivial")
    chk.assumptions += ["timeouts never fire", "quiescence = no enabled thread under the deterministic scheduler while the consumer holds the iterator"]


def replay(chk, path):
    rp = json.load(open(path))["replay"]
    if rp["kind"] == "mailbox":
        run = c05.MbRun(rp["cfg"])
        try:
            for t in rp["schedule"]:
                if not run.step_named(t):
                    break
            print("advances with demand:", run.advances, "box:", sorted(n for n, _ in run.mb._mailbox))
            return 1 if (rp["cfg"]["Lazy"] and not all(run.advances)) else 0
        finally:
            run.close()
    sc = rp["sc"]
    sc["consumer"] = tuple(sc["consumer"])
    out = pause_job((sc, [rp["seed"]]))
    print(out[0]["o"])
    o = out[0]["o"]
    return 1 if (not o["rest"] or o["callsN"] != o["calls2N"] or o["over"] or o["nodemand"]) else 0
