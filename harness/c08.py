"""C08: plugins see time-aligned inputs and receive each input row exactly once.

spec/PluginIter.tla transcribes Plugin.iter (I-level) and chooses the chunking of every dependency
nondeterministically from all law-abiding chunkings; TLC checks the C08 predicates
(spec/PluginIterP.tla) on every reachable state and prints each terminal behaviour.  The harness
drives the real strax.Plugin.iter with the same chunkings, records the arguments of compute, and
(a) has TLC judge every recorded real run against the P-level (PluginIterTrace.tla) - the verdict -
(b) compares it with the I-level prediction (drift information).
"""
import json
import os
import re
import numpy as np
import vcommon as V
import strax

TF = strax.time_fields

PAT = {
    "two": [[1, 3], [4, 6]],
    "three": [[0, 2], [2, 5], [5, 6]],
    "giant": [[0, 6]],
    "empty": [],
    "one": [[2, 3]],
    "overlap": [[0, 3], [1, 2], [4, 5]],
    "many": [[0, 1], [1, 2], [2, 3], [3, 4]],
    "stairA": [[0, 3], [3, 6]],
    "stairB": [[1, 4], [4, 7]],
    "late": [[5, 7]],
}


def scenarios(tier):
    S = []

    def add(kinds, pats, ends, strict=True, maxchunks=3):
        S.append(dict(ND=len(kinds), KindOf=kinds, Rows={k: PAT[p] for k, p in pats.items()},
                      RunEnd=ends, Strict=strict, MaxChunks=maxchunks, pats=pats))
    # one dependency
    add([1], {1: "three"}, [7])
    add([1], {1: "empty"}, [3])
    # two dependencies of different kinds
    add([1, 2], {1: "two", 2: "three"}, [7, 7])
    add([1, 2], {1: "giant", 2: "many"}, [6, 6])
    add([1, 2], {1: "stairA", 2: "stairB"}, [7, 7])
    add([1, 2], {1: "overlap", 2: "one"}, [5, 5])
    add([1, 2], {1: "empty", 2: "two"}, [6, 6])
    # same kind (row aligned), independent chunkings
    add([1, 1], {1: "three"}, [6, 6])
    add([1, 1], {1: "overlap"}, [6, 6])
    # dependencies ending at different times
    add([1, 2], {1: "two", 2: "late"}, [6, 7])
    add([1, 2], {1: "late", 2: "two"}, [7, 6])
    add([1, 2], {1: "two", 2: "one"}, [7, 5])
    add([1, 2], {1: "two", 2: "late"}, [6, 7], strict=False)
    # three dependencies
    add([1, 2, 1], {1: "two", 2: "three"}, [7, 7, 7], maxchunks=2)
    add([1, 2, 3], {1: "stairA", 2: "stairB", 3: "one"}, [7, 7, 7], maxchunks=2)
    if tier == "thorough":
        add([1, 2], {1: "many", 2: "stairB"}, [7, 7], maxchunks=4)
        add([1, 2], {1: "three", 2: "overlap"}, [6, 6], maxchunks=4)
        add([1, 2], {1: "stairA", 2: "stairB"}, [7, 7], strict=False, maxchunks=4)
        add([1, 2, 1], {1: "overlap", 2: "three"}, [6, 6, 6], maxchunks=3)
        add([1, 2, 3], {1: "stairA", 2: "stairB", 3: "many"}, [7, 7, 7], maxchunks=3)
        add([1, 2, 3], {1: "two", 2: "late", 3: "giant"}, [7, 7, 6], maxchunks=2)
        add([1, 1, 2, 2], {1: "two", 2: "three"}, [7, 7, 7, 7], maxchunks=2)
        add([1, 2, 3, 1], {1: "stairA", 2: "stairB", 3: "one"}, [7, 7, 7, 7], maxchunks=2)
        add([1, 2], {1: "giant", 2: "late"}, [7, 8], maxchunks=4)
    return S


def mc_defs(sc):
    kinds = sorted(sc["Rows"])
    rows = "(" + " @@ ".join(f"{k} :> {V.to_tla(tuple(tuple(r) for r in sc['Rows'][k]))}" for k in kinds) + ")"
    return (f"KindDef == {V.to_tla(tuple(sc['KindOf']))}\nRowsDef == {rows}\nEndDef == {V.to_tla(tuple(sc['RunEnd']))}\n")


# ----------------------------------------------------------------------------- real Plugin.iter
class Dep(strax.Plugin):
    depends_on = ()
    dtype = TF


def make_plugin(sc):
    nd = sc["ND"]
    kinds = sc["KindOf"]
    calls = []
    kind_names = []
    for k in kinds:
        if f"k{k}" not in kind_names:
            kind_names.append(f"k{k}")
    args = ", ".join(kind_names)
    body = ", ".join(f"'{kn}': [(int(r['time']), int(r['endtime'])) for r in {kn}]" for kn in kind_names)
    fields = ", ".join(f"'{kn}': tuple({kn}.dtype.names)" for kn in kind_names)
    src = (f"def compute(self, {args}, start, end):\n"
           f"    self.calls.append((start, end, {{{body}}}, {{{fields}}}))\n"
           f"    return np.zeros(0, self.dtype)\n")
    loc = {}
    exec(src, {"np": np}, loc)
    ns = dict(depends_on=tuple(f"d{d}" for d in range(1, nd + 1)), provides="out", dtype=TF, data_kind="out",
              compute=loc["compute"],
              save_when=strax.SaveWhen.ALWAYS if sc["Strict"] else strax.SaveWhen.NEVER)
    P = type("P", (strax.Plugin,), ns)
    p = P()
    p.calls = calls
    p.run_id = "0"
    p.fix_dtype()
    depp = {}
    for d in range(1, nd + 1):
        dt = TF + [((f"value of d{d}", f"v{d}"), np.int32)]
        q = type(f"D{d}", (Dep,), dict(provides=f"d{d}", data_kind=f"k{kinds[d - 1]}", dtype=dt))()
        q.run_id = "0"
        q.fix_dtype()
        depp[f"d{d}"] = q
    p.deps = depp
    return p


def mkchunk(c, d, kind):
    rows = c["rows"]
    dt = np.dtype(TF + [((f"value of d{d}", f"v{d}"), np.int32)])
    a = np.zeros(len(rows), dtype=dt)
    for i, (t, e) in enumerate(rows):
        a[i]["time"] = t
        a[i]["endtime"] = e
        a[i][f"v{d}"] = 100 * d + t
    return strax.Chunk(data_type=f"d{d}", data_kind=f"k{kind}", dtype=dt, run_id="0", start=c["s"], end=c["e"], data=a)


def real_run(sc, src0):
    """Drive the real Plugin.iter with the chunking src0; return (calls per dep, outcome, error text)."""
    nd = sc["ND"]
    p = make_plugin(sc)
    iters = {f"d{d}": iter([mkchunk(c, d, sc["KindOf"][d - 1]) for c in src0[d - 1]]) for d in range(1, nd + 1)}
    err = ""
    import warnings
    try:
        with warnings.catch_warnings():
            warnings.simplefilter("ignore")
            for _ in p.iter(iters):
                pass
    except Exception as e:  # noqa
        err = f"{type(e).__name__}: {e}"[:200]
    calls = []
    for (s, e, rows, fields) in p.calls:
        per = []
        for d in range(1, nd + 1):
            kn = f"k{sc['KindOf'][d - 1]}"
            per.append(dict(s=s, e=e, rows=[list(r) for r in rows[kn]]))
            # same-kind merge: the merged array must carry the payload fields of every same-kind dependency
            if f"v{d}" not in fields[kn]:
                err = err or f"MergeLost: field v{d} of dependency d{d} missing from merged kind {kn}"
        calls.append(per)
    return calls, ("error" if err else "done"), err


def job(sc):
    name = sc["name"]
    consts = dict(ND=sc["ND"], Strict=sc["Strict"], MaxChunks=sc["MaxChunks"])
    over = dict(KindOf="KindDef", RowsOfKind="RowsDef", RunEnd="EndDef")
    invs = ["Emit", "Aligned", "Adjacent", "SameKindAligned", "RowsInsideCall", "PrefixOK"]
    r, cases = V.tlc_cases("PluginIter", consts, invs, overrides=over, mc_defs=mc_defs(sc), timeout=3000, heap="4g")
    res = dict(name=name, tlc=dict(generated=r.generated, distinct=r.distinct, depth=r.depth, ok=r.ok,
                                   violated=r.violated, wall=r.wall), cases=len(cases), drift=[], traces=[],
               nontrivial=0, model_violation=None, machinery=None, sample=None)
    nbad = sum(1 for c in cases if not c["plevel"])
    if r.violated or nbad:
        res["model_violation"] = (r.violated or f"PLevel false on {nbad} behaviours", None, r.out[-800:])
    if not (r.ok or r.violated):
        res["machinery"] = r.out[-1500:]
        return res
    for case in cases:
        src0 = case["src0"]
        calls, outcome, err = real_run(sc, src0)
        exp_calls = [[dict(s=c["s"], e=c["e"], rows=c["rows"]) for c in call] for call in case["calls"]]
        exp_out = "error" if case["err"] else "done"
        if calls != exp_calls or outcome != exp_out:
            if len(res["drift"]) < 5:
                res["drift"].append(dict(src0=src0, expected=(exp_calls, case["err"]), got=(calls, err)))
        res["traces"].append(dict(calls=calls, outcome=outcome, src0=src0, err=err))
        if len(calls) > 1 or outcome == "error":
            res["nontrivial"] += 1
        if res["sample"] is None and len(calls) >= 3:
            res["sample"] = dict(scenario=name, src0=src0, calls=calls, outcome=outcome)
    return res


def validate(chk, sc, traces):
    files = {"MCT.tla": f"---- MODULE MCT ----\nEXTENDS PluginIterTrace\n{mc_defs(sc)}\n====\n",
             "MCT.cfg": V.cfg_text(dict(ND=sc["ND"], Strict=sc["Strict"]), ["Accepted"], spec="TSpec",
                                   overrides=dict(KindOf="KindDef", RowsOfKind="RowsDef", RunEnd="EndDef"))}
    d = V.stage_spec([], files)
    with open(os.path.join(d, "traces.json"), "w") as f:
        json.dump([dict(calls=t["calls"], outcome=t["outcome"]) for t in traces], f)
    r = V.run_tlc(d, "MCT", "MCT.cfg", workers=1, timeout=1800, env={"TRACE_FILE": os.path.join(d, "traces.json")},
                  args=["-continue"], heap="4g")
    rejected = sorted({int(m.group(1)) for m in re.finditer(r"tid = (\d+)", r.out)})
    if not (r.ok or r.violated):
        raise V.MachineryError("PluginIterTrace failed: " + r.out[-2000:])
    if r.violated and not rejected:
        raise V.MachineryError("PluginIterTrace: violation without trace id: " + r.out[-2000:])
    return r, rejected


def vjob(arg):
    sc, traces = arg
    chk = None
    r, rejected = validate(chk, sc, traces)
    return dict(generated=r.generated, distinct=r.distinct, depth=r.depth, ok=r.ok, violated=r.violated, wall=r.wall), rejected


def run(chk):
    S = scenarios(chk.tier)
    for i, sc in enumerate(S):
        sc["name"] = f"s{i}:" + ",".join(f"{k}={p}" for k, p in sc["pats"].items()) + f":ends={sc['RunEnd']}:strict={int(sc['Strict'])}:kinds={sc['KindOf']}"
    chk.rule = ("scenario = dependency kinds x row patterns x run ends x strictness; per scenario TLC enumerates every independent "
                "law-abiding chunking of every dependency (<= MaxChunks chunks incl. empty / zero-duration) and explores Plugin.iter; "
                "every terminal behaviour is replayed through the real Plugin.iter and the recorded compute arguments are judged by "
                "TLC against PluginIterP; non-trivial = more than one compute call or an error outcome")
    chk.exhaustive = True
    results = V.pmap(job, S)
    vwork = []
    for sc, res in zip(S, results):
        if res["machinery"]:
            raise V.MachineryError(res["machinery"])
        chk.states += res["tlc"]["distinct"]
        chk.transitions += res["tlc"]["generated"]
        chk.tlc_runs.append(dict(what=res["name"], **res["tlc"]))
        if res["model_violation"]:
            # the model itself violates the property: confirm on the real code via the recorded traces below
            chk.extra.setdefault("model_violations", []).append(dict(scenario=res["name"], inv=res["model_violation"][0]))
        chk.drift += [dict(scenario=res["name"], **d) for d in res["drift"]]
        chk.evaluations += len(res["traces"])
        for k in range(res["nontrivial"]):
            chk.nontrivial.add(f"{res['name']}#{k}")
        if res["sample"]:
            chk.sample(res["sample"])
        if res["traces"]:
            vwork.append((sc, res["traces"]))
    vres = V.pmap(vjob, vwork)
    for (sc, traces), (tl, rejected) in zip(vwork, vres):
        chk.tlc_runs.append(dict(what="P-level validation " + sc["name"], **tl))
        chk.states += tl["distinct"]
        chk.transitions += tl["generated"]
        chk.traces += len(traces)
        for i in rejected:
            t = traces[i - 1]
            chk.violation(f"C08:{sc['name']}:{json.dumps(t['src0'])}",
                          f"real Plugin.iter run violates C08: chunking {t['src0']} -> compute calls {t['calls']} "
                          f"outcome={t['outcome']} {t['err']}", dict(scenario=sc, src0=t["src0"]))
    if chk.extra.get("model_violations") and not chk.violations and not chk.known_hit:
        raise V.MachineryError(f"PluginIter.tla violates its own P-level but the real code does not: {chk.extra['model_violations']}")
    chk.assumptions += ["rows are (time, endtime) intervals with t < e; same-kind dependencies carry identical rows",
                        "compute arguments are observed by a recording plugin driven directly through Plugin.iter"]


def replay(chk, path):
    rp = json.load(open(path))["replay"]
    sc = rp["scenario"]
    sc["Rows"] = {int(k): v for k, v in sc["Rows"].items()}
    calls, outcome, err = real_run(sc, rp["src0"])
    print("calls:", calls, "outcome:", outcome, err)
    r, rejected = validate(None, sc, [dict(calls=calls, outcome=outcome)])
    print("P-level:", "REJECTED" if rejected else "accepted")
    return 1 if rejected else 0
