"""C18: hit finding and data reduction keep exactly the samples they should.

spec/Hits.tla defines hits (maximal runs of in-record samples at or above the per-channel
threshold with time, length, area, height, peak time, record index), record links, the samples kept
by cut_outside_hits (within the left / right extension of a hit, continuing into the adjacent
fragment), and baseline / integration with exact rationals; TLC enumerates every waveform of the
scope, checks the internal laws and prints the expected results, which are compared with the real
numba functions of strax.processing.pulse_processing / data_reduction.
"""
import json
from fractions import Fraction
import numpy as np
import vcommon as V
import strax

S = 4


def make_records(recs, rms=0.0, raw=False):
    r = np.zeros(len(recs), dtype=strax.record_dtype(S))
    for i, x in enumerate(recs):
        r[i]["time"], r[i]["length"], r[i]["dt"], r[i]["channel"] = x["t"], x["len"], 1, x["ch"]
        r[i]["record_i"] = x["ri"]
        r[i]["pulse_length"] = 2 * S
        r[i]["data"] = x["data"]
        r[i]["baseline_rms"] = rms
    return r


def lst(x):
    return x if isinstance(x, list) else [x[k] for k in sorted(x, key=int)]


def hits_tuple(h):
    return [(int(x["left"]), int(x["right"]), int(x["time"]), int(x["length"]), float(x["area"]), float(x["height"]), int(x["max_time"]),
             int(x["channel"]), int(x["record_i"]), float(x["threshold"])) for x in h]


def exp_tuple(hs):
    return [(h["left"], h["right"], h["time"], h["length"], float(h["area"]), float(h["height"]), h["maxt"], h["ch"], h["ri"], float(h["thr"]))
            for h in hs]


def check_hits1(case):
    bad = []
    recs = case["recs"]
    for tk, exp in (case["hits"].items() if isinstance(case["hits"], dict) else enumerate(case["hits"], 1)):
        t = int(tk)
        r = make_records(recs)
        got = hits_tuple(strax.find_hits(r, min_amplitude=t))
        if got != exp_tuple(exp):
            bad.append((f"find_hits:{recs}:thr={t}", f"find_hits({recs}, min_amplitude={t}) = {got}, definition {exp_tuple(exp)}"))
    return bad, int(any(case["recs"][0]["data"]))


def check_hits2(case):
    bad = []
    recs = case["recs"]
    got = hits_tuple(strax.find_hits(make_records(recs), min_amplitude=(2, 1)))
    if got != exp_tuple(case["perch"]):
        bad.append((f"find_hits-per-channel:{recs}", f"find_hits({recs}, min_amplitude=(2,1)) = {got}, definition {exp_tuple(case['perch'])}"))
    got = hits_tuple(strax.find_hits(make_records(recs, rms=1.0), min_amplitude=0, min_height_over_noise=(1, 3)))
    if got != exp_tuple(case["noise"]):
        bad.append((f"find_hits-noise:{recs}", f"find_hits({recs}, rms=1, min_height_over_noise=(1,3)) = {got}, definition {exp_tuple(case['noise'])}"))
    return bad, 1


def check_links(case):
    recs = case["recs"]
    p, n = strax.record_links(make_records(recs))
    got = ([int(x) for x in p], [int(x) for x in n])
    exp = (lst(case["prev"]), lst(case["next"]))
    if got != exp:
        return [(f"record_links:{[(x['ch'], x['t'], x['ri']) for x in recs]}",
                 f"record_links({[(x['ch'], x['t'], x['ri']) for x in recs]}) = {got}, definition {exp}")], 1
    return [], int(any(x != -1 for x in exp[0]))


def check_cut(case):
    bad = []
    recs = case["recs"]
    for (L, R), exp in zip(case["exts"], case["cut"]):
        r = make_records(recs)
        before = r.copy()
        hits = strax.find_hits(r, min_amplitude=2)
        new = strax.cut_outside_hits(r, hits, left_extension=L, right_extension=R)
        got = [[int(v) for v in x["data"]] for x in new]
        if got != [list(e) for e in exp]:
            bad.append((f"cut_outside_hits:{[x['data'] for x in recs]}:len={[x['len'] for x in recs]}:L={L}:R={R}",
                        f"cut_outside_hits({recs}, L={L}, R={R}) keeps {got}, definition {exp}"))
        meta = [f for f in r.dtype.names if f not in ("data", "reduction_level")]
        if any(not np.array_equal(new[f], before[f]) for f in meta) or not np.array_equal(r["data"], before["data"]):
            bad.append((f"cut_outside_hits-metadata:{recs}", "record metadata or the input records were altered"))
    return bad, int(bool(case["hits"]))


def check_baseline(case):
    bad = []
    recs = case["recs"]
    raw = [dict(x, data=[10 + v for v in x["data"]]) for x in recs]      # raw ADC counts around 10
    r = make_records(raw)
    strax.baseline(r, baseline_samples=2, flip=True)
    mean = Fraction(case["num"], case["den"]) + 10
    exp_data = case["data"]
    for i in range(len(recs)):
        n = recs[i]["len"]
        got = [int(v) for v in r[i]["data"]]
        # valid samples: int(baseline) - raw = (bint + 10) - (10 + v) = bint - v ; beyond len: untouched raw
        exp = [exp_data[i][k] if k < n else raw[i]["data"][k] for k in range(S)]
        if got != exp:
            bad.append((f"baseline-data:{recs}", f"baseline() stores {got} for fragment {i}, definition {exp}"))
        if abs(float(r[i]["baseline"]) - float(mean)) > 1e-4:
            bad.append((f"baseline-value:{recs}", f"baseline field {r[i]['baseline']} != {float(mean)}"))
    w = [10 + v for v in recs[0]["data"][:2]]
    var = Fraction(sum((Fraction(x) - Fraction(sum(w), 2)) ** 2 for x in w), 2)
    if abs(float(r[0]["baseline_rms"]) ** 2 - float(var)) > 1e-4:
        bad.append((f"baseline-rms:{recs}", f"baseline_rms^2 {float(r[0]['baseline_rms']) ** 2} != {float(var)}"))
    strax.zero_out_of_bounds(r)
    strax.integrate(r)
    got_area = [int(x) for x in r["area"]]
    if got_area != list(case["area"]):
        bad.append((f"integrate:{recs}", f"integrate gives areas {got_area}, definition {case['area']}"))
    return bad, 1


CHECK = dict(hits1=check_hits1, hits2=check_hits2, links=check_links, cut2=check_cut, cut3=check_cut, baseline=check_baseline)


def _job(arg):
    kind, cases = arg
    out, n = [], 0
    for c in cases:
        b, nt = CHECK[kind](c)
        out += b
        n += nt
    return out, n


def run(chk):
    quick = chk.tier == "quick"
    scopes = [("hits1", "{0, 1, 2, 3}"), ("hits2", "{0, 1, 3}" if quick else "{0, 1, 2, 3}"), ("links", "{1}"), ("cut2", "{0, 2}" if quick else "{0, 1, 2}"),
              ("cut3", "{0, 2}"), ("baseline", "{0, 1, 3}" if quick else "{0, 1, 2, 3}")]
    # compile in the parent
    check_hits1(dict(recs=[dict(ch=0, t=5, len=4, ri=0, data=[0, 2, 2, 0])], hits={"1": [dict(left=1, right=3, time=6, length=2, area=4, height=2, maxt=6, ch=0, ri=0, thr=1)]}))
    for kind, alpha in scopes:
        r, cases = V.tlc_cases("Hits", dict(S=S, Kind=kind), ["Laws", "Emit"], overrides=dict(Alphabet="AlphaDef"),
                               mc_defs=f"AlphaDef == {alpha}\n", timeout=3000)
        chk.add_tlc(r, f"Hits {kind} alphabet {alpha}")
        if r.violated == "Laws":
            raise V.MachineryError("Hits.tla: internal law fails: " + r.out[-1500:])
        V.tlc_must_finish(r, f"Hits {kind}")
        if not r.ok or len(cases) != r.distinct:
            raise V.MachineryError(f"Hits {kind}: {len(cases)} cases for {r.distinct} states\n" + r.out[-1500:])
        if quick and kind in ("cut3", "hits2", "baseline"):
            rng = __import__("random").Random(chk.seed)
            cases = [c for c in cases if rng.random() < (0.15 if kind == "cut3" else 0.4)]
        CHECK[kind](cases[0])      # compile the numba functions in the parent before forking
        res = V.pmap(_job, [(kind, ch) for ch in V.chunks_of(cases, V.NCPU * 2)])
        nt = 0
        for bad, n in res:
            nt += n
            for sig, text in bad:
                chk.violation("C18:" + sig, text, dict(kind=kind, signature=sig))
        chk.evaluations += len(cases)
        chk.traces += len(cases)
        for i in range(nt):
            chk.nontrivial.add(f"{kind}-{i}")
        chk.sample(dict(kind=kind, case=cases[len(cases) // 3]))
    chk.exhaustive = not quick
    chk.rule = ("every waveform over a small amplitude alphabet in records of 4 samples: single records (all thresholds 1..3, full and short length), "
                "two channels with per-channel and noise-scaled thresholds, all 3-record channel / time / fragment-index patterns for linking, "
                "pulses of two fragments (and an interleaved other channel) x nine (left, right) extensions 0..4 for data reduction, baselining "
                "and integration of two-fragment pulses; non-trivial = non-zero waveform / a link / a hit")
    chk.assumptions += ["integer baselines for hit finding (fractional baseline parts are covered by the baseline / integrate cases)",
                        "float32 fields compared with tolerance 1e-4; baseline_rms through its square"]


def replay(chk, path):
    rp = json.load(open(path))
    print(rp["signature"], "\n", rp["text"])
    return 0
