"""C11: only what is missing is computed, and only what policy allows is saved.

spec/Components.tla defines ToRun / ToLoad / ToSave / MustError set-theoretically and transcribes
the check_cache recursion of Context.get_components; TLC checks transcription = definition on every
request of the scope (stored subset x target x save= x modifier x forbid_creation_of, for several
graphs and save-policy assignments) and prints the expected sets.  The harness compares with the
real Context.get_components and with a real run (compute-call counters, storage before / after).
"""
import json
import os
import shutil
import tempfile
import logging
import warnings
import numpy as np
import vcommon as V

logging.disable(logging.CRITICAL)
import strax  # noqa: E402
import hplugins as H  # noqa: E402
import pipeline as PL  # noqa: E402

SW = dict(NEVER=strax.SaveWhen.NEVER, EXPLICIT=strax.SaveWhen.EXPLICIT, TARGET=strax.SaveWhen.TARGET, ALWAYS=strax.SaveWhen.ALWAYS)

GRAPHS = {
    "chain": dict(types=["src", "pa", "pb"], plugin=dict(src="Src", pa="PA", pb="PB"), deps=dict(Src=[], PA=["src"], PB=["pa"])),
    "multi": dict(types=["src", "mx", "my", "pz"], plugin=dict(src="Src", mx="M", my="M", pz="PZ"),
                  deps=dict(Src=[], M=["src"], PZ=["mx"])),
    # a consumer of *both* outputs of a multi-output plugin: with one of them stored the plugin still has to run for the other,
    # and the stored one must reach the consumer from its loader only
    "multi_both": dict(types=["src", "mx", "my", "pw"], plugin=dict(src="Src", mx="M", my="M", pw="PW"),
                       deps=dict(Src=[], M=["src"], PW=["mx", "my"])),
    "diamond": dict(types=["src", "pa", "pb", "pc"], plugin=dict(src="Src", pa="PA", pb="PB", pc="PC"),
                    deps=dict(Src=[], PA=["src"], PB=["src"], PC=["pa", "pb"])),
    # as multi_both, but one output reaches the consumer through a plugin that reads its whole input before it delivers anything
    # (ExhaustPlugin): the multi-output plugin has finished before the consumer asks for the first chunk of the other output
    "multi_lag": dict(types=["src", "mx", "my", "pe", "pw"], plugin=dict(src="Src", mx="M", my="M", pe="PE", pw="PW"),
                      deps=dict(Src=[], M=["src"], PE=["mx"], PW=["pe", "my"])),
}
POLICIES = {
    "chain": [dict(src="ALWAYS", pa="ALWAYS", pb="ALWAYS"), dict(src="ALWAYS", pa="TARGET", pb="EXPLICIT"),
              dict(src="EXPLICIT", pa="NEVER", pb="TARGET")],
    "multi": [dict(src="ALWAYS", mx="ALWAYS", my="ALWAYS", pz="ALWAYS"), dict(src="ALWAYS", mx="TARGET", my="ALWAYS", pz="TARGET"),
              dict(src="TARGET", mx="EXPLICIT", my="NEVER", pz="ALWAYS"), dict(src="ALWAYS", mx="NEVER", my="TARGET", pz="EXPLICIT")],
    "multi_both": [dict(src="ALWAYS", mx="ALWAYS", my="ALWAYS", pw="ALWAYS"), dict(src="ALWAYS", mx="TARGET", my="EXPLICIT", pw="TARGET")],
    "diamond": [dict(src="ALWAYS", pa="ALWAYS", pb="TARGET", pc="ALWAYS"), dict(src="EXPLICIT", pa="TARGET", pb="NEVER", pc="TARGET")],
    "multi_lag": [dict(src="ALWAYS", mx="ALWAYS", my="EXPLICIT", pe="NEVER", pw="NEVER")],
}


def classes_for(graph, policy, rec=None):
    sw = {k: SW[v] for k, v in policy.items()}
    n = 2
    src = H.source("src", PL.src_chunks(n), save_when=sw["src"], rec=rec)
    if graph == "chain":
        return [src, H.rowmap("pa", "src", save_when=sw["pa"], rec=rec, rechunk_on_save=False),
                H.rowmap("pb", "pa", save_when=sw["pb"], rec=rec, mul=2, add=0, rechunk_on_save=False)]
    if graph == "multi":
        return [src, H.multi(("mx", "my"), "src", save_when={"mx": sw["mx"], "my": sw["my"]}, rec=rec),
                H.rowmap("pz", "mx", save_when=sw["pz"], rec=rec, rechunk_on_save=False)]
    if graph == "multi_both":
        return [src, H.multi(("mx", "my"), "src", save_when={"mx": sw["mx"], "my": sw["my"]}, rec=rec),
                H.pair("pw", "mx", "my", save_when=sw["pw"], rec=rec)]
    if graph == "multi_lag":
        return [src, H.multi(("mx", "my"), "src", save_when={"mx": sw["mx"], "my": sw["my"]}, rec=rec),
                H.exhaust("pe", "mx", save_when=sw["pe"], rec=rec), H.pair("pw", "pe", "my", save_when=sw["pw"], rec=rec)]
    return [src, H.samekind_map("pa", "src", "ab", "va", add=1, save_when=sw["pa"], rec=rec, rechunk_on_save=False),
            H.samekind_map("pb", "src", "ab", "vb", mul=2, save_when=sw["pb"], rec=rec, rechunk_on_save=False),
            H.combine("pc", ("pa", "pb"), ("va", "vb"), save_when=sw["pc"], rec=rec, rechunk_on_save=False)]


def fe_configs(graph):
    """Frontend configurations of the multi-frontend family: read-only, take_only and exclude filters on two data directories."""
    ts = GRAPHS[graph]["types"]
    a, b, z = ts[0], ts[1], ts[-1]
    rw = dict(ro=False, only=set(), excl=set())
    return [[rw, rw], [dict(rw, ro=True), rw], [rw, dict(rw, ro=True)],
            [dict(rw, excl={b}), dict(rw, only={b})], [dict(ro=True, only={a}, excl=set()), dict(rw, excl={a})],
            [dict(rw, only={z}), dict(rw, ro=True)], [dict(rw, excl={a, z}), dict(rw, excl={b})]]


def mc_defs(graph, policy, writable):
    g = GRAPHS[graph]
    f = lambda d: "(" + " @@ ".join(f'"{k}" :> {V.to_tla(v)}' for k, v in d.items()) + ")"   # noqa: E731
    fe = "{" + ", ".join("<<" + ", ".join(f"[ro |-> {V.to_tla(x['ro'])}, only |-> {V.to_tla(x['only'])}, excl |-> {V.to_tla(x['excl'])}]"
                                          for x in cfg) + ">>" for cfg in fe_configs(graph)) + "}"
    return (f"TypesDef == {V.to_tla(set(g['types']))}\nPluginDef == {f(g['plugin'])}\n"
            f"DepsDef == {f({k: tuple(v) for k, v in g['deps'].items()})}\nSaveDef == {f(policy)}\nFEDef == {fe}\n")


_TEMPLATE = {}


def template_dir(graph):
    """A directory holding every data type of the graph (made with an all-ALWAYS policy)."""
    if graph not in _TEMPLATE:
        d = tempfile.mkdtemp(prefix="verif_c11_tpl_")
        V._SCRATCH.append(d)
        pol = {t: "ALWAYS" for t in GRAPHS[graph]["types"]}
        st = strax.Context(storage=[strax.DataDirectory(d)], register=classes_for(graph, pol), allow_multiprocess=False)
        for t in GRAPHS[graph]["types"]:
            st.make("0", t, progress_bar=False)
        _TEMPLATE[graph] = d
    return _TEMPLATE[graph]


def stored_types(d):
    out = set()
    for name in os.listdir(d):
        parts = name.split("-")
        if len(parts) == 3 and not name.endswith("_temp"):
            out.add(parts[1])
    return out


def execute(arg):
    graph, policy, writable, case, tpl = arg[:5]
    d = tempfile.mkdtemp(prefix="verif_c11_")
    d2 = tempfile.mkdtemp(prefix="verif_c11b_") if writable == 2 else None
    res = dict(case=case, bad=[])
    try:
        for name in os.listdir(tpl):
            if len(name.split("-")) == 3 and name.split("-")[1] in case["stored"]:
                shutil.copytree(os.path.join(tpl, name), os.path.join(d, name))

        def ctx(rec=None):
            storage = [strax.DataDirectory(d)] + ([strax.DataDirectory(d2)] if d2 else [])
            st = strax.Context(storage=storage, register=classes_for(graph, policy, rec=rec), allow_multiprocess=False, timeout=120)
            cc = {}
            if case["forbid"] == "all":
                cc["forbid_creation_of"] = "*"
            elif case["forbid"] != "none":
                cc["forbid_creation_of"] = (case["forbid"],)
            if case["mod"] == "fuzzy":
                cc["fuzzy_for"] = ("src",)
            if case["mod"] == "incomplete":
                cc["allow_incomplete"] = True
            st.set_context_config(cc)
            return st
        kw = {}
        if case["mod"] == "time_range":
            kw["time_range"] = (0, 20)
        if case["mod"] == "selection":
            kw["selection"] = "time >= 0"
        if case["mod"] == "columns":
            kw["keep_columns"] = ("time", "endtime")
        st = ctx()
        got = None
        with warnings.catch_warnings():
            warnings.simplefilter("ignore")
            try:
                comp = st.get_components("0", targets=(case["target"],), save=tuple(case["save"]), **kw)
                got = dict(err="", compute=sorted(comp.plugins), load=sorted(comp.loaders),
                           saves=sorted(k for k, v in comp.savers.items() if v),
                           nsavers=sorted(set(len(v) for v in comp.savers.values() if v)))
            except Exception as e:  # noqa
                got = dict(err=type(e).__name__)
        for x in os.listdir(d):       # savers created by get_components leave temp directories behind
            if x.endswith("_temp"):
                shutil.rmtree(os.path.join(d, x))
        if case["error"]:
            if not got["err"]:
                res["bad"].append(f"expected an explicit error, get_components returned {got}")
            elif case["errkind"] == "ValueError" and got["err"] != "ValueError":
                res["bad"].append(f"expected ValueError, got {got['err']}")
            elif case["errkind"] == "any" and got["err"] not in ("DataNotAvailable", "ValueError"):
                res["bad"].append(f"expected DataNotAvailable / ValueError, got {got['err']}")
        else:
            exp = dict(err="", compute=sorted(case["compute"]), load=sorted(case["load"]), saves=sorted(case["saves"]),
                       nsavers=[writable] if case["saves"] else [])
            if got != exp:
                res["bad"].append(f"get_components gives {got}, definition gives {exp}")
            # the real run on both processors: who computes, what is delivered, what is stored afterwards
            ref_rows = None
            for proc in ("single_thread", "threaded_mailbox"):
                for dd in (d, d2):
                    if dd:
                        shutil.rmtree(dd, ignore_errors=True)
                        os.makedirs(dd)
                for name in os.listdir(tpl):
                    if len(name.split("-")) == 3 and name.split("-")[1] in case["stored"]:
                        shutil.copytree(os.path.join(tpl, name), os.path.join(d, name))
                rec = H.Recorder()
                st = ctx(rec)
                before = stored_types(d)
                try:
                    import postoffice
                    po_tr = postoffice.Tracer() if proc == "single_thread" else __import__("contextlib").nullcontext()
                    with warnings.catch_warnings(), po_tr:
                        warnings.simplefilter("ignore")
                        x = st.get_array("0", case["target"], save=tuple(case["save"]), progress_bar=False, processor=proc, **kw)
                    if proc == "single_thread":
                        res["po_logs"] = po_tr.observations(completed=True)
                    rows = [tuple(int(v) for v in (r["time"], r["endtime"])) for r in x]
                    if ref_rows is None:
                        ref_rows = rows
                    elif rows != ref_rows:
                        res["bad"].append(f"{proc} delivers {len(rows)} rows, single_thread {len(ref_rows)}")
                    ran = sorted({c[0] for c in rec.calls})
                    ran_plugins = sorted({GRAPHS[graph]["plugin"][("mx" if t == "mx" else t)] for t in ran})
                    after = stored_types(d)
                    if ran_plugins != sorted(case["run"]):
                        res["bad"].append(f"{proc}: plugins that computed {ran_plugins}, expected {sorted(case['run'])}")
                    if after - before != set(case["saves"]):
                        res["bad"].append(f"{proc}: newly stored {sorted(after - before)}, expected {sorted(case['saves'])}")
                    if d2 is not None and stored_types(d2) != set(case["saves"]):
                        res["bad"].append(f"{proc}: second frontend stored {sorted(stored_types(d2))}, expected {sorted(case['saves'])}")
                except Exception as e:  # noqa
                    if "Timeout" in type(e).__name__ and not arg[-1] == "retry":
                        # a starved thread on a busy machine looks like a hang: the whole case once more (a real hang shows again)
                        r2 = execute(tuple(arg) + ("retry",))
                        r2["retried_after_timeout"] = True
                        return r2
                    res["bad"].append(f"the run on {proc} raised {type(e).__name__}: {str(e)[:100]}")
        return res
    finally:
        shutil.rmtree(d, ignore_errors=True)
        if d2:
            shutil.rmtree(d2, ignore_errors=True)


def execute_fe(arg):
    """One case of the multi-frontend family: two data directories with read-only / take_only / exclude filters."""
    graph, policy, case, tpl = arg
    dirs = [tempfile.mkdtemp(prefix="verif_c11f_") for _ in case["fe"]]
    res = dict(case=case, bad=[])
    try:
        for d, has in zip(dirs, case["has"]):
            for name in os.listdir(tpl):
                if len(name.split("-")) == 3 and name.split("-")[1] in has:
                    shutil.copytree(os.path.join(tpl, name), os.path.join(d, name))

        def ctx(rec=None):
            storage = [strax.DataDirectory(d, readonly=bool(f["ro"]), take_only=tuple(f["only"]), exclude=tuple(f["excl"]))
                       for d, f in zip(dirs, case["fe"])]
            return strax.Context(storage=storage, register=classes_for(graph, policy, rec=rec), allow_multiprocess=False, timeout=120)

        def where(path):
            return next((i + 1 for i, d in enumerate(dirs) if str(path).startswith(d)), 0)
        origin = case["origin"] if isinstance(case["origin"], dict) else {}
        exp = dict(compute=sorted(case["compute"]), load=sorted(case["load"]), origin={k: int(v) for k, v in origin.items()},
                   savers=[sorted(x) for x in case["saves"]])
        st = ctx()
        with warnings.catch_warnings():
            warnings.simplefilter("ignore")
            try:
                comp = st.get_components("0", targets=(case["target"],), save=tuple(case["save"]))
                got = dict(compute=sorted(comp.plugins), load=sorted(comp.loaders),
                           origin={k: st.storage.index(v.func.__self__) + 1 for k, v in comp.loaders.items()},
                           savers=[sorted(k for k, v in comp.savers.items() if any(where(s.tempdirname) == f + 1 for s in v))
                                   for f in range(len(dirs))])
            except Exception as e:  # noqa
                got = dict(err=f"{type(e).__name__}: {e}"[:150])
        for d in dirs:
            for x in os.listdir(d):
                if x.endswith("_temp"):
                    shutil.rmtree(os.path.join(d, x))
        if got != exp:
            res["bad"].append(f"get_components gives {got}, definition gives {exp}")
        rec = H.Recorder()
        st = ctx(rec)
        before = [stored_types(d) for d in dirs]
        try:
            with warnings.catch_warnings():
                warnings.simplefilter("ignore")
                st.get_array("0", case["target"], save=tuple(case["save"]), progress_bar=False)
            ran = sorted({GRAPHS[graph]["plugin"][t] for t in {c[0] for c in rec.calls}})
            if ran != sorted(case["run"]):
                res["bad"].append(f"plugins that computed {ran}, expected {sorted(case['run'])}")
            for f, d in enumerate(dirs):
                new = stored_types(d) - before[f]
                if new != set(case["saves"][f]):
                    res["bad"].append(f"frontend {f + 1} ({case['fe'][f]}) newly stored {sorted(new)}, expected {sorted(case['saves'][f])}")
        except Exception as e:  # noqa
            res["bad"].append(f"the run raised {type(e).__name__}: {str(e)[:100]}")
        return res
    finally:
        for d in dirs:
            shutil.rmtree(d, ignore_errors=True)


def _enumerate(arg):
    """One TLC run of Components.tla (laws checked, expected sets printed) - executed in a pool, several at a time."""
    family, graph, pi = arg
    policy = POLICIES[graph][pi]
    writable = 2 if (family == "main" and pi == 0 and graph == "chain") else 1
    ov = dict(Types="TypesDef", PluginOf="PluginDef", DepsOf="DepsDef", SaveWhen="SaveDef", FEConfigs="FEDef")
    if family == "main":
        r, cases = V.tlc_cases("Components", dict(Writable=writable), ["Conforms", "PartialSavesNothing", "Minimal", "Emit"], overrides=ov,
                               mc_defs=mc_defs(graph, policy, writable), timeout=2400, workers=2)
        laws = ("Conforms", "PartialSavesNothing", "Minimal")
    else:
        r, cases = V.tlc_cases("Components", dict(Writable=1), ["ConformsFE", "NoWriteToReadonly", "EmitFE"], spec="SpecFE", overrides=ov,
                               mc_defs=mc_defs(graph, policy, 1), timeout=2400, workers=2)
        laws = ("ConformsFE", "NoWriteToReadonly")
    return dict(family=family, graph=graph, pi=pi, policy=policy, writable=writable, cases=cases, laws=laws,
                tlc=dict(generated=r.generated, distinct=r.distinct, depth=r.depth, ok=r.ok, violated=r.violated, wall_s=round(r.wall, 1)),
                out=r.out[-1500:] if (not r.ok or r.violated) else "")


def critical(g, c):
    """requests that are always executed, also in the quick tier: a plain request for the consumer of both outputs of a multi-output
    plugin with exactly one of the outputs stored"""
    return (g in ("multi_both", "multi_lag") and c["target"] == "pw" and c["mod"] == "none" and c["forbid"] == "none" and not c["save"]
            and len({"mx", "my"} & set(c["stored"])) == 1 and "pw" not in c["stored"])


def _execute_any(arg):
    return execute(arg[1:]) if arg[0] == "main" else execute_fe(arg[1:])


def run(chk):
    V.quiet_threads()
    quick = chk.tier == "quick"
    chk.rule = ("request = stored subset x target x save= subset x modifier (none, time range, selection, column projection, fuzzy, "
                "allow_incomplete) x forbid_creation_of, for chain / multi-output (one or both outputs consumed) / diamond graphs with several "
                "per-output save policies and 1 or 2 writable frontends, each executed on both processors; second family: two frontends with "
                "read-only / take_only / exclude filters; non-trivial = something is stored or an error is expected")
    jobs = [("main", g, pi) for g in GRAPHS for pi in range(len(POLICIES[g]))] + [("fe", "chain", 1), ("fe", "chain", 0), ("fe", "multi", 1)]
    enum = V.pmap(_enumerate, jobs, procs=8, warm=False)
    work, meta = [], []
    for e in enum:
        what = f"Components {'(frontend family) ' if e['family'] == 'fe' else ''}{e['graph']} policy {e['policy']}"
        chk.states += e["tlc"]["distinct"]
        chk.transitions += e["tlc"]["generated"]
        chk.tlc_runs.append(dict(what=what, **e["tlc"]))
        if e["tlc"]["violated"] in e["laws"]:
            raise V.MachineryError(f"Components.tla: {e['tlc']['violated']} fails in the model itself ({e['graph']}, {e['policy']}): " + e["out"])
        if not e["tlc"]["ok"] or len(e["cases"]) != e["tlc"]["distinct"]:
            raise V.MachineryError(f"{what}: TLC did not finish / {len(e['cases'])} cases for {e['tlc']['distinct']} states: " + e["out"])
        rng = __import__("random").Random(chk.seed + e["pi"] + (100 if e["family"] == "fe" else 0))
        g = e["graph"]
        if e["family"] == "main":
            frac = dict(chain=0.06, multi=0.012, multi_both=0.008, diamond=0.012, multi_lag=0.002)[g] if quick else (0.2 if g == "multi_lag" else 1.0)
        else:
            frac = (0.04 if g == "chain" else 0.006) if quick else (0.5 if g == "chain" else 0.08)
        cases = [c for c in e["cases"] if rng.random() < frac or (e["family"] == "main" and critical(g, c))]
        tpl = template_dir(g)
        for c in cases:
            work.append(("main", g, e["policy"], e["writable"], c, tpl) if e["family"] == "main" else ("fe", g, e["policy"], c, tpl))
            meta.append(e)
    res = V.pmap(_execute_any, work)
    nfe = total = 0
    for rr, e, w in zip(res, meta, work):
        c = rr["case"]
        g, pi, policy = e["graph"], e["pi"], e["policy"]
        chk.traces += 1
        if e["family"] == "main":
            total += 1
            chk.case(key=json.dumps([g, pi, c], sort_keys=True), nontrivial=bool(c["stored"] or c["error"]))
            for b in rr["bad"]:
                chk.violation(f"C11:{g}:policy{pi}:{json.dumps(dict(stored=sorted(c['stored']), target=c['target'], save=sorted(c['save']), mod=c['mod'], forbid=c['forbid']), sort_keys=True)}:{b.split(',')[0][:40]}",
                              f"{g} graph, save policies {policy}, request {c}: {b}", dict(graph=g, policy=policy, writable=e["writable"], case=c))
        else:
            nfe += 1
            chk.case(key=json.dumps([g, pi, "fe", c], sort_keys=True), nontrivial=True)
            for b in rr["bad"]:
                chk.violation(f"C11:frontends:{g}:policy{pi}:{json.dumps(dict(fe=c['fe'], has=c['has'], target=c['target'], save=c['save']), sort_keys=True)}:{b.split(',')[0][:40]}",
                              f"{g} graph, save policies {policy}, frontends {c['fe']} holding {c['has']}, target {c['target']}, save={c['save']}: {b}",
                              dict(graph=g, policy=policy, fe_case=c))
    # the office logs of the single-thread runs, judged against the P-level of PostOffice.tla ("each needed data type reaches its
    # consumers exactly once from exactly one origin")
    import postoffice
    po_obs = [dict(obs=o, key=f"{e['graph']} policy{e['pi']} stored={sorted(rr['case']['stored'])} target={rr['case']['target']} save={sorted(rr['case']['save'])} mod={rr['case']['mod']}",
                   replay=dict(graph=e["graph"], policy=e["policy"], writable=e["writable"], case=rr["case"]))
              for rr, e in zip(res, meta) if e["family"] == "main" for o in rr.get("po_logs", [])]
    postoffice.validate_observations(chk, po_obs, "C11 requests", pid="C11")
    # what multiprocessing does to the components (Inline.tla): real inline_plugins and real multiprocess runs
    import inline
    inline.run_part(chk, "C11")
    if res:
        chk.sample(dict(graph=meta[len(res) // 2]["graph"], policy=meta[len(res) // 2]["policy"], request=res[len(res) // 2]["case"]))
    chk.extra["frontend_cases_executed"] = nfe
    chk.exhaustive = False
    chk.extra["requests_executed"] = total
    chk.assumptions += ["stored subsets are prepared by copying data made under an all-ALWAYS policy (lineage does not depend on save_when)"]


def replay(chk, path):
    rp = json.load(open(path))["replay"]
    if "inline" in rp or "inline_run" in rp:
        import inline
        if "inline" in rp:
            x = rp["inline"]
            rr = inline.execute((x["graph"], x["policy"], x["case"], template_dir(x["graph"])))
        else:
            rr = inline.real_run((rp["inline_run"]["policy"], rp["inline_run"]["case"], inline.mp_template()))
        print(rr["bad"] or "holds")
        V.cleanup()
        return 1 if rr["bad"] else 0
    tpl = template_dir(rp["graph"])
    if "fe_case" in rp:
        rr = execute_fe((rp["graph"], rp["policy"], rp["fe_case"], tpl))
        print(rr["bad"] or "holds")
        V.cleanup()
        return 1 if rr["bad"] else 0
    rr = execute((rp["graph"], rp["policy"], rp["writable"], rp["case"], tpl))
    print(rr["bad"] or "holds")
    V.cleanup()
    return 1 if rr["bad"] else 0
