"""C07: splitting, concatenating, merging and rechunking obey the laws of chunking.

spec/Chunks.tla defines split / concatenate / merge / sub-run bookkeeping set-theoretically
(P-level) and transcribes split_array's scan and the annotation code (I-level).
spec/ChunksCases.tla enumerates every chunk of the scope; TLC checks the laws and
"transcription = definition" on each and prints the expected results, which are compared with the
real strax.Chunk.split / split_array / concatenate / merge / _split_runs_in_chunk.
The rechunker is free to choose its cuts, so real Rechunker runs are recorded and TLC validates
each recorded run against the nondeterministic P-level (spec/RechunkTrace.tla).
"""
import json
import os
import numpy as np
import vcommon as V
import strax
import strax.chunk as sc

DT = np.dtype(strax.time_fields)
DT2 = np.dtype(strax.time_fields + [(("extra", "x"), np.int32)])


def mk(c, data_type="dt", kind="k", run_id="0", dtype=DT, scale=1, **kw):
    rows = c["rows"]
    a = np.zeros(len(rows), dtype=dtype)
    for i, r in enumerate(rows):
        a[i]["time"] = r[0] * scale
        a[i]["endtime"] = r[1] * scale
    return strax.Chunk(data_type=data_type, data_kind=kind, dtype=dtype, run_id=run_id,
                       start=c["s"] * scale, end=c["e"] * scale, data=a, **kw)


def rows_of(ch, scale=1):
    return [[int(r["time"]) // scale, int(r["endtime"]) // scale] for r in ch.data]


def check_split_case(case):
    """returns (violations [(signature, text)], nontrivial count, drift count)"""
    bad = []
    c = case["c"]
    nontriv = 0
    drift = 0
    sp = case["sp"]
    if isinstance(sp, list):      # ToJson prints a function with domain 1..n as an array
        sp = {str(case["t0"] + i): v for i, v in enumerate(sp)}
    for tk, per in sp.items():
        t = int(tk)
        for ek, (ok, tp, nmin, nmax, ni) in per.items():
            early = ek == "1"
            ch = mk(c)
            okreal = None
            try:
                c1, c2 = ch.split(t, allow_early_split=early)
                n = len(c1)
                okreal = (1, c1.end)
                good = (ok == 1 and c1.end == tp and nmin <= n <= nmax and
                        (c1.start, rows_of(c1), c2.start, c2.end, rows_of(c2)) ==
                        (c["s"], c["rows"][:n], tp, c["e"], c["rows"][n:]))
                got = (1, c1.start, c1.end, rows_of(c1), c2.start, c2.end, rows_of(c2))
                if good and n != ni:
                    drift += 1
                # the annotation law of splitting (Chunks.tla, SplitRuns): each fragment records its run over exactly its own range -
                # cut where the data was cut, also when an early split moved the cut
                if good:
                    for f in (c1, c2):
                        if f.end > f.start and f.superrun != {f.run_id: {"start": f.start, "end": f.end}}:
                            bad.append((f"split-annotation:{json.dumps(c, sort_keys=True)}:t={t}:early={int(early)}",
                                        f"Chunk.split(t={t}, allow_early_split={early}) of {c}: the fragment [{f.start}, {f.end}) records the run "
                                        f"span {f.superrun}"))
            except strax.CannotSplit:
                good = ok == 0
                got = "CannotSplit"
            except Exception as e:  # noqa
                good = False
                got = repr(e)
            if not good:
                bad.append((f"split:{json.dumps(c, sort_keys=True)}:t={t}:early={int(early)}",
                            f"Chunk.split(t={t}, allow_early_split={early}) of {c}: expected ok={ok} t'={tp} "
                            f"nleft in [{nmin},{nmax}], got {got}"))
            if (ok and 0 < nmin < len(c["rows"])) or not ok or tp != max(min(t, c["e"]), c["s"]):
                nontriv += 1
    return bad, nontriv, drift


def check_concat_case(case):
    bad = []
    cs, f = case["cs"][:2], case["f"]
    # concatenate: same data type; bit0: different run id, bit1: different data type
    a = mk(cs[0], run_id="0", data_type="dt")
    b = mk(cs[1], run_id="1" if f & 1 else "0", data_type="other" if f & 2 else "dt")
    exp_ok = case["ok"]
    try:
        r = strax.Chunk.concatenate([a, b])
        got = (True, r.start, r.end, rows_of(r))
    except ValueError as e:
        got = (False,)
    except Exception as e:  # noqa
        got = ("exc", repr(e))
    exp = (True, case["res"]["s"], case["res"]["e"], case["res"]["rows"]) if exp_ok else (False,)
    if got != exp:
        bad.append((f"concat:{json.dumps(case['cs'], sort_keys=True)}:f={f}",
                    f"Chunk.concatenate of {cs} flags={f}: expected {exp} got {got}"))
    # merge: same kind, different data types; bit0: different run id, bit1: different kind
    a = mk(cs[0], run_id="0", data_type="dta", kind="k")
    b = mk(cs[1], run_id="1" if f & 1 else "0", data_type="dtb", kind="k2" if f & 2 else "k", dtype=DT2)
    try:
        r = strax.Chunk.merge([a, b])
        got = (True, r.start, r.end, len(r), set(r.data.dtype.names) == {"time", "endtime", "x"})
    except ValueError:
        got = (False,)
    except Exception as e:  # noqa
        got = ("exc", repr(e))
    exp = (True, cs[0]["s"], cs[0]["e"], len(cs[0]["rows"]), True) if case["mergeok"] else (False,)
    if got != exp:
        bad.append((f"merge:{json.dumps(case['cs'], sort_keys=True)}:f={f}",
                    f"Chunk.merge of {cs} flags={f}: expected {exp} got {got}"))
    return bad, int(not exp_ok or not case["mergeok"] or bool(cs[0]["rows"] and cs[1]["rows"]))


def runs_to_dict(runs):
    return {f"r{r['run']}": dict(start=r["s"], end=r["e"]) for r in runs} if runs else None


def check_runs_case(case):
    bad = []
    runs = case["runs"]
    d = runs_to_dict(runs)
    for tk, sp in case["sp"].items():
        t = int(tk)
        got = sc._split_runs_in_chunk(d, t)
        exp = (runs_to_dict(sp[0]), runs_to_dict(sp[1]))
        if d is None:
            exp = (None, None)
        if got != exp:
            bad.append((f"runs:{json.dumps(runs)}:t={t}", f"_split_runs_in_chunk({d}, {t}) = {got}, expected {exp}"))
        # the same through Chunk.split of a superrun chunk covering exactly its subruns
        if runs and all(runs[i]["e"] == runs[i + 1]["s"] for i in range(len(runs) - 1)):
            s, e = runs[0]["s"], runs[-1]["e"]
            ch = strax.Chunk(data_type="dt", data_kind="k", dtype=DT, run_id="_sup", start=s, end=e,
                             data=np.zeros(0, DT), subruns=d)
            c1, c2 = ch.split(t)
            tt = max(min(t, e), s)
            g = (c1.subruns, c2.subruns)
            ex = sc._split_runs_in_chunk(d, tt)
            exp2 = (runs_to_dict(case["sp"][str(tt)][0]) if str(tt) in case["sp"] else ex[0],
                    runs_to_dict(case["sp"][str(tt)][1]) if str(tt) in case["sp"] else ex[1])
            if g != exp2:
                bad.append((f"runs-chunk:{json.dumps(runs)}:t={t}", f"superrun chunk split at {t}: subruns {g}, expected {exp2}"))
            # concatenating the two halves restores the annotation
            try:
                back = strax.Chunk.concatenate([c1, c2], allow_superrun=True)
                if back.subruns != d and not (len(c1) == 0 and c1.start == c1.end) and not (c2.start == c2.end):
                    bad.append((f"runs-concat:{json.dumps(runs)}:t={t}", f"concatenate(split) subruns {back.subruns} != {d}"))
            except Exception as ex_:  # noqa
                bad.append((f"runs-concat:{json.dumps(runs)}:t={t}", f"concatenate(split(superrun chunk)) raised {ex_!r}"))
    return bad, int(bool(runs))


# ----------------------------------------------------------------------------- rechunker (B2)
UNIT = 400   # ns per model time unit: gaps of 3 units (1200 ns) exceed DEFAULT_CHUNK_SPLIT_NS, gaps of 2 do not


def rechunk_run(stream, target_rows):
    """Feed a chunk stream (model units) to the real Rechunker; return recorded outputs or an error."""
    rc = strax.Rechunker(rechunk=True, run_id="0")
    out = []
    tmb = (target_rows * DT.itemsize + DT.itemsize // 2) * 1e-6
    try:
        for c in stream:
            ch = mk(c, scale=UNIT, target_size_mb=tmb)
            for o in rc.receive(ch):
                out.append(dict(s=o.start, e=o.end, rows=[[int(r["time"]), int(r["endtime"])] for r in o.data]))
        for o in rc.flush():
            out.append(dict(s=o.start, e=o.end, rows=[[int(r["time"]), int(r["endtime"])] for r in o.data]))
    except Exception as e:  # noqa
        return None, f"{type(e).__name__}: {e}"
    return out, None


def rechunk_job(arg):
    case, targets = arg
    res = []
    for k in targets:
        out, err = rechunk_run(case["chunks"], k)
        inp = [dict(s=c["s"] * UNIT, e=c["e"] * UNIT, rows=[[r[0] * UNIT, r[1] * UNIT] for r in c["rows"]])
               for c in case["chunks"]]
        res.append(dict(inp=inp, out=out, err=err, target=k))
    return res


def _rechunk_batch(batch):
    d = V.stage_spec(["Chunks", "RechunkTrace"], {})
    with open(os.path.join(d, "traces.json"), "w") as f:
        json.dump([dict(inp=t["inp"], out=t["out"]) for t in batch], f)
    with open(os.path.join(d, "RechunkTrace.cfg"), "w") as f:
        f.write("SPECIFICATION Spec\nINVARIANT Accepted\nCHECK_DEADLOCK FALSE\n")
    r = V.run_tlc(d, "RechunkTrace", workers=2, timeout=2400, env={"TRACE_FILE": os.path.join(d, "traces.json")},
                  args=["-continue"], heap="3g")
    import re
    rejected = sorted({int(m.group(1)) for m in re.finditer(r"\btid = (\d+)", r.out)})
    return dict(ok=r.ok, violated=r.violated, rejected=rejected, generated=r.generated, distinct=r.distinct, depth=r.depth, wall=r.wall,
                out=None if (r.ok or r.violated) else r.out[-2000:])


def validate_rechunk_traces(chk, traces):
    """TLC evaluates the P-level of rechunking on every recorded run (in batches, one TLC run each)."""
    B = 12000
    batches = [traces[i:i + B] for i in range(0, len(traces), B)]
    res = V.pmap(_rechunk_batch, batches, procs=8) if len(batches) > 1 else [_rechunk_batch(b) for b in batches]
    rejected = set()
    for k, r in enumerate(res):
        chk.states += r["distinct"]
        chk.transitions += r["generated"]
        chk.tlc_runs.append(dict(what=f"rechunker trace validation, batch {k + 1}/{len(res)}", generated=r["generated"], distinct=r["distinct"],
                                 depth=r["depth"], ok=r["ok"], violated=r["violated"], wall_s=round(r["wall"], 1)))
        if r["out"]:
            raise V.MachineryError("rechunk trace validation failed: " + r["out"])
        if r["violated"] and not r["rejected"]:
            raise V.MachineryError("rechunk trace validation: violation without trace id")
        rejected |= {k * B + i for i in r["rejected"]}
    return rejected


# ----------------------------------------------------------------------------- entry
def _split_job(cases):
    out = []
    n = 0
    for c in cases:
        b, nt, dr = check_split_case(c)
        out += b
        n += nt
    return out, n


def _concat_job(cases):
    out = []
    n = 0
    for c in cases:
        b, nt = check_concat_case(c)
        out += b
        n += nt
    return out, n


def run(chk):
    quick = chk.tier == "quick"
    scopes = [dict(G=5, MaxRows=2, ZeroLen=True, Kind="split"),
              dict(G=5 if quick else 7, MaxRows=3, ZeroLen=False, Kind="split"),
              dict(G=3 if quick else 4, MaxRows=2, ZeroLen=False, Kind="concat"),
              dict(G=4 if quick else 6, MaxRows=1, ZeroLen=False, Kind="runs")]
    if not quick:
        scopes.append(dict(G=5, MaxRows=4, ZeroLen=False, Kind="split"))
        scopes.append(dict(G=4, MaxRows=3, ZeroLen=True, Kind="split"))
    chk.rule = ("every chunk of the scope (sorted interval arrays on a small grid, disjoint / overlapping / shared endpoints / "
                "zero-length rows) x every split time from below start to beyond end x early-split flag; every pair of small "
                "chunks x run/type mismatch flags for concatenate and merge; every 0..2-run annotation x split time; every "
                "chunking of a run x target size for the rechunker. non-trivial = a split that moves rows, is refused or is moved early")
    chk.exhaustive = True
    # compile numba functions once in the parent so that forked workers inherit them
    check_split_case(dict(c=dict(s=0, e=3, rows=[[0, 1], [1, 3]]), sp={"1": {"0": [1, 1, 1, 1, 1], "1": [1, 1, 1, 1, 1]}}, t0=0))
    rechunk_run([dict(s=0, e=3, rows=[[0, 1]])], 1)
    for sc_ in scopes:
        r, cases = V.tlc_cases("ChunksCases", sc_, ["Laws", "Emit"], timeout=3000)
        chk.add_tlc(r, f"ChunksCases {sc_}")
        if r.violated == "Laws":
            raise V.MachineryError(f"Chunks.tla: a law or 'transcription = definition' fails in the model itself {sc_}: "
                                   + r.out[-1500:])
        V.tlc_must_finish(r, f"ChunksCases {sc_}")
        if not r.ok or len(cases) != r.distinct:
            raise V.MachineryError(f"ChunksCases {sc_}: {len(cases)} cases for {r.distinct} states\n" + r.out[-1500:])
        kind = sc_["Kind"]
        if kind == "split":
            res = V.pmap(_split_job, V.chunks_of(cases, V.NCPU * 4))
        elif kind == "concat":
            res = V.pmap(_concat_job, V.chunks_of(cases, V.NCPU * 4))
        else:
            res = [([b for c in cases for b in check_runs_case(c)[0]], len(cases))]
        nt = 0
        for bad, n in res:
            nt += n
            for sig, text in bad:
                chk.violation("C07:" + sig, text, dict(kind=kind, scope=sc_, signature=sig))
        chk.evaluations += len(cases)
        chk.traces += len(cases)
        for i in range(nt):
            chk.nontrivial.add(f"{kind}{sc_['G']}{sc_['MaxRows']}{sc_['ZeroLen']}-{i}")
        if cases:
            chk.sample(dict(kind=kind, case=cases[len(cases) // 2]))
    # rechunker
    rs = dict(G=6 if quick else 7, MaxRows=3, MaxChunks=2 if quick else 3, Kind="stream")
    r, cases = V.tlc_cases("StreamCases", rs, ["Emit"], timeout=3000)
    chk.add_tlc(r, f"StreamCases {rs}")
    V.tlc_must_finish(r, "StreamCases")
    targets = (1, 2, 3) if quick else (1, 2, 3, 4)
    res = V.pmap(rechunk_job, [(c, targets) for c in cases])
    traces = [t for rr in res for t in rr]
    oktr = []
    for t in traces:
        chk.evaluations += 1
        if t["err"] is not None:
            chk.violation(f"C07:rechunk-raises:{t['err'].split(':')[0]}:{json.dumps(t['inp'])}:target={t['target']}",
                          f"Rechunker raised {t['err']} on the valid contiguous stream {t['inp']} (target {t['target']} rows)",
                          dict(kind="rechunk", stream=t["inp"], target=t["target"]))
        else:
            oktr.append(t)
            if len(t["out"]) != len(t["inp"]):
                chk.nontrivial.add("rc" + json.dumps(t)[:200])
    rejected = validate_rechunk_traces(chk, oktr)
    chk.traces += len(oktr)
    for i in sorted(rejected):
        t = oktr[i - 1]
        chk.violation(f"C07:rechunk-output:{json.dumps(t['inp'])}:target={t['target']}",
                      f"Rechunker output {t['out']} for input {t['inp']} violates the laws of rechunking",
                      dict(kind="rechunk", stream=t["inp"], target=t["target"]))
    if oktr:
        chk.sample(dict(kind="rechunk", trace=oktr[len(oktr) // 2]))
    chk.assumptions += ["rows are compared as (time, endtime) pairs of the time_fields dtype; payload fidelity is C03's business",
                        f"rechunker time unit {UNIT} ns per model unit"]


def replay(chk, path):
    rp = json.load(open(path))
    print("re-run the check; failing case:", rp["signature"], "\n", rp["text"])
    rep = rp["replay"]
    if rep.get("kind") == "rechunk":
        stream = [dict(s=c["s"] // UNIT, e=c["e"] // UNIT, rows=[[r[0] // UNIT, r[1] // UNIT] for r in c["rows"]])
                  for c in rep["stream"]]
        out, err = rechunk_run(stream, rep["target"])
        print("now:", out, err)
        if err:
            return 1
        chk2 = V.Check("C07", "quick", 0)
        return 1 if validate_rechunk_traces(chk2, [dict(inp=rep["stream"], out=out)]) else 0
    return 0
